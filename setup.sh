#!/bin/sh
# Builds /verif/.venv offline: python 3.12 (same interpreter as /venv, which has
# the repo's third-party deps) + z3-solver, cvc5, jsonschema from the wheelhouse.
set -e
cd "$(dirname "$0")"
V=.venv
if [ -x "$V/bin/python" ] && "$V/bin/python" -c 'import z3, jsonschema, sqlalchemy, cryptography' 2>/dev/null; then
  echo "setup: $V already usable"; exit 0
fi
rm -rf "$V"
/venv/bin/python -m venv "$V"
SP=$("$V/bin/python" -c 'import sysconfig; print(sysconfig.get_paths()["purelib"])')
echo "import site; site.addsitedir('/venv/lib/python3.12/site-packages')" > "$SP/_repo_deps.pth"
PIP_NO_INDEX=1 "$V/bin/python" -m pip install -q --no-index --find-links /opt/veriftools/wheels z3-solver cvc5 jsonschema 2>&1 | grep -v '^WARNING' || true
"$V/bin/python" -c 'import z3, jsonschema, sqlalchemy, cryptography; print("setup: ok, z3", z3.get_version_string())'
