"""C17 - no request is evaluated before the client's identity is established."""
from vf.driver import contract_units

LEVEL = "proof"
MODULES = ["contracts.c_utils", "contracts.c_primitives", "contracts.c_session", "contracts.c_auth"]
EXPLANATION = ("Trace predicates over every path of the session's message loop: the engine is entered "
               "only after a certificate was obtained, the request decoded and authenticate() returned, "
               "with exactly the identity it returned; every other path answers with an "
               "authentication/invalid-message error and contains no engine call.")


def units(ctx):
    us = contract_units("C17", MODULES, ctx)
    for u in us:
        if u.name.endswith("KmipSession.authenticate"):
            u.bounded = True     # 0..3 authentication blocks
    from vf import bounded
    us += bounded.units(["common_names"], ctx)
    return us
