"""C20 - secrets stay out of logs and error messages at the default log level."""
from vf.driver import contract_units

LEVEL = "proof"
MODULES = ["contracts.c_utils", "contracts.c_primitives", "contracts.c_access", "contracts.c_engine",
           "contracts.c_request", "contracts.c_attributes", "contracts.c_session", "contracts.c_auth",
           "contracts.c_protocol", "contracts.c_factory", "contracts.c_codec_taint", "contracts.c_config", "contracts.c_crypto",
           "contracts.c_taint"]
EXPLANATION = ("Taint contracts: every value of the executor carries a label set; stored values, results of the "
               "cryptography engine and credential values are sources (`secret`), message encodings are `wire`; "
               "on every path of every request handler, of the batch/request functions, of the session loop and "
               "of the client protocol, no argument of a logger call at INFO or above and no text of an exception "
               "that leaves the function carries such a label.")
ASSUMPTIONS = ["exceptions raised inside third-party libraries do not embed their byte arguments in their text",
               "taint flows only through the operations the executor models (formatting, concatenation, containers, "
               "attribute reads, uninterpreted calls: result = join of arguments); len/type/isinstance/is None declassify",
               "the root logger configuration is the shipped one (level INFO); debug() is not a sink"]


def OBLIGATION_FILTER(name):
    return '/trace.no-secret' in name or '/exploration' in name or '/fragment' in name or '/extract' in name


QUICK_SLICES = {'protocol-version': [4, 5], 'managed-class': [0, 4], 'oneof:payload._attributes.m0': [0, 4, 9]}


def units(ctx):
    import importlib
    for m in MODULES:
        importlib.import_module(m)
    from contracts import c_taint
    c_taint.attach(c_taint.HANDLER_PREFIXES)
    us = contract_units("C20", MODULES, ctx, slices=QUICK_SLICES if ctx["tier"] == "quick" else None)
    return us
