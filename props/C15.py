"""C15 - attribute operations change only what they may, exactly as asked."""
from vf.driver import contract_units

LEVEL = "other"
MODULES = ["contracts.c_access", "contracts.c_engine", "contracts.c_attributes"]
EXPLANATION = ("Set/Modify/DeleteAttribute handlers (split per protocol version x stored class) and their "
               "helpers are checked on every path against exactness, protected-attribute, no-effect-on-failure "
               "and single-transaction predicates; collections of the stored object have 0..3 symbolic "
               "instances (bounded); the attribute rule table is proved for every name and version.")


def units(ctx):
    return contract_units("C15", MODULES, ctx)
