"""C06 - cryptographic operations compute what they claim (plumbing only)."""
from vf.driver import contract_units

LEVEL = "other"
MODULES = ["contracts.c_access", "contracts.c_engine", "contracts.c_request", "contracts.c_crypto"]
EXPLANATION = ("The `cryptography` package is a trusted external; equality with independent reference "
               "implementations and the library's tamper rejection are its properties and are NOT decided. "
               "Decided, on every path of the real functions with every library call an uninterpreted "
               "constructor recorded with its arguments: symmetric Encrypt and Decrypt build the same cipher "
               "term (the table's algorithm class applied to the given key, the table's mode class applied to "
               "the given or freshly generated IV, which is returned), pad exactly for CBC/ECB, hand over "
               "exactly the given data and associated data and finish with finalize() (where an authenticated "
               "mode verifies its tag); DeriveKey stores exactly Cryptographic Length / 8 bytes of what "
               "derive_key returned for that length.  MAC (HMAC over the table's hash / CMAC over the table's cipher of the key, fed exactly the data), "
               "RFC 3394 wrap (wrapping key, material - in that order), key generation (one fresh urandom value of "
               "length/8 bytes) and Sign (key loaded from the given bytes, the given data) are under contract too; "
               "each key derivation function is built with the table's hash, the requested length and the request's "
               "salt / iterations / derivation data and run on the key material; SignatureVerify loads the key from the "
               "given bytes and answers valid only if verify(signature, message, ...) returned normally.")
ASSUMPTIONS = ["the cryptography package computes the named primitives correctly, rejects tampered authenticated "
               "input in finalize(), and os.urandom returns fresh bytes of the requested length",
               "CryptographyEngine.create_symmetric_key returns length // 8 fresh bytes (model of the handler pass)"]


def OBLIGATION_FILTER(name):
    return any(k in name for k in ('trace.same-cipher', 'trace.derived-material', 'trace.rfc3394', 'trace.fresh-key', 'trace.hmac',
                                   'trace.signature', 'trace.kdf', 'trace.verify', 'trace.derived-value', '/exploration', '/fragment',
                                   '/extract', 'raises.'))


def units(ctx):
    return contract_units("C06", MODULES, ctx)
