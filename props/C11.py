"""C11 - requests are isolated from each other's transient state."""
from vf.driver import contract_units

LEVEL = "proof"
MODULES = ["contracts.c_access", "contracts.c_engine", "contracts.c_request"]
EXPLANATION = ("process_request is proved against a def-before-use trace predicate over the six "
               "per-request fields of the shared engine object: on every path each read (including the "
               "reads its callees are proved to perform) is preceded by a write made by the same request.")


def units(ctx):
    return contract_units("C11", MODULES, ctx)
