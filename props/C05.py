"""C05 - stored objects come back exactly as stored (client, wire, engine, SQLite)."""
from vf.driver import contract_units

LEVEL = "other"
MODULES = ["contracts.c_secretfactory", "contracts.c_access", "contracts.c_engine", "contracts.c_request", "contracts.c_attributes",
           "contracts.c_factory", "contracts.c_sqltypes", "contracts.c_template"]
EXPLANATION = ("The engine-side hops are under contract: the conversion of a registered core secret into the "
               "stored object carries value bytes, algorithm, length, key format and the type-specific field "
               "over unchanged (ObjectFactory.convert, core -> pie); Get builds the returned secret from exactly "
               "the stored object's type and columns (wrapped: the wrapped value of the stored bytes, nothing else "
               "changed) and never writes to the store; the attribute reader behind GetAttributes / "
               "GetAttributeList reports an attribute only if the request's version supports it and it applies; "
               "enumeration columns survive the database type decorator (EnumType lemma over its two real "
               "methods, every column enumeration and None); the key-wrapping-data accessor pair of pie keys keeps every "
               "leaf (lemma); SecretFactory.create - the last step of Get - is proved to build, for every dictionary "
               "shape _build_core_object produces, a secret of the right class whose every field is the dictionary's "
               "entry, raising nothing (lemmas over the real factory and core constructors); CreateKeyPair never lets "
               "the common template override a key-specific attribute.  NOT decided here: SQLAlchemy/SQLite storing "
               "and returning column values unchanged (assumed), the client library hops (C19) and the wire (C01).")
ASSUMPTIONS = ["SQLAlchemy stores and returns column values unchanged except through the two type decorators; "
               "column defaults apply; SQLite durability across restarts",
               "the wrapping data a stored key returns from its accessor is handed to SecretFactory unchanged "
               "(an uninterpreted per-object value in the Get handler contract; accessor and factory each proved "
               "separately)"]


def OBLIGATION_FILTER(name):
    keep = ('trace.returns-what', 'trace.get-never-writes', 'trace.stored-fields', 'trace.attribute-reported',
            'post.column-value', 'bounded:', 'raises.', 'trace.reads-only', '/exploration', '/fragment', '/extract',
            'trace.new-rows-only', 'trace.key-specific', 'trace.instances-keep', 'post.', 'fact:')
    return any(k in name for k in keep)


def units(ctx):
    from vf import bounded, facts
    us = contract_units("C05", MODULES, ctx, slices={'protocol-version': [4, 5]} if ctx["tier"] == "quick" else None)
    return us + bounded.units(["usage_mask_type"], ctx) + facts.units(["exact_column_types"], ctx)
