"""C09 - crash consistency (transaction discipline)."""
from vf.driver import contract_units

LEVEL = "other"
MODULES = ["contracts.c_access", "contracts.c_engine", "contracts.c_request", "contracts.c_attributes",
           "contracts.c_init"]
EXPLANATION = ("No crash is executed.  Decided here: the discipline from which all-or-nothing follows GIVEN "
               "that one SQLAlchemy session commit is one atomic, durable SQLite transaction: on every "
               "path of every state-changing handler under contract no commit lies between two persistent "
               "effects of the operation, a commit follows the last effect before the response is built, "
               "and a failing path has no effect at all (so there is nothing to commit).")
ASSUMPTIONS = ["one SQLAlchemy session.commit() = one atomic, durable SQLite transaction (journal, fsync "
               "and flush ordering are not verified)",
               "schema creation at start-up (create_all) is idempotent"]


# the attribute handlers are proved for every protocol version x stored class under C15; here the
# quick tier re-proves them on two slices (KMIP 1.4 and 2.0, first stored class), the thorough tier on all
QUICK_SLICES = {'protocol-version': [4, 5], 'managed-class': [0]}


def units(ctx):
    from vf import facts
    us = contract_units("C09", MODULES, ctx, slices=QUICK_SLICES if ctx["tier"] == "quick" else None)
    return us + facts.units(["store_durability"], ctx)
