"""C09 - crash consistency (transaction discipline)."""
from vf.driver import contract_units

LEVEL = "other"
MODULES = ["contracts.c_access", "contracts.c_engine", "contracts.c_request"]
EXPLANATION = ("No crash is executed.  Decided here: the discipline from which all-or-nothing follows GIVEN "
               "that one SQLAlchemy session commit is one atomic, durable SQLite transaction: on every "
               "path of every state-changing handler under contract no commit lies between two persistent "
               "effects of the operation, a commit follows the last effect before the response is built, "
               "and a failing path has no effect at all (so there is nothing to commit).")
ASSUMPTIONS = ["one SQLAlchemy session.commit() = one atomic, durable SQLite transaction (journal, fsync "
               "and flush ordering are not verified)",
               "schema creation at start-up (create_all) is idempotent"]


def units(ctx):
    return contract_units("C09", MODULES, ctx)
