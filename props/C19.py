"""C19 - the client reports exactly what the server answered."""
from vf.driver import contract_units

LEVEL = "proof"
MODULES = ["contracts.c_utils", "contracts.c_primitives", "contracts.c_protocol", "contracts.c_client", "contracts.c_factories", "contracts.c_proxy"]
EXPLANATION = "Client framing and result handling proved against contracts; requests decodable = C01."


def units(ctx):
    return contract_units("C19", MODULES, ctx)
