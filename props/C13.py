"""C13 - well-formed requests never hit the server's internal-error path."""
from vf.driver import contract_units

LEVEL = "proof"
MODULES = ["contracts.c_secretfactory", "contracts.c_access", "contracts.c_engine", "contracts.c_request", "contracts.c_attributes",
           "contracts.c_locate", "contracts.c_crypto", "contracts.c_factory", "contracts.c_template"]
EXPLANATION = ("For every request handler under contract, every path of the real code under the payload "
               "invariant (what the decoder accepts), every stored class/state and every protocol version "
               "either returns or raises one of the declared KmipError classes (obligation raises.unexpected: "
               "any other exception - AttributeError, TypeError, KeyError, IndexError - is the General "
               "Failure path); dereferences of absent values are explored as exceptions by the executor.")


def units(ctx):
    from vf import facts
    return contract_units("C13", MODULES, ctx) + facts.units(["crypto_wrapped"], ctx)
