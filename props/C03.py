"""C03 - access control."""
from vf.driver import contract_units

LEVEL = "proof"
MODULES = ["contracts.c_access", "contracts.c_engine"]
EXPLANATION = ("The decision functions and the two choke points of the engine are proved against a "
               "spec of the grant relation written from the property text, for every policy store "
               "(uninterpreted dictionaries), identity, owner, object type and operation.")


def units(ctx):
    return contract_units("C03", MODULES, ctx)
