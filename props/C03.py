"""C03 - access control."""
from vf.driver import contract_units

LEVEL = "proof"
MODULES = ["contracts.c_access", "contracts.c_engine", "contracts.c_request", "contracts.c_attributes"]
EXPLANATION = ("The decision functions and the two choke points of the engine are proved against a "
               "spec of the grant relation written from the property text, for every policy store "
               "(uninterpreted dictionaries), identity, owner, object type and operation.")


# the attribute handlers are proved for every protocol version x stored class under C15; here the
# quick tier re-proves them on two slices (KMIP 1.4 and 2.0, first stored class), the thorough tier on all
QUICK_SLICES = {'protocol-version': [4, 5], 'managed-class': [0]}


def units(ctx):
    return contract_units("C03", MODULES, ctx, slices=QUICK_SLICES if ctx["tier"] == "quick" else None)
