"""C04 - object lifecycle is monotone and gates every cryptographic use."""
from vf.driver import contract_units

LEVEL = "proof"
MODULES = ["contracts.c_access", "contracts.c_engine", "contracts.c_request"]
EXPLANATION = ("Each handler that can change an object's state, or use it cryptographically, is "
               "proved over a symbolic stored object (every class, state, mask) and a symbolic "
               "request: every state assignment is an allowed lifecycle step, every cryptographic "
               "call is dominated by the state/kind/mask guards; no other engine function assigns "
               "`state` (frame scan).")


def units(ctx):
    return contract_units("C04", MODULES, ctx)
