"""C14 - Locate returns exactly the permitted, matching objects, newest first."""
from vf.driver import contract_units

LEVEL = "proof"
MODULES = ["contracts.c_access", "contracts.c_engine", "contracts.c_request", "contracts.c_locate"]
EXPLANATION = ("_process_locate is proved on every path for any number of stored objects and filter "
               "attributes: loop invariants with ghost accumulators tie the handler's bookkeeping to the "
               "specification's folds (spec_locate, written from the property text); an object of an "
               "arbitrary iteration is kept iff it matches every filter; the identifier list is the list "
               "term map(str(uid), slice(sorted(F, initial date, descending), lo, hi)) with the page bounds "
               "the property prescribes; the permitted list is the postcondition of the access-controlled "
               "listing (C03).  A bounded differential run of the real handler on a real engine against the "
               "specification (one request per filterable attribute, labelled bounded) cross-checks the "
               "specification functions and stands in when a change leaves the executor's fragment.")
ASSUMPTIONS = ["initial dates of stored objects are positive (assigned from time.time())",
               "offset and maximum items are non-negative (negative values are encodable but the "
               "property's 'slice' is not defined for them)",
               "Python slicing L[a:b] on lists, sorted(key=, reverse=True) is a stable descending sort "
               "(list operations on lists of symbolic length are kept as terms)"]


def units(ctx):
    from vf.driver import Unit
    from contracts import c_locate
    us = contract_units("C14", MODULES, ctx)
    u = Unit("bounded:locate-differential", (lambda sess: c_locate.bounded_locate_differential(sess, ctx["tier"])),
             "bounded", bounded=True, weight=2)
    u.replayer = lambda name, model: {"confirmed": True, "note": "bounded stand-in: the failing request was produced by "
                                      "running the real handler on a real engine", "input": model}
    return us + [u]
