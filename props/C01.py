"""C01 - TTLV codec round trip."""
from vf.driver import contract_units

LEVEL = "proof"
MODULES = ["contracts.c_utils", "contracts.c_primitives", "contracts.c_factories", "contracts.c_enums"]
EXPLANATION = ("Contracts on the real primitive codecs are discharged by pyvc (AST -> SMT) for all "
               "values; structure classes are covered by ttlvsym (parametric in leaf values).")


def units(ctx):
    us = contract_units("C01", MODULES, ctx,
                        weight={"kmip.core.primitives.ByteString.read": 50})
    from vf import ttlvunits, bounded, facts
    if facts.mutable_defaults_present():
        # the native parametric runs below share state through such a default (and may not end):
        # the fact unit reports the violation, the native units are not built
        return us + facts.units(["wrappers_truthy", "no_mutable_defaults"], ctx)
    us += ttlvunits.make_units(ctx, "C01")
    us += bounded.units(["biginteger", "bit_length"], ctx)
    from vf import facts
    us += facts.units(["wrappers_truthy", "no_mutable_defaults"], ctx)
    return us
