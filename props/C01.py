"""C01 - TTLV codec round trip."""
from vf.driver import contract_units

LEVEL = "proof"
MODULES = ["contracts.c_utils", "contracts.c_primitives", "contracts.c_factories"]
EXPLANATION = ("Contracts on the real primitive codecs are discharged by pyvc (AST -> SMT) for all "
               "values; structure classes are covered by ttlvsym (parametric in leaf values).")


def units(ctx):
    us = contract_units("C01", MODULES, ctx,
                        weight={"kmip.core.primitives.ByteString.read": 50})
    from vf import ttlvunits, bounded
    us += ttlvunits.make_units(ctx, "C01")
    us += bounded.units(["biginteger", "bit_length"], ctx)
    from vf import facts
    us += facts.units(["wrappers_truthy"], ctx)
    return us
