"""C16 - protocol version honoured: echo, refusal, feature gating."""
from vf.driver import contract_units

LEVEL = "proof"
MODULES = ["contracts.c_access", "contracts.c_engine", "contracts.c_request", "contracts.c_template"]
EXPLANATION = ("Version acceptance, the per-operation version gate (decorator wrapper interpreted from "
               "its own source with the live closure values) and dispatch are proved for all "
               "operations x supported versions; for every structure class and version the set of tags the "
               "real decoder accepts (ttlvsym, decoder-driven) contains no tag that a later version of the "
               "specification introduced (tag blocks per version from the KMIP tag tables).")


def units(ctx):
    from vf import facts, ttlvunits
    return contract_units("C16", MODULES, ctx) + facts.units(["versions", "tag_blocks"], ctx) + \
        ttlvunits.make_units(ctx, "C16")
