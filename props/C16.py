"""C16 - protocol version honoured: echo, refusal, feature gating."""
from vf.driver import contract_units

LEVEL = "proof"
MODULES = ["contracts.c_access", "contracts.c_engine", "contracts.c_request"]
EXPLANATION = ("Version acceptance, the per-operation version gate (decorator wrapper interpreted from "
               "its own source with the live closure values) and dispatch are proved for all "
               "operations x supported versions; the field x version matrix comes from ttlvsym.")


def units(ctx):
    from vf import facts
    return contract_units("C16", MODULES, ctx) + facts.units(["versions"], ctx)
