"""C10 - concurrent sessions behave as if served one request at a time (lock discipline)."""
from vf.driver import contract_units

LEVEL = "other"
MODULES = ["contracts.c_access", "contracts.c_engine", "contracts.c_request", "contracts.c_lock", "contracts.c_utils", "contracts.c_primitives", "contracts.c_session", "contracts.c_auth"]
EXPLANATION = ("No interleaving is executed.  Decided here: the discipline from which serial equivalence "
               "follows GIVEN that threading.RLock provides mutual exclusion: the _synchronize wrapper "
               "runs the wrapped function entirely inside the lock (contract on the real wrapper), "
               "process_request is that wrapper (live closure), it is the only public method touching "
               "the per-request fields (read/write trace predicates on the unlocked public surface), and "
               "inside the critical section every per-request field is written by this request before "
               "it is read (C11's def-before-use), so a request is evaluated under its own session's "
               "identity and version.")
ASSUMPTIONS = ["threading.RLock provides mutual exclusion and is re-entrant (not verified)",
               "SQLite connection sharing across threads (check_same_thread=False) is safe under that lock",
               "the policy store is mutated by the monitor process outside any lock (not a client request)"]


def units(ctx):
    from vf import facts
    us = [u for u in contract_units("C10", MODULES, ctx)]
    us += facts.units(["lock"], ctx)
    return us
