"""C18 - policies in force follow the policy files; built-in policies are untouchable."""
from vf.driver import contract_units

LEVEL = "other"
MODULES = ["contracts.c_monitor"]
EXPLANATION = ("Contracts on the real monitor and parser: the two cache-stack helpers have exact postconditions "
               "(disassociate drops exactly the entries of the file, order kept; restore_or_delete brings back the "
               "most recently shadowed definition and its file, or removes the name from store, map and cache); "
               "parse_policy / read_policy_from_file raise nothing but ValueError and reject a document as a whole "
               "at the first unknown object type, operation, permission or section; scan_policies keeps a "
               "representation invariant of the three name-keyed dictionaries (key sets as z3 sets) through every "
               "loop, from which 'the built-in policies are never written or removed' and 'a refused file changes "
               "no policy' follow for every history; it raises nothing.  The ordering clause of the property (each "
               "name maps to the most recently loaded file that still defines it, across several files and scans) "
               "is decided only by the bounded stand-in: the REAL scan_policies driven through every sequence of "
               "directory events up to a stated depth and compared with an abstract specification.")
ASSUMPTIONS = ["bounded history check: only the three file-system touch points (directory listing, mtime, open) are "
               "replaced by an in-memory directory; mtimes strictly increase with every change; one directory "
               "event between two scans",
               "a file named by the directory listing can be stat-ed, opened and read during the same scan",
               "json.loads returns one of the seven JSON types or raises",
               "entries of one cache stack carry pairwise different times (the clock advances between scans)",
               "set iteration order is not modelled (unspecified in Python); times compared as mathematical numbers"]


def units(ctx):
    from vf import bounded
    us = contract_units("C18", MODULES, ctx)
    us += bounded.units(["policy_monitor"], ctx)
    return us
