"""C18 - policies in force follow the policy files; built-in policies are untouchable."""
LEVEL = "other"
EXPLANATION = ("History-level property over nested mutable dictionaries and the file system: no inductive "
               "invariant was brought through the solvers.  What is decided: the REAL scan_policies / "
               "read_policy_from_file / parse_policy are driven through every sequence of directory events "
               "(write one of several contents, break in several ways, remove; a scan after each) up to a "
               "stated depth and compared after every scan with an abstract specification written from the "
               "property text.  This is a bounded stand-in, labelled bounded, not a proof.")
ASSUMPTIONS = ["only the three file-system touch points (directory listing, mtime, open) are replaced by an "
               "in-memory directory; mtimes strictly increase with every change",
               "one directory event between two scans"]


def units(ctx):
    from vf import bounded
    return bounded.units(["policy_monitor"], ctx)
