"""C12 - the session answers any bytes safely, once, and keeps going."""
from vf.driver import contract_units

LEVEL = "proof"
MODULES = ["contracts.c_utils", "contracts.c_primitives", "contracts.c_session", "contracts.c_auth"]
EXPLANATION = ("Framing (_receive_bytes/_receive_request) is proved for every chunking of the byte "
               "stream by a loop invariant over a ghost model of the socket; the message loop is "
               "proved against trace predicates (exactly one response, engine entered only after a "
               "successful decode and authentication).")


def units(ctx):
    return contract_units("C12", MODULES, ctx)
