"""C07 - unique identifiers are never reused; a destroyed identifier stays dead."""
from vf.driver import contract_units

LEVEL = "other"
MODULES = ["contracts.c_access", "contracts.c_engine", "contracts.c_request", "contracts.c_response_ctors"]
EXPLANATION = ("Decided here, GIVEN that SQLite AUTOINCREMENT row ids are strictly increasing across deletes "
               "and restarts: identifiers are the AUTOINCREMENT integer primary key of the base table "
               "(structural facts), no engine function assigns unique_identifier (frame scan), each creating "
               "handler under contract reports - and leaves in the ID placeholder - the identifier assigned "
               "by the commit of the object it just added, Destroy deletes exactly the base row and commits, "
               "and every lookup of a missing row fails as not found through the single choke point.")
ASSUMPTIONS = ["SQLite AUTOINCREMENT: row ids are strictly increasing across deletes and restarts (not verified)",
               "orphan rows left in per-class tables by the bulk delete are unobservable through the engine"]


def units(ctx):
    from vf import facts
    us = contract_units("C07", MODULES, ctx)
    us += facts.units(["autoincrement", "state_frame"], ctx)
    return us
