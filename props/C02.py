"""C02 - everything emitted is spec-conformant TTLV; responses follow the envelope."""
from vf.driver import contract_units

LEVEL = "proof"
MODULES = ["contracts.c_utils", "contracts.c_primitives", "contracts.c_access", "contracts.c_engine",
           "contracts.c_request"]
EXPLANATION = ("Primitive writers are proved byte-identical to the KMIP 9.1 encoding written from the "
               "specification (spec_ttlv: 3-byte tag, type byte, 4-byte big-endian length, two's-complement "
               "big-endian value, zero padding to 8); every structure class is run parametrically "
               "(ttlvsym) and its output parsed by an independent TTLV item parser (structure length = "
               "size of children); the envelope contracts on _build_response, build_error_response, "
               "_process_batch and process_request are proved on every path.")


def units(ctx):
    us = contract_units("C02", MODULES, ctx)
    from vf import ttlvunits, bounded, facts
    if facts.mutable_defaults_present():
        # the native parametric runs below share state through such a default (and may not end):
        # the fact unit reports the violation, the native units are not built
        return us + facts.units(["wrappers_truthy", "no_mutable_defaults"], ctx)
    us += ttlvunits.make_units(ctx, "C02")
    us += bounded.units(["biginteger", "bit_length"], ctx)
    from vf import facts
    us += facts.units(["wrappers_truthy", "no_mutable_defaults"], ctx)
    return us
