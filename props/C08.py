"""C08 - batch results are complete and failed items leave no trace."""
from vf.driver import contract_units

LEVEL = "proof"
MODULES = ["contracts.c_access", "contracts.c_engine", "contracts.c_request"]
EXPLANATION = ("The batch loop is proved with trace predicates over an arbitrary iteration (one result "
               "per item echoing operation and id, stop on first failure, no exception once an item was "
               "executed); each handler under contract is proved to have no store effect before it "
               "raises and to commit once after its last effect.")


def units(ctx):
    return contract_units("C08", MODULES, ctx)
