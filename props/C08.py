"""C08 - batch results are complete and failed items leave no trace."""
from vf.driver import contract_units

LEVEL = "proof"
MODULES = ["contracts.c_access", "contracts.c_engine", "contracts.c_request", "contracts.c_attributes", "contracts.c_template"]
EXPLANATION = ("The batch loop is proved with trace predicates over an arbitrary iteration (one result "
               "per item echoing operation and id, stop on first failure, no exception once an item was "
               "executed); each handler under contract is proved to have no store effect before it "
               "raises and to commit once after its last effect.")


# the attribute handlers are proved for every protocol version x stored class under C15; here the
# quick tier re-proves them on two slices (KMIP 1.4 and 2.0, first stored class), the thorough tier on all
QUICK_SLICES = {'protocol-version': [4, 5], 'managed-class': [0]}


def units(ctx):
    return contract_units("C08", MODULES, ctx, slices=QUICK_SLICES if ctx["tier"] == "quick" else None)
