#!/bin/sh
# tools/try_seed_wt.sh <worktree with the change applied> <dir with patch.diff demo.py> <property> [more properties...]
# Verifies the seeded change on the scratch worktree (never on /repo): demo fails with the change,
# passes without it; then runs the named checks with --repo <worktree>.
WT="$1"; D="$2"; shift 2
cd "$WT" || exit 3
git diff --quiet && git apply "$D/patch.diff"
(cd "$WT" && PYTHONPATH="$WT" timeout 600 /venv/bin/python "$D/demo.py" >/dev/null 2>&1); echo "demo with change: exit $? (expect non-zero)"
git apply -R "$D/patch.diff" || exit 3
(cd "$WT" && PYTHONPATH="$WT" timeout 600 /venv/bin/python "$D/demo.py" >/dev/null 2>&1); echo "demo without change: exit $? (expect 0)"
git apply "$D/patch.diff" || exit 3
for P in "$@"; do
  (cd /verif && timeout 3000 ./check "$P" --repo "$WT" 2>&1 | grep -v conda | grep "VIOLATION\|SUMMARY\|UNDECIDED\|ERROR" | sed 's/replay=[^ ]* //' | cut -c1-260 | head -8)
done
