#!/bin/sh
# tools/try_seed.sh <seed dir with patch.diff, demo.py> <property> [check args]
# Applies the seeded change to /repo, runs the demo (must fail) and the check (should report a
# violation), then restores /repo and runs the demo again (must pass).
D="$1"; P="$2"; shift 2
cd /repo || exit 3
git diff --quiet || { echo "repo dirty"; exit 3; }
git apply --check "$D/patch.diff" || { echo "patch does not apply"; exit 3; }
git apply "$D/patch.diff"
PYTHONPATH=/repo /venv/bin/python "$D/demo.py" >/dev/null 2>&1; echo "demo with change: exit $? (expect non-zero)"
(cd /verif && timeout 1500 ./check "$P" "$@" 2>&1 | grep -v conda | grep "VIOLATION\|SUMMARY\|UNDECIDED" | sed 's/replay=[^ ]* //' | cut -c1-230 | head -8)
git checkout -- . 
PYTHONPATH=/repo /venv/bin/python "$D/demo.py" >/dev/null 2>&1; echo "demo without change: exit $? (expect 0)"
