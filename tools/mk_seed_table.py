"""Rewrites the seeded-changes table of DESIGN.md (between the table header and the paragraph
after it) from seeded/*/meta.json."""
import json, os, re
root = os.path.dirname(os.path.dirname(os.path.abspath(__file__)))
rows = []
for d in sorted(os.listdir(os.path.join(root, 'seeded'))):
    m = json.load(open(os.path.join(root, 'seeded', d, 'meta.json')))
    cl = lambda s, n: (s or '').replace('|', '/').replace('\n', ' ')[:n]
    rows.append("| %s | %s | %s | %s |" % (d, cl(m.get('breaks'), 170), cl(m.get('needs'), 120), cl(m.get('caught_by'), 330)))
p = os.path.join(root, 'DESIGN.md')
s = open(p).read()
head = "| seed | change | needs | caught by |\n|---|---|---|---|\n"
i = s.index(head) + len(head)
j = s.index("\n\n", i)
s = s[:i] + "\n".join(rows) + s[j:]
s = re.sub(r"All \d+ are caught after the strengthening", "All %d are caught after the strengthening" % len(rows), s)
open(p, 'w').write(s)
print(len(rows), "rows")
