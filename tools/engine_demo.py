"""Helper for native demos: real KmipEngine on a temp SQLite file."""
import os, shutil, tempfile, warnings
warnings.filterwarnings('ignore')
import unittest.mock as m
from kmip.services.server import engine as E
from kmip.core import enums, attributes, objects as cobjects, primitives
from kmip.core.messages import contents, payloads
from kmip.pie import objects as pie


class Demo(object):
    def __init__(self, version=(1, 4), user='alice'):
        self.d = tempfile.mkdtemp()
        self.e = E.KmipEngine(database_path=os.path.join(self.d, 'db'))
        self.e._logger = m.MagicMock()
        self.e._is_allowed_by_operation_policy = m.Mock(return_value=True)
        self.e._data_session = self.e._data_store_session_factory()
        self.e._client_identity = [user, None]
        self.version(*version)

    def version(self, a, b):
        self.e._set_protocol_version(contents.ProtocolVersion(a, b))

    def add(self, obj, owner='alice'):
        obj._owner = owner
        self.e._data_session.add(obj)
        self.e._data_session.commit()
        return str(obj.unique_identifier)

    def key(self, names=('n1',)):
        k = pie.SymmetricKey(enums.CryptographicAlgorithm.AES, 128, bytes(16), name=names[0])
        for n in names[1:]:
            k.names.append(n)
        return k

    def close(self):
        shutil.rmtree(self.d, ignore_errors=True)


def name(text):
    return attributes.Name(attributes.Name.NameValue(text),
                           attributes.Name.NameType(enums.NameType.UNINTERPRETED_TEXT_STRING))
