#!/bin/sh
# tools/with_edit.sh <repo-relative file> <python-expr old> <python-expr new> -- <check args...>
# Copies /repo/kmip to a scratch dir, replaces the first occurrence of OLD by NEW in FILE there,
# runs ./check --repo scratch, removes the scratch dir.
set -e
F="$1"; OLD="$2"; NEW="$3"; shift 3; [ "$1" = "--" ] && shift
S=$(mktemp -d /var/tmp/verif-scratch.XXXXXX)
trap 'rm -rf "$S"' EXIT
mkdir -p "$S/repo" && (cd /repo && tar cf - --exclude=.git --exclude='*.pyc' --exclude=__pycache__ kmip) | (cd "$S/repo" && tar xf -)
python3 - "$S/repo/$F" "$OLD" "$NEW" <<'PY'
import sys
p, old, new = sys.argv[1:4]
s = open(p).read()
assert old in s, "pattern not found: %r" % old
open(p, 'w').write(s.replace(old, new, 1))
PY
cd "$(dirname "$0")/.." && ./check "$@" --repo "$S/repo"
