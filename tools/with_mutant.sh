#!/bin/sh
# tools/with_mutant.sh <patch-file|sed-expr-file> -- <check args...>
# Copies /repo's working tree to a scratch directory, applies the patch there and
# runs ./check against the copy (--repo).  The scratch copy is removed afterwards.
set -e
PATCH="$1"; shift; [ "$1" = "--" ] && shift
S=$(mktemp -d /var/tmp/verif-scratch.XXXXXX)
trap 'rm -rf "$S"' EXIT
mkdir -p "$S/repo" && (cd /repo && tar cf - --exclude=.git --exclude='*.pyc' --exclude=__pycache__ kmip) | (cd "$S/repo" && tar xf -)
(cd "$S/repo" && patch -s -p1 < "$PATCH")
cd "$(dirname "$0")/.." && ./check "$@" --repo "$S/repo"
