"""Trace predicates shared by the request-handler contracts (engine-handler pass)."""
import z3

WRITE_EVENTS = ('db.add', 'db.delete', 'db.delete.obj', 'db.mutate')


def _is_effect(e):
    if e[0] == 'db.mutate':
        return bool(e[5])          # mutation of an *attached* (stored) object
    return e[0] in ('db.add', 'db.delete', 'db.delete.obj')


def t_no_effect_before_raise(ev, outcome, exc):
    """C08: an operation that reports failure leaves the store exactly as it was."""
    if outcome != 'raise':
        return True
    for e in ev:
        if _is_effect(e) or e[0] == 'db.commit':
            return "the handler fails with %s after a store effect (%s)" % (exc.cls.__name__, e[0])
    return True


def t_single_transaction(ev, outcome, exc):
    """C09: all effects of one operation lie before one commit; none after it."""
    if any(e[0] == 'db.savepoint' for e in ev):
        return ("the operation opens a nested transaction / savepoint: its release is a transaction boundary of "
                "its own, so the effects of the operation are no longer covered by one commit")
    if outcome != 'return':
        return True
    idx_eff = [i for i, e in enumerate(ev) if _is_effect(e)]
    idx_com = [i for i, e in enumerate(ev) if e[0] == 'db.commit']
    if not idx_eff:
        return True
    if not idx_com:
        return "store effects without a commit"
    if idx_com[-1] < idx_eff[-1]:
        return "a store effect after the last commit (would be lost or committed by a later operation)"
    between = [i for i in idx_com if idx_eff[0] < i < idx_eff[-1]]
    if between:
        return "a commit between two effects of one operation (a crash there leaves a partial result)"
    return True


def make_access_predicate(operations):
    """C03 call sites: every stored object is loaded through the access-controlled lookup, and
    the operation constants used are the handler's own."""
    allowed = set(operations)

    def pred(ev, outcome, exc):
        dbev = [e for e in ev if e[0].startswith('db.') and e[0] not in ('db.load',)]
        for i, e in enumerate(dbev):
            if e[0] == 'db.query':
                nxt = dbev[i + 1] if i + 1 < len(dbev) else None
                if nxt is not None and nxt[0] == 'db.delete':
                    continue       # query(...).filter(...).delete(): a write, checked by the effect predicates
                return "the handler queries the store directly instead of through the access-controlled lookup"
        for e in ev:
            if e[0] == 'access':
                if getattr(e[1], 'name', str(e[1])) not in allowed:
                    return "object loaded under operation %s, handler may use %s" % (e[1], sorted(allowed))
        return True
    return pred


def make_state_predicate(allowed_steps):
    """C04: every change of a stored object's lifecycle state is one of allowed_steps
    (a set of (old, new) State names, old may be '*')."""
    def pred(ev, outcome, exc, path):
        from kmip.core import enums
        for e in ev:
            if e[0] != 'db.mutate' or e[2] != 'state':
                continue
            old, new = e[3], e[4]
            new_name = getattr(new, 'name', None)
            if new_name is None:
                return "state set to a non-constant value"
            ok = []
            for (o, n) in allowed_steps:
                if n != new_name:
                    continue
                if o == '*':
                    ok.append(z3.BoolVal(True))
                elif hasattr(old, 't'):
                    ok.append(old.t == getattr(enums.State, o).value)
                elif getattr(old, 'name', None) == o:
                    ok.append(z3.BoolVal(True))
            if not ok or not path.is_valid(z3.Or(*ok) if len(ok) > 1 else ok[0]):
                return "lifecycle step into %s from a state the property does not allow" % new_name
        return True
    return pred


def make_crypto_gate(method_kinds):
    """C04: every call of a cryptographic primitive with a stored object's value as key is
    dominated by: state == ACTIVE, the usage-mask bit, and (where given) the object kind.
    method_kinds: {crypto method: (mask name, ObjectType name | None, key argument position/name)}"""
    def pred(ev, outcome, exc, path):
        from kmip.core import enums
        loaded = [e[3] for e in ev if e[0] == 'db.load']
        for e in ev:
            if e[0] != 'crypto':
                continue
            name, args, kw = e[1], e[2], e[3]
            if name not in method_kinds:
                continue
            mask, kind, keypos = method_kinds[name]
            key = kw.get(keypos) if isinstance(keypos, str) else (args[keypos] if len(args) > keypos else None)
            owners = [mo for mo in loaded if mo.fields.get('value') is key]
            if not owners:
                return "%s() is called with a key that is not the value of an object loaded under access control" % name
            mo = owners[0]
            st = mo.fields.get('state')
            if st is None:
                return "%s() uses an object whose state was never examined" % name
            if hasattr(st, 't'):
                if not path.is_valid(st.t == enums.State.ACTIVE.value):
                    return "%s() may run on a key that is not Active" % name
            elif st is not enums.State.ACTIVE:
                return "%s() runs on a key in state %s" % (name, st)
            masks = mo.fields.get('cryptographic_usage_masks')
            bit = getattr(enums.CryptographicUsageMask, mask)
            ent = getattr(masks, 'memo', {}).get(('c', bit))
            if ent is None or not path.is_valid(z3.Not(ent.isnone)):
                return "%s() may run although the %s bit is not in the usage mask" % (name, mask)
            if kind is not None and mo.fields.get('_object_type') is not getattr(enums.ObjectType, kind):
                return "%s() runs on a %s, the property requires a %s" % (name, mo.fields.get('_object_type'), kind)
        return True
    return pred
