"""C18 - the policy directory monitor (kmip/services/server/monitor.py) and the strict policy
parser (kmip/core/policy.py) under contract.

The monitor's state is five collections: policy_store (name -> policy in force), policy_map
(name -> file that owns the definition in force), policy_cache (name -> stack of shadowed
definitions (time, file, policy)), file_timestamps and policy_files.  The property's clauses are
carried by the two stack helpers (exact postconditions), by the parser (raises ValueError or
returns a table of enumeration values), and by a representation invariant of the three name-keyed
dictionaries that every scan preserves: no reserved name is a key of policy_map or policy_cache -
from which "the built-in policies are never replaced or removed" follows for every history."""
from vf.contracts import contract

M = "kmip.services.server.monitor.PolicyDirectoryMonitor."
ENTRY = ('tuple', 'nat', 'str', 'opaque')        # (time shadowed, file, policy)


def _distinct_times(I, stack):
    import z3
    from vf.sym import int_term
    ts = [int_term(e[0]) for e in stack]
    return z3.Distinct(*ts) if len(ts) > 1 else True


# ASSUMED type invariant of a stack (not proved of the code that appends): time.time() is read once
# per shadowing and scans are at least a second apart, so the entries of one stack differ in their
# time.  disassociate_policy_and_file relies on it: it finds entries by value (list.index), and
# two equal entries with another file's entry between them would make it drop the wrong one.
STACK = ('where', ('list', ENTRY, (0, 1, 2, 3)), _distinct_times)


def MONITOR(cache=('sdict', STACK, 'str'), **extra):
    f = {'policy_cache': cache, 'policy_store': ('sdict', 'opaque', 'str'), 'policy_map': ('sdict', 'str', 'str'),
         'file_timestamps': ('sdict', 'nat', 'str'), 'policy_files': ('slist', 'str'),
         'reserved_policies': ('const', ['default', 'public']), 'logger': 'logger', 'policy_directory': 'str'}
    f.update(extra)
    return ('obj', 'kmip.services.server.monitor.PolicyDirectoryMonitor', f)


def _no_dictionary_written(ev, outcome, exc):
    w = [e for e in ev if e[0] in ('dict.set', 'dict.pop', 'dict.del', 'dict.update')]
    return True if not w else "writes %s[%r]" % (w[0][2], w[0][3])


# ---------------------------------------------------------------- disassociate_policy_and_file
c = contract(M + "disassociate_policy_and_file").props('C18')
c.args(self=MONITOR(), policy='str', file_name='str')
c.raises(None)
c.ensures("same_items(self.policy_cache.get(policy, []), [e for e in old(self.policy_cache.get(policy, [])) "
          "if e[1] != file_name])", name="exactly-the-entries-of-the-file-are-dropped-order-kept", assume=False)
c.trace("no-dictionary-written", _no_dictionary_written)
# for callers: the stack changes inside the cache, whose key set stays what it was
c.ensures("keys_of(self.policy_cache) == old(keys_of(self.policy_cache))", name="no-name-gained-or-lost")
c.modifies("self.policy_cache")
c.bounded_note = "stacks of 0..3 shadowed definitions (symbolic times, files, policies)"


# ---------------------------------------------------------------- restore_or_delete_policy
def _only_this_policy_written(ev, outcome, exc, path, I):
    pol = I.ghost_globals['__policy__']
    for e in ev:
        if e[0] in ('dict.set', 'dict.pop', 'dict.del', 'dict.update', 'dict.clear', 'dict.setdefault'):
            if e[3] is not pol:
                return "%s is written at a key other than the policy name given" % (e[2],)
    return True


c = contract(M + "restore_or_delete_policy").props('C18')
c.args(self=MONITOR(), policy='str')
c.let('__policy__', 'policy')
c.raises(None)
c.ensures("len(old(self.policy_cache.get(policy, []))) != 0 or (policy not in self.policy_store and "
          "policy not in self.policy_map and policy not in self.policy_cache)",
          name="a-name-nothing-shadows-is-gone-from-store-map-and-cache", assume=False)
c.ensures("len(old(self.policy_cache.get(policy, []))) == 0 or ("
          "self.policy_store[policy] is old(self.policy_cache.get(policy, []))[-1][2] and "
          "self.policy_map[policy] == old(self.policy_cache.get(policy, []))[-1][1] and "
          "same_items(self.policy_cache[policy], old(self.policy_cache.get(policy, []))[:-1]))",
          name="the-most-recently-shadowed-definition-and-its-file-come-back", assume=False)
c.trace("only-the-named-policy-is-touched", _only_this_policy_written)
# the same two cases read as key sets (what scan_policies needs to keep its invariant)
c.ensures("disj(conj(keys_of(self.policy_store) == old(keys_of(self.policy_store)) - {policy}, "
          " keys_of(self.policy_map) == old(keys_of(self.policy_map)) - {policy}, "
          " keys_of(self.policy_cache) == old(keys_of(self.policy_cache)) - {policy}), "
          "conj(policy in old(keys_of(self.policy_cache)), "
          " keys_of(self.policy_store) == old(keys_of(self.policy_store)) | {policy}, "
          " keys_of(self.policy_map) == old(keys_of(self.policy_map)) | {policy}, "
          " keys_of(self.policy_cache) == old(keys_of(self.policy_cache))))",
          name="the-name-leaves-all-three-dictionaries-or-stays-in-all-three")
# the built-in policies are not files' to restore or delete: every call site has to show this
c.requires("policy not in self.reserved_policies", name="never-asked-for-a-built-in-policy")
c.modifies("self.policy_store", "self.policy_map", "self.policy_cache")
c.bounded_note = "stacks of 0..3 shadowed definitions (symbolic times, files, policies)"


# ---------------------------------------------------------------- the strict parser
P = "kmip.core.policy."
# a JSON value that is not an object: one representative per JSON type (only isinstance is asked)
NOT_AN_OBJECT = ('oneof', 'int', 'str', 'bool', ('const', None), ('const', 1.5), ('list', 'opaque', (0, 1)))
PERMISSIONS = ('oneof', ('sdict', ('oneof', 'str') + NOT_AN_OBJECT[1:], 'str'),) + NOT_AN_OBJECT[1:]
OBJECT_POLICY = ('oneof', ('sdict', PERMISSIONS, 'str')) + NOT_AN_OBJECT[1:]


def _rejected_as_a_whole(ev, outcome, exc):
    # a name that is not a member of its enumeration ends the parse with ValueError, at once
    for i, e in enumerate(ev):
        if e[0] == 'enum.lookup' and not e[3]:
            if not (outcome == 'raise' and exc is not None and exc.cls is ValueError):
                return "an unknown %s name is skipped instead of rejecting the policy" % e[1].__name__
            if any(x[0] in ('dict.set', 'enum.lookup') for x in ev[i + 1:]):
                return "parsing goes on after an unknown %s name" % e[1].__name__
    return True


def _only_enumeration_members_stored(ev, outcome, exc, path, I):
    from kmip.core import enums
    from vf.sym import SEnum
    for e in ev:
        if e[0] == 'dict.set':
            k = e[3]
            if not (isinstance(k, SEnum) or isinstance(k, enums.enum.Enum)):
                return "the parsed table gets a key that is not an enumeration member (%r)" % (k,)
    return True


c = contract(P + "parse_policy").props('C18')
c.args(policy=OBJECT_POLICY)
c.loop(0, "True")
c.loop(1, "True")
c.raises('ValueError')
c.trace("an-unknown-name-rejects-the-whole-policy", _rejected_as_a_whole)
c.trace("only-enumeration-members-are-stored", _only_enumeration_members_stored)


# ---------------------------------------------------------------- the reserved names
def _reserved_never_written(ev, outcome, exc, path, I):
    """No write to, or removal from, the policy store at a key that may be 'default' or 'public'."""
    from vf.sym import seq_of
    import z3
    for e in ev:
        if e[0] in ('dict.update', 'dict.clear', 'dict.setdefault') and e[2].endswith('policy_store'):
            return "the policy store is changed in bulk"
        if e[0] in ('dict.set', 'dict.pop', 'dict.del') and e[2].endswith('policy_store'):
            k = e[3]
            if isinstance(k, str):
                if k in ('default', 'public'):
                    return "the built-in policy %r is written or removed" % k
                continue
            try:
                kz = seq_of(k).to_z3()
            except Exception:
                return "the policy store is written at a key of unknown kind"
            for r in ('default', 'public'):
                if not path.is_valid(kz != seq_of(r).to_z3()):
                    return "the policy store is written or popped at a name that may be the built-in policy %r" % r
    return True


c = contract(M + "initialize_tracking_structures").props('C18')
c.args(self=MONITOR())
c.loop(0, "True", modifies=["self.policy_store"])
c.raises(None)
c.trace("built-in-policies-are-never-replaced-or-removed", _reserved_never_written)
c.ensures("len(self.file_timestamps) == 0 and len(self.policy_cache) == 0 and len(self.policy_files) == 0 "
          "and len(self.policy_map) == 0", name="tracking-starts-empty")
c.modifies("self.file_timestamps", "self.policy_cache", "self.policy_files", "self.policy_map", "self.policy_store")


# ---------------------------------------------------------------- read_policy_from_file
def _rejection_is_not_swallowed(ev, outcome, exc):
    # once parse_policy (used by its contract) has refused an entry, nothing is returned: the file
    # is rejected as a whole
    if any(e[0] == 'raise' for e in ev):
        if not (outcome == 'raise' and exc is not None and exc.cls is ValueError):
            return "an entry refused by parse_policy is skipped and the rest of the file is loaded"
    return True


POLICY_DOCUMENT = ('oneof', ('sdict', OBJECT_POLICY, 'str')) + NOT_AN_OBJECT[1:]
c = contract(P + "read_policy_from_file").props('C18')
c.args(path='str')
# assumed: a file the directory listing named can be opened and read; json.loads returns a JSON
# value (any of the seven JSON types, objects nested to the depth the parser looks at) or raises
c.externals(_io__open=(('opaque_facts', 'file', ['noraise']), False), json__loads=(POLICY_DOCUMENT, True))
c.allow_external()
c.loop(0, "True")
c.loop(1, "True")
c.raises('ValueError')
c.trace("a-rejected-entry-rejects-the-whole-file", _rejection_is_not_swallowed)
c.returns(('sdict', 'opaque', 'str'))      # name -> parsed policy (callers only use the names and hand the values on)


# ---------------------------------------------------------------- scan_policies
# Representation invariant of the three name-keyed dictionaries, preserved by every scan (and by
# every iteration of every loop of the scan): the names tracked in policy_map and policy_cache are
# the same, and they are exactly the names in force other than the two built-in ones.  In
# particular no built-in name is ever a key of policy_map / policy_cache, so neither helper is
# ever asked to restore or delete one.
INV = ("conj(keys_of(self.policy_map) == keys_of(self.policy_cache), "
       "keys_of(self.policy_store) - {'default', 'public'} == keys_of(self.policy_map))")
DICTS = ["self.policy_store", "self.policy_map", "self.policy_cache", "self.file_timestamps"]

def _listing_looks_at_names_only(ev, outcome, exc):
    """Which files are policy files is decided by their names alone: a file that is listed stays
    listed whatever it contains (an emptied or broken file must be *refused*, not treated as removed -
    that would delete the policies it defined).  So the listing touches the file system only through
    os.listdir."""
    for e in ev:
        if e[0] == 'external' and not e[1].endswith(('listdir', 'join')):
            return "the directory listing consults %s: whether a file is listed depends on more than its name" % e[1]
    return True


c = contract("kmip.services.server.monitor.get_json_files").props('C18')
c.args(p='str')
c.externals(posix__listdir=(('slist', 'str'), False), posixpath__join=('str', False))
c.allow_external()
c.returns(('slist', 'str'))
c.raises(None)
c.trace("listed-by-name-only", _listing_looks_at_names_only)
c.notes.append("assumed: os.listdir returns the names in the directory and does not raise (the directory exists)")

def _failed_load_changes_nothing(ev, outcome, exc):
    """An iteration of the file loop in which read_policy_from_file refused the file writes no
    dictionary other than the file's time stamp."""
    if outcome != 'iteration':
        return True
    refused = False
    for e in ev:
        if e[0] == 'raise' and e[1] == 'ValueError':
            refused = True
        if refused and e[0] in ('dict.set', 'dict.pop', 'dict.del', 'dict.update', 'dict.clear'):
            return "after a policy file is refused, %s is still changed" % e[2]
    if refused:
        w = [e for e in ev if e[0] in ('dict.set', 'dict.pop', 'dict.del', 'dict.update', 'dict.clear')
             and not e[2].endswith('file_timestamps')]
        if w:
            return "a refused policy file changes %s" % w[0][2]
    return True


def _nothing_shadowed_is_dropped_by_a_load(ev, outcome, exc, path):
    """Loading a file never replaces the stack of shadowed definitions of a name that has one: a
    cache entry is only ever created for a name that had none (definitions leave a stack through
    disassociate / restore_or_delete only)."""
    for e in ev:
        if e[0] == 'dict.set' and e[2].endswith('policy_cache'):
            absent = e[5] if len(e) > 5 else None
            if absent is None or not path.is_valid_full(absent):
                return ("the stack of shadowed definitions of a name that may already have one is replaced: "
                        "earlier definitions could never reappear")
    return True


c = contract(M + "scan_policies").props('C18')
c.args(self=MONITOR())
c.requires(INV, name="representation-invariant")
c.externals(genericpath__getmtime=('nat', False))
for k in range(8):
    # the file loop (4) and its inner loops also keep the set of tracked files: the body only
    # rewrites the time stamp of the file at hand
    c.loop(k, [INV, "keys_of(self.file_timestamps) == tracked"] if k >= 4 else INV, modifies=DICTS,
           ghost_init={'tracked': "keys_of(self.file_timestamps)"} if k >= 4 else None)
c.raises(None)
c.ensures(INV, name="representation-invariant-kept")
c.trace("built-in-policies-are-never-replaced-or-removed", _reserved_never_written)
c.trace("a-refused-file-changes-no-policy", _failed_load_changes_nothing)
c.trace("nothing-shadowed-is-dropped-by-a-load", _nothing_shadowed_is_dropped_by_a_load)
c.modifies("self.policy_store", "self.policy_map", "self.policy_cache", "self.file_timestamps", "self.policy_files")
c.notes.append("assumed: the entries of one cache stack carry pairwise different times (clock advances between "
               "scans); stacks hold 0..3 entries when read")
c.notes.append("assumed: a file the listing named still exists when its modification time is read "
               "(os.path.getmtime does not raise); times are compared as mathematical numbers")
c.max_paths = 100000
# explored in parallel: which loops are in their arbitrary iteration (0) or past their end (1)
_A, _B = {'loop0': 1, 'loop1': 1}, {'loop0': 1, 'loop1': 1, 'loop4': 0}
c.split_units = [{'loop0': 0}, {'loop0': 1, 'loop1': 0, 'loop2': 0}, {'loop0': 1, 'loop1': 0, 'loop2': 1},
                 dict(_B, loop5=0), dict(_B, loop5=1, loop6=0), dict(_B, loop5=1, loop6=1, loop7=0),
                 dict(_B, loop5=1, loop6=1, loop7=1), dict(_A, loop4=1)]
