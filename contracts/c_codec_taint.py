"""C20, decoder side: the validity checks of the key-carrying structures raise TypeError texts
that name the offending field.  Whatever they format must not be key material: proved with the
key material fields as taint sources (`secret`) for both shapes a decoded key value can have
(byte-string key material; structured key material held as raw bytes)."""
from vf.contracts import contract

SECRET = ('tainted_bytes', 'secret')
STREAM = ('obj', 'kmip.core.utils.BytearrayStream', {'buffer': SECRET})
MATERIAL = ('oneof',
            ('obj', 'kmip.core.objects.KeyMaterial', {'value': SECRET}),
            ('obj', 'kmip.core.objects.KeyMaterialStruct', {'data': STREAM}),
            'none')
c = contract("kmip.core.objects.KeyValue.validate").props('C20')
c.args(self=('obj', 'kmip.core.objects.KeyValue',
             {'key_material': MATERIAL, 'attributes': ('oneof', ('const', 'EMPTYLIST'), 'none')}))
c.raises('TypeError')
c.modifies()

from contracts.c_factory import _native_secret_in_text      # noqa: E402
c.native_check(_native_secret_in_text)
