"""C20, decoder side: the validity checks of the key-carrying structures raise TypeError texts
that name the offending field.  Whatever they format must not be key material: proved with the
key material fields as taint sources (`secret`) for both shapes a decoded key value can have
(byte-string key material; structured key material held as raw bytes)."""
from vf.contracts import contract

SECRET = ('tainted_bytes', 'secret')
STREAM = ('obj', 'kmip.core.utils.BytearrayStream', {'buffer': SECRET})
MATERIAL = ('oneof',
            ('obj', 'kmip.core.objects.KeyMaterial', {'value': SECRET}),
            ('obj', 'kmip.core.objects.KeyMaterialStruct', {'data': STREAM}),
            'none')
c = contract("kmip.core.objects.KeyValue.validate").props('C20')
c.args(self=('obj', 'kmip.core.objects.KeyValue',
             {'key_material': MATERIAL, 'attributes': ('oneof', ('const', 'EMPTYLIST'), 'none')}))
c.raises('TypeError')
c.modifies()

from contracts.c_factory import _native_secret_in_text      # noqa: E402
c.native_check(_native_secret_in_text)


# Left-over bytes of a structure (a value placed after an item the decoder does not expect) are
# request data - possibly a password or derivation secret: the error raised for them, which the
# session logs at ERROR, must not quote them.
from contracts.c_taint import t_no_secret_in_logs_or_errors      # noqa: E402

WIRE_STREAM = ('obj', 'kmip.core.utils.BytearrayStream', {'buffer': ('tainted_bytes', 'wire')})
c = contract("kmip.core.primitives.Base.is_oversized", variant="taint").props('C20')
c.args(self=('obj', 'kmip.core.primitives.Base', {}), stream=WIRE_STREAM)
c.raises('exceptions.StreamNotEmptyError')
c.trace("no-secret-in-logs-or-error-text", t_no_secret_in_logs_or_errors)
