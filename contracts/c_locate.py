"""C14 - Locate returns exactly the permitted, matching objects, newest first, and offset /
maximum items select a slice of that same ordered list.

The handler is proved for an arbitrary number of stored objects and an arbitrary number of filter
attributes (both loops by invariant over an arbitrary iteration):
  * outer loop: the object of an arbitrary iteration is appended to the filtered list iff it
    satisfies every filter (spec_locate.matches / date_ok);
  * inner loop: ghost accumulators (all-matched flag, number and values of the date filters)
    tie the handler's bookkeeping (`add_object`, the `initial_date` dictionary) to the folds the
    specification is written with;
  * tail: the identifier list is the list *term*  map(str(uid), slice(sorted(F, by initial date,
    descending), lo, hi))  with F the filtered (or, without filters, the permitted) list and
    lo/hi the page the specification prescribes; list operations on lists of symbolic length are
    kept as terms (vf.pyvc.LTerm) and compared structurally.
The permitted list is the postcondition of _list_objects_with_access_controls (C03)."""
import z3

from vf.contracts import contract, spec_module
from contracts import spec_locate, c_attributes
from contracts.c_engine import ENGINE, KMIP_ERRORS, E
from contracts.handler_common import t_no_effect_before_raise, make_access_predicate

spec_module(spec_locate)

TEXT = ('obj', 'kmip.core.primitives.TextString', {'value': 'str'})


def value_kind(name):
    k = c_attributes.BY_NAME[name]
    if name == 'Name':
        f = dict(k[2])
        f['name_type'] = ('obj', 'kmip.core.attributes.Name.NameType',
                          {'value': ('enum', 'kmip.core.enums.NameType')})
        k = (k[0], k[1], f)
    if name == 'Cryptographic Usage Mask':
        f = dict(k[2])
        f['value'] = 'nat'          # a bit mask (precondition: not negative)
        k = (k[0], k[1], f)
    return k


def attr_kind(name):
    return ('obj', 'kmip.core.objects.Attribute',
            {'attribute_name': ('obj', 'kmip.core.objects.Attribute.AttributeName', {'value': ('const', name)}),
             'attribute_index': 'none', 'attribute_value': value_kind(name)})


FILTER = ('oneof',) + tuple(attr_kind(n) for n in spec_locate.FILTER_NAMES)
NAT = ('lazyopt', ('obj', 'kmip.core.primitives.Integer', {'value': 'nat'}))
PAYLOAD = ('obj', 'kmip.core.messages.payloads.locate.LocateRequestPayload',
           {'_attributes': ('slist', FILTER), '_offset_items': NAT, '_maximum_items': NAT,
            '_storage_status_mask': 'none', '_object_group_member': 'none'})
ASI = ('obj', 'kmip.pie.objects.ApplicationSpecificInformation',
       {'_application_namespace': 'str', '_application_data': 'str'})
OG = ('obj', 'kmip.pie.objects.ObjectGroup', {'_object_group': 'str'})
LIST_QN = E + "_list_objects_with_access_controls"


def _valid(path, t):
    return t is True or (t is not False and not isinstance(t, bool) and path.is_valid(t))


def _spec(I, src, loc):
    return I.truth(I.eval_spec(src, loc, spec_locate.__dict__, None, None))


def _permitted_list_id(ev):
    ids = [e[2] for e in ev if e[0] == 'return' and e[1] == LIST_QN]
    return ids[-1] if ids else None


def t_filter_iteration(ev, outcome, exc, path, I):
    """An arbitrary object of the permitted list is appended to the filtered list iff it matches
    every filter: a filter that fails ends the scan with the object rejected; when every filter was
    scanned (all matched, ghost invariant) the object is kept iff the date filters accept it."""
    if outcome != 'iteration':
        return True
    ends = [e for e in ev if e[0] == 'loop.iteration.end']
    if not ends or ends[-1][1] != 0:
        return True                      # end of an inner iteration: judged by the loop invariant
    outer = [e for e in ev if e[0] == 'loop.item' and e[1] == 0]
    if len(outer) != 1:
        return "no object under examination"
    mo = outer[0][2]
    if outer[0][3] != _permitted_list_id(ev):
        return "the filter loop does not run over the list the access-controlled listing returned"
    appended = [e for e in ev if e[0] == 'list.append']
    if any(e[2] is not mo for e in appended):
        return "an object other than the one under examination is added to the result"
    kept = len(appended) > 0
    if len(appended) > 1:
        return "the object is added twice"
    inner = [e for e in ev if e[0] == 'loop.item' and e[1] == 1]
    payload = I.ghost_globals['__payload__']
    if inner:
        a = inner[-1][2]
        if inner[-1][3] != id(payload.fields['_attributes']):
            return "the inner loop does not run over the request's attribute list"
        if kept:
            return "the scan of the filters was cut short at %r and the object is still returned" % (
                a.fields['attribute_name'].fields['value'],)
        m = _spec(I, "matches(mo, a)", {'mo': mo, 'a': a})
        if not _valid(path, z3.Not(m) if not isinstance(m, bool) else (not m)):
            import os
            if os.environ.get('DBG_LOCATE'):
                print("MATCH", z3.simplify(m) if not isinstance(m, bool) else m)
                print("PC", path.pc[-8:])
                print("EV", [e[:3] for e in ev if e[0] in ('loop.item', 'loop.iteration.end', 'list.append')])
            return "object rejected at filter %r although it matches that filter" % (
                a.fields['attribute_name'].fields['value'],)
        return True
    gh = path.ghost.get('loop_ghosts', {}).get(1)
    if gh is None:
        return "the filter scan did not run to completion and did not reject the object"
    ok = _spec(I, "date_ok(mo.initial_date, nd, d1, d2)",
               {'mo': mo, 'nd': gh['nd'], 'd1': gh['d1'], 'd2': gh['d2']})
    if kept and not _valid(path, ok):
        return "object returned although its initial date is outside the requested date / range"
    if not kept and not _valid(path, z3.Not(ok) if not isinstance(ok, bool) else (not ok)):
        return "object matches every filter and is still left out"
    return True


def t_mask_iteration(ev, outcome, exc, path, I):
    """Usage-mask filter, one arbitrary requested bit: the scan goes on only if the object holds
    that bit (with the rejecting case judged by the object-level predicate this gives
    mask_subset, given that the scanned list holds exactly the bits of the requested mask)."""
    if outcome != 'iteration':
        return True
    ends = [e for e in ev if e[0] == 'loop.iteration.end']
    if not ends or ends[-1][1] != 2:
        return True
    outer = [e for e in ev if e[0] == 'loop.item' and e[1] == 0]
    bit = [e for e in ev if e[0] == 'loop.item' and e[1] == 2]
    mo, m = outer[-1][2], bit[-1][2]
    held = _spec(I, "m in mo.cryptographic_usage_masks", {'mo': mo, 'm': m})
    if not _valid(path, held):
        return "the scan continues past usage-mask bit %s although the object may not hold it" % m.name
    return True


def t_result_is_the_specified_page(ev, outcome, exc, path, I):
    """identifiers == [str(o.uid) for o in sorted(F, newest first)[lo:hi]] with F the filtered list
    (the permitted list when the request has no filter) and lo/hi as the property prescribes."""
    if outcome != 'return':
        return True
    from vf.pyvc import LTerm, SList
    res = I.ghost_globals.get('__result__')
    payload = I.ghost_globals['__payload__']
    t = getattr(res, 'fields', {}).get('_unique_identifiers')
    if not isinstance(t, LTerm) or t.op != 'map':
        return "the identifiers are not computed element-wise from the selected objects"
    if 'sample_in' in t.params:
        x, y = t.params['sample_in'], t.params['sample_out']
        src = getattr(y, 'fields', {}).get('__str_of__')
        uid = x.fields.get('unique_identifier')
        if src is None or uid is None or not src.t.eq(uid.t):
            return "an identifier reported is not str(unique_identifier) of the selected object"
    cur = t.base
    lo_code = hi_code = None
    sliced = False
    if isinstance(cur, LTerm) and cur.op == 'slice':
        sliced = True
        lo_code, hi_code = cur.params['lo'], cur.params['hi']
        cur = cur.base
    if not (isinstance(cur, LTerm) and cur.op == 'sorted'):
        return "the selected page is not taken from a sorted list"
    if cur.params['reverse'] is not True:
        return "the list is not sorted newest first (ascending order)"
    key = cur.params['key']
    probe = cur.base.elem_factory(I, "probe")
    kv = I.call_value(key, [probe], {}) if key is not None else None
    if kv is None or kv is not probe.fields.get('initial_date'):
        return "the list is not sorted by initial date"
    src_list = cur.base
    ran = [e for e in ev if e[0] == 'loop.exit' and e[1] == 0]
    n_attr = payload.fields['_attributes'].length
    if getattr(src_list, 'accumulator', False):
        if not ran:
            return "the result is taken from a list no filter loop filled"
        if ran[-1][2] != _permitted_list_id(ev):
            return "the filter loop did not run over the permitted list"
    elif isinstance(src_list, SList) and id(src_list) == _permitted_list_id(ev):
        if not path.is_valid(n_attr == 0):
            return "the request carries filters but the unfiltered list is returned"
    else:
        return "the result is not derived from the permitted list"
    # the page: lo = offset or 0, hi = lo + maximum (open when no maximum is given)
    off = I.resolve_opt(I.eval_spec("payload.offset_items", {'payload': payload}, {}, None, None))
    mx = I.resolve_opt(I.eval_spec("payload.maximum_items", {'payload': payload}, {}, None, None))
    lo_spec = z3.IntVal(0) if off is None else off.t
    hi_spec = None if mx is None else lo_spec + mx.t
    lo_c = z3.IntVal(0) if lo_code is None else lo_code
    if not path.is_valid(lo_c == lo_spec):
        return "the page does not start at the requested offset"
    if hi_spec is None:
        if hi_code is not None:
            return "the page is cut although no maximum was requested"
    else:
        if hi_code is None or not path.is_valid(hi_code == hi_spec):
            return "the page does not end at offset + maximum items"
    return True


c = contract(E + "_process_locate").props('C14', 'C03', 'C08', 'C13')
c.args(self=ENGINE, payload=PAYLOAD)
c.let('__self__', 'self').let('__payload__', 'payload')
# mandatory columns of a stored row are never NULL (the pie classes validate them at construction; the
# policy name has a column default)
c.columns(cryptographic_algorithm=('enum', 'kmip.core.enums.CryptographicAlgorithm'), cryptographic_length='nat',
          operation_policy_name='str')
c.column_kinds.update(initial_date='pos', names=('list', 'str', (0, 1, 2)), app_specific_info=('list', ASI, (0, 1, 2)),
          object_groups=('list', OG, (0, 1, 2)))
c.raises(KMIP_ERRORS)
c.scope('raises.unexpected', 'C13', 'C14')
c.loop(0, "True", havoc={'managed_objects_filtered': ('accumulator', ('managed',))})
c.loop(1, ["add_object == True", "allm == True",
           "0 <= nd and nd <= 2",
           "initial_date == date_state(managed_object.initial_date, nd, d1, d2)"],
       ghost_init={'allm': 'True', 'nd': '0', 'd1': '0', 'd2': '0'},
       ghost_step={'allm': 'allm and matches_but_mask(managed_object, payload_attribute)',
                   'nd': 'step_nd(nd, payload_attribute)',
                   'd1': 'step_d1(nd, d1, payload_attribute)',
                   'd2': 'step_d2(nd, d2, payload_attribute)'})
c.loop(2, "add_object == True")
c.trace("object-kept-iff-it-matches-every-filter", t_filter_iteration)
c.trace("usage-mask-bits-are-each-required", t_mask_iteration)
c.trace("result-is-the-requested-page-of-the-matches-newest-first", t_result_is_the_specified_page)
c.trace("no-effect-before-raise", t_no_effect_before_raise)
c.trace("access-controlled", make_access_predicate(['LOCATE']))
c.trace("reads-only",
        lambda ev, outcome, exc: True if not any(e[0] in ('db.add', 'db.delete', 'db.commit', 'db.mutate')
                                                  and (e[0] != 'db.mutate' or e[5]) for e in ev)
        else "Locate writes to the store")
c.notes.append("multivalued attributes (names, object groups, application specific information) of a stored "
               "object are lists of 0..2 symbolic instances (bounded); everything else is unbounded")
c.max_paths = 60000
c.split_by = [('managed-class', 7), ('oneof:payload._attributes.m0', len(spec_locate.FILTER_NAMES))]

c = contract("kmip.core.messages.payloads.locate.LocateResponsePayload.__init__").props('C14')
c.args(self='opaque', located_items='none', unique_identifiers='opaque')
c.ensures("self._unique_identifiers == unique_identifiers", name="identifiers-as-given-in-order")
c.modifies("self._unique_identifiers", "self._located_items")
c.trust("response payload constructor: wraps each given identifier string in a TextString, in order "
        "(its codec is covered by C01); abstracted here as holding the given list")


# ---------------------------------------------------------------- native replay (differential against the spec)
def _native_locate_replay(obligation, cex):
    """Runs the real _process_locate on a real engine (temporary SQLite file) over a small but
    varied population of stored objects with the counterexample's filter attributes (alone and
    combined with date filters / pages) and compares the answer with spec_locate evaluated
    natively: filter(permitted) -> newest first -> page."""
    import os
    import shutil
    import tempfile
    import unittest.mock as mock
    from vf import replay as RP, specrt
    from kmip.services.server import engine as EN
    from kmip.core import enums, primitives, objects as cobjects
    from kmip.core.messages import contents, payloads
    from kmip.pie import objects as pie
    for k in ('exists_in', 'conj', 'implies'):
        spec_locate.__dict__.setdefault(k, getattr(specrt, k))
    d = tempfile.mkdtemp(prefix="verif-locate-")
    out = {"tries": 0, "confirmed": False}
    try:
        e = EN.KmipEngine(database_path=os.path.join(d, 'db'))
        e._logger = mock.MagicMock()
        e._is_allowed_by_operation_policy = mock.Mock(return_value=True)
        e._data_session = e._data_store_session_factory()
        e._client_identity = ['replay', None]
        e._set_protocol_version(contents.ProtocolVersion(1, 4))
        M = enums.CryptographicUsageMask
        pop = [pie.SymmetricKey(enums.CryptographicAlgorithm.AES, 128, bytes(16), masks=[M.ENCRYPT, M.DECRYPT], name='a'),
               pie.SymmetricKey(enums.CryptographicAlgorithm.AES, 256, bytes(32), masks=[M.ENCRYPT], name='b'),
               pie.SecretData(bytes(8), enums.SecretDataType.PASSWORD, masks=[M.VERIFY], name='a'),
               pie.OpaqueObject(bytes(4), enums.OpaqueDataType.NONE, name='o'),
               pie.X509Certificate(bytes(12), name='c'),
               pie.SymmetricKey(enums.CryptographicAlgorithm.TRIPLE_DES, 192, bytes(24), name='')]
        pop[0].sensitive = True
        pop[1].state = enums.State.ACTIVE
        pop[1].object_groups.append(pie.ObjectGroup(object_group=''))
        pop[2].app_specific_info.append(pie.ApplicationSpecificInformation(application_namespace='', application_data=''))
        for i, o in enumerate(pop):
            o._owner = 'replay'
            o.initial_date = 1000 + 10 * i
            e._data_session.add(o)
        e._data_session.commit()
        payload = cex.get('payload')
        if not isinstance(payload, payloads.LocateRequestPayload):
            payload = RP.build_native(payload)
        base = list(getattr(payload, '_attributes', None) or [])
        A = cobjects.Attribute

        def date(v):
            return A(attribute_name=A.AttributeName('Initial Date'),
                     attribute_value=primitives.DateTime(v, enums.Tags.INITIAL_DATE))
        extra = [[], [date(1010)], [date(1000), date(1030)], [date(1050), date(1000)]]
        pages = [(getattr(getattr(payload, '_offset_items', None), 'value', None),
                  getattr(getattr(payload, '_maximum_items', None), 'value', None)), (None, None), (1, 2), (0, 1), (2, None)]
        for ex, first in [(x, f) for x in extra for f in (False, True)]:
            for (off, mx) in pages:
                attrs = (ex + base) if first else (base + ex)
                p = payloads.LocateRequestPayload(attributes=attrs, offset_items=off, maximum_items=mx)
                out["tries"] += 1
                try:
                    got = e._process_locate(p).unique_identifiers
                except Exception as exn:
                    got = "raised %s: %s" % (type(exn).__name__, exn)
                stored = e._data_session.query(pie.ManagedObject).all()
                nd = len([a for a in attrs if spec_locate.is_date(a)])
                ds = [a.attribute_value.value for a in attrs if spec_locate.is_date(a)] + [0, 0]
                if nd > 2:
                    continue
                keep = [o for o in stored
                        if all(spec_locate.matches(o, a) for a in attrs)
                        and spec_locate.date_ok(o.initial_date, nd, ds[0], ds[1])]
                keep = sorted(keep, key=lambda o: o.initial_date, reverse=True)
                lo = off or 0
                want = [str(o.unique_identifier) for o in (keep[lo:lo + mx] if mx is not None else keep[lo:])]
                import os
                if os.environ.get("DBG_LOCATE"): print("TRY", [a.attribute_name.value for a in attrs], off, mx, got, want)
                if got != want:
                    out.update(confirmed=True, request={"attributes": [repr(a) for a in attrs], "offset": off,
                                                        "maximum": mx},
                               real_answer=got, specified_answer=want,
                               store=[(str(o.unique_identifier), type(o).__name__, o.initial_date) for o in stored])
                    return out
        return out
    finally:
        shutil.rmtree(d, ignore_errors=True)


contract(E + "_process_locate").native_replay(_native_locate_replay)


# ---------------------------------------------------------------- bounded differential run (stand-in)
def bounded_locate_differential(sess, tier):
    """BOUNDED, not a proof: the real _process_locate on a real engine over the small population of
    the replay harness, for one request per filterable attribute (several values each, usage masks
    of one, two and three bits), each alone and combined with date filters and pages, compared with
    spec_locate.  It stands in when a change moves the handler outside the executor's fragment
    (undecided contracts) and cross-checks the specification functions against real objects."""
    from vf import bounded
    from kmip.core import enums, primitives, attributes as cattr, objects as cobjects
    from kmip.core.factories import attributes as afac
    from kmip.core.messages import payloads
    f = afac.AttributeFactory()
    AT = enums.AttributeType
    M = enums.CryptographicUsageMask
    singles = []
    for nm in ('a', 'b', 'zz', ''):
        singles.append(f.create_attribute(AT.NAME, cattr.Name.create(nm, enums.NameType.UNINTERPRETED_TEXT_STRING)))
    for st in (enums.State.PRE_ACTIVE, enums.State.ACTIVE):
        singles.append(f.create_attribute(AT.STATE, st))
    for ot in (enums.ObjectType.SYMMETRIC_KEY, enums.ObjectType.SECRET_DATA, enums.ObjectType.CERTIFICATE):
        singles.append(f.create_attribute(AT.OBJECT_TYPE, ot))
    for alg in (enums.CryptographicAlgorithm.AES, enums.CryptographicAlgorithm.TRIPLE_DES):
        singles.append(f.create_attribute(AT.CRYPTOGRAPHIC_ALGORITHM, alg))
    for ln in (128, 256, 192, 64):
        singles.append(f.create_attribute(AT.CRYPTOGRAPHIC_LENGTH, ln))
    for masks in ([M.ENCRYPT], [M.DECRYPT], [M.ENCRYPT, M.DECRYPT], [M.ENCRYPT, M.VERIFY], [M.VERIFY],
                  [M.ENCRYPT, M.DECRYPT, M.SIGN]):
        singles.append(f.create_attribute(AT.CRYPTOGRAPHIC_USAGE_MASK, masks))
    singles.append(f.create_attribute(AT.OPERATION_POLICY_NAME, 'default'))
    singles.append(f.create_attribute(AT.OBJECT_GROUP, ''))
    singles.append(f.create_attribute(AT.OBJECT_GROUP, 'g'))
    singles.append(f.create_attribute(AT.SENSITIVE, True))
    singles.append(f.create_attribute(AT.SENSITIVE, False))
    singles.append(f.create_attribute(AT.UNIQUE_IDENTIFIER, '2'))
    fails, n = [], 0
    for a in singles:
        out = _native_locate_replay('bounded', {'payload': payloads.LocateRequestPayload(attributes=[a])})
        n += out.get('tries', 0)
        if out.get('confirmed'):
            fails.append(({k: out[k] for k in ('request', 'real_answer', 'specified_answer', 'store') if k in out},
                          "Locate answered %s, the specification gives %s for %s" % (
                              out.get('real_answer'), out.get('specified_answer'), out.get('request'))))
    bounded._record(sess, "bounded:kmip.services.server.engine.KmipEngine._process_locate/differential-against-the-specification",
                    fails, n, "%d single-attribute filters x 8 date-filter placements x 5 pages over 6 stored objects" % len(singles))
    sess.functions["kmip.services.server.engine.KmipEngine._process_locate#bounded"] = "bounded"
