"""C20, client and server start-up: ConfigHelper.get_valid_value reads every setting - the
password among them - from the configuration file.  Under the taint contract the value read, and
the text of whatever the parser raises, are `secret`; neither may reach a record of level INFO or
above, nor the text of an exception leaving the function."""
from vf.contracts import contract
from contracts.c_taint import t_no_secret_in_logs_or_errors

H = "kmip.core.config_helper.ConfigHelper."
HELPER = ('obj', 'kmip.core.config_helper.ConfigHelper', {'conf': ('model', 'Config'), 'logger': 'logger'})

c = contract(H + "get_valid_value").props('C20')
c.args(self=HELPER, direct_value=('opt', ('tainted_str', 'secret')), config_section='str', config_option_name='str',
       default_value=('opt', 'str'))
c.raises(None)
c.trace("no-secret-in-logs-or-error-text", t_no_secret_in_logs_or_errors)
