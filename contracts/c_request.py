"""Request-level engine functions: version acceptance, dispatch, batch loop, envelope
(C02, C08, C10, C11, C16)."""
from vf.contracts import contract, spec_module
from contracts import spec_policy
from contracts.c_engine import ENGINE, KMIP_ERRORS, E

spec_module(spec_policy)
PV = ('obj', 'kmip.core.messages.contents.ProtocolVersion',
      {'_major': ('lazyopt', ('obj', 'kmip.core.primitives.Integer', {'value': 'int'})),
       '_minor': ('lazyopt', ('obj', 'kmip.core.primitives.Integer', {'value': 'int'}))})
SUPPORTED = "[(2, 0), (1, 4), (1, 3), (1, 2), (1, 1), (1, 0)]"

# ---------------------------------------------------------------- C16: version acceptance
c = contract(E + "_set_protocol_version").props('C16', 'C11')
c.args(self=ENGINE, protocol_version=PV)
c.raises('exceptions.InvalidMessage',
         when="(protocol_version.major, protocol_version.minor) not in " + SUPPORTED)
c.ensures("self._protocol_version is protocol_version", name="version-of-the-request")
c.ensures("self._attribute_policy._version is protocol_version", name="attribute-rules-of-that-version")
c.modifies("self._protocol_version", "self._attribute_policy")

# ---------------------------------------------------------------- handlers not yet under their own contract
# (assumed: may fail with a KMIP error, otherwise return a response payload; listed in the evidence)
HANDLERS = ["create", "create_key_pair", "delete_attribute", "register", "derive_key", "locate", "get",
            "get_attributes", "get_attribute_list", "activate", "revoke", "destroy", "query",
            "discover_versions", "encrypt", "decrypt", "signature_verify", "set_attribute",
            "modify_attribute", "mac", "sign"]
from vf.contracts import lookup as _lookup      # noqa: E402
for h in HANDLERS:
    if _lookup(E + "_process_" + h) is None:
        c = contract(E + "_process_" + h).props('C13')
        c.raises(KMIP_ERRORS)
        c.returns('opaque')
        c.modifies("self._id_placeholder")
        c.modifies_kinds = {"self._id_placeholder": ('lazyopt', 'str')}
        c.trust("request handler not yet under its own contract: assumed to return a payload or raise a "
                "KmipError")
for h in HANDLERS:
    c = _lookup(E + "_process_" + h)
    if c.result_kind is None:
        c.returns('opaque')

# ---------------------------------------------------------------- C16: dispatch and per-operation version gate
MIN_VERSION = {   # from the KMIP specifications: the version that introduced each operation
    'DISCOVER_VERSIONS': (1, 1), 'ENCRYPT': (1, 2), 'DECRYPT': (1, 2), 'SIGN': (1, 2),
    'SIGNATURE_VERIFY': (1, 2), 'MAC': (1, 2), 'SET_ATTRIBUTE': (2, 0),
}
DISPATCHED = {'CREATE', 'CREATE_KEY_PAIR', 'DELETE_ATTRIBUTE', 'REGISTER', 'DERIVE_KEY', 'LOCATE', 'GET',
              'GET_ATTRIBUTES', 'GET_ATTRIBUTE_LIST', 'ACTIVATE', 'REVOKE', 'DESTROY', 'QUERY',
              'DISCOVER_VERSIONS', 'ENCRYPT', 'DECRYPT', 'SIGNATURE_VERIFY', 'SET_ATTRIBUTE',
              'MODIFY_ATTRIBUTE', 'MAC', 'SIGN'}


def t_dispatch(ev, outcome, exc, path, I):
    """The handler that runs is the one of the requested operation, and only if the request's
    protocol version already defines that operation; otherwise Operation Not Supported."""
    op = I.ghost_globals.get('__operation__')
    eng = I.ghost_globals.get('__self__')
    op = I.resolve_enum(op)
    pv = eng.fields.get('_protocol_version')
    calls = [e[1].rsplit('.', 1)[-1] for e in ev if e[0] == 'call' and '._process_' in e[1]]
    want = '_process_' + op.name.lower()
    if pv is None:
        version = None
    else:
        version = (pv.major, pv.minor)
    too_old = version is not None and op.name in MIN_VERSION and version < MIN_VERSION[op.name]
    if op.name not in DISPATCHED or too_old:
        if calls:
            return "%s ran under KMIP %s although the operation is not available there" % (calls, version)
        if outcome == 'return':
            return "unsupported operation %s answered with success" % op.name
        if exc.cls.__name__ != 'OperationNotSupported':
            return "unsupported operation %s fails with %s" % (op.name, exc.cls.__name__)
        return True
    if outcome == 'raise' and exc.cls.__name__ == 'OperationNotSupported' and not calls:
        return "%s is refused under KMIP %s although that version defines it" % (op.name, version)
    if calls and calls != [want]:
        return "operation %s dispatched to %s" % (op.name, calls)
    return True


c = contract(E + "_process_operation").props('C16', 'C08', 'C13')
c.args(self=ENGINE, operation=('enum', 'kmip.core.enums.Operation'), payload='opaque')
c.let('__self__', 'self').let('__operation__', 'operation')
c.raises(KMIP_ERRORS)
c.trace("dispatch-and-version-gate", t_dispatch)
c.modifies("self._id_placeholder")
c.modifies_kinds = {"self._id_placeholder": ('lazyopt', 'str')}
c.returns('opaque')
