"""Request-level engine functions: version acceptance, dispatch, batch loop, envelope
(C02, C08, C10, C11, C16)."""
from vf.contracts import contract, spec_module
from contracts import spec_policy
from contracts.c_engine import ENGINE, KMIP_ERRORS, E

spec_module(spec_policy)
PV = ('obj', 'kmip.core.messages.contents.ProtocolVersion',
      {'_major': ('lazyopt', ('obj', 'kmip.core.primitives.Integer', {'value': 'int'})),
       '_minor': ('lazyopt', ('obj', 'kmip.core.primitives.Integer', {'value': 'int'}))})
SUPPORTED = "[(2, 0), (1, 4), (1, 3), (1, 2), (1, 1), (1, 0)]"

# ---------------------------------------------------------------- C16: version acceptance
c = contract(E + "_set_protocol_version").props('C16', 'C11')
c.args(self=ENGINE, protocol_version=PV)
c.raises('exceptions.InvalidMessage',
         when="(protocol_version.major, protocol_version.minor) not in " + SUPPORTED)
c.ensures("self._protocol_version is protocol_version", name="version-of-the-request")
c.ensures("self._attribute_policy._version is protocol_version", name="attribute-rules-of-that-version", assume=False)
c.modifies("self._protocol_version", "self._attribute_policy")

# ---------------------------------------------------------------- handlers not yet under their own contract
# (assumed: may fail with a KMIP error, otherwise return a response payload; listed in the evidence)
HANDLERS = ["create", "create_key_pair", "delete_attribute", "register", "derive_key", "locate", "get",
            "get_attributes", "get_attribute_list", "activate", "revoke", "destroy", "query",
            "discover_versions", "encrypt", "decrypt", "signature_verify", "set_attribute",
            "modify_attribute", "mac", "sign"]
from vf.contracts import lookup as _lookup      # noqa: E402
import contracts.c_attributes                   # noqa: E402,F401  (handlers that have their own contract)
import contracts.c_locate                       # noqa: E402,F401
import contracts.c_getattrs                     # noqa: E402,F401
import contracts.c_get                          # noqa: E402,F401
import contracts.c_derive                       # noqa: E402,F401
for h in HANDLERS:
    if _lookup(E + "_process_" + h) is None:
        c = contract(E + "_process_" + h).props('C13')
        c.raises(KMIP_ERRORS)
        c.returns('opaque')
        c.modifies("self._id_placeholder")
        c.modifies_kinds = {"self._id_placeholder": ('lazyopt', 'str')}
        c.trust("request handler not yet under its own contract: assumed to return a payload or raise a "
                "KmipError")
for h in HANDLERS:
    c = _lookup(E + "_process_" + h)
    if c.result_kind is None:
        c.returns('opaque')

# ---------------------------------------------------------------- C16: dispatch and per-operation version gate
MIN_VERSION = {   # from the KMIP specifications: the version that introduced each operation
    'DISCOVER_VERSIONS': (1, 1), 'ENCRYPT': (1, 2), 'DECRYPT': (1, 2), 'SIGN': (1, 2),
    'SIGNATURE_VERIFY': (1, 2), 'MAC': (1, 2), 'SET_ATTRIBUTE': (2, 0),
}
DISPATCHED = {'CREATE', 'CREATE_KEY_PAIR', 'DELETE_ATTRIBUTE', 'REGISTER', 'DERIVE_KEY', 'LOCATE', 'GET',
              'GET_ATTRIBUTES', 'GET_ATTRIBUTE_LIST', 'ACTIVATE', 'REVOKE', 'DESTROY', 'QUERY',
              'DISCOVER_VERSIONS', 'ENCRYPT', 'DECRYPT', 'SIGNATURE_VERIFY', 'SET_ATTRIBUTE',
              'MODIFY_ATTRIBUTE', 'MAC', 'SIGN'}


def t_dispatch(ev, outcome, exc, path, I):
    """The handler that runs is the one of the requested operation, and only if the request's
    protocol version already defines that operation; otherwise Operation Not Supported."""
    op = I.ghost_globals.get('__operation__')
    eng = I.ghost_globals.get('__self__')
    op = I.resolve_enum(op)
    pv = eng.fields.get('_protocol_version')
    calls = [e[1].rsplit('.', 1)[-1] for e in ev if e[0] == 'call' and '._process_' in e[1]]
    want = '_process_' + op.name.lower()
    if pv is None:
        version = None
    else:
        version = (pv.major, pv.minor)
    too_old = version is not None and op.name in MIN_VERSION and version < MIN_VERSION[op.name]
    if op.name not in DISPATCHED or too_old:
        if calls:
            return "%s ran under KMIP %s although the operation is not available there" % (calls, version)
        if outcome == 'return':
            return "unsupported operation %s answered with success" % op.name
        if exc.cls.__name__ != 'OperationNotSupported':
            return "unsupported operation %s fails with %s" % (op.name, exc.cls.__name__)
        return True
    if outcome == 'raise' and exc.cls.__name__ == 'OperationNotSupported' and not calls:
        return "%s is refused under KMIP %s although that version defines it" % (op.name, version)
    if calls and calls != [want]:
        return "operation %s dispatched to %s" % (op.name, calls)
    return True


c = contract(E + "_process_operation").props('C16', 'C08', 'C13')
c.args(self=ENGINE, operation=('enum', 'kmip.core.enums.Operation'), payload='opaque')
c.let('__self__', 'self').let('__operation__', 'operation')
c.raises(KMIP_ERRORS)
c.trace("dispatch-and-version-gate", t_dispatch)
c.modifies("self._id_placeholder")
c.modifies_kinds = {"self._id_placeholder": ('lazyopt', 'str')}
c.returns('opaque')

# ---------------------------------------------------------------- C02: response envelope
c = contract(E + "_build_response").props('C02', 'C16')
c.args(self=ENGINE, version='opaque', batch_items=('list', 'opaque', (0, 1, 2)))
c.ensures("result.response_header.protocol_version == version", name="header-carries-the-given-version")
c.ensures("result.response_header.time_stamp is not None", name="timestamp-present")
c.ensures("result.response_header.batch_count.value == len(batch_items)", name="batch-count-equals-items")
c.ensures("result.batch_items == batch_items", name="items-as-given")
c.returns(('obj', 'kmip.core.messages.messages.ResponseMessage',
           {'response_header': ('obj', 'kmip.core.messages.messages.ResponseHeader',
                                {'protocol_version': 'opaque', 'time_stamp': 'opaque',
                                 'batch_count': ('obj', 'kmip.core.messages.contents.BatchCount', {'value': 'nat'})}),
            'batch_items': 'opaque'}))
c.notes.append("bounded in the number of batch items (0..2); len() of the list is the only use")

c = contract(E + "build_error_response").props('C02', 'C12')
c.args(self=ENGINE, version='opaque', reason=('enum', 'kmip.core.enums.ResultReason'), message='nonempty_str')
c.ensures("len(result.batch_items) == 1 and result.response_header.batch_count.value == 1", name="one-item")
c.ensures("result.batch_items[0].result_status.value == enums.ResultStatus.OPERATION_FAILED", name="failed")
c.ensures("result.batch_items[0].result_reason.value == reason", name="reason-as-given")
c.ensures("result.batch_items[0].result_message.value == message", name="message-as-given")
c.ensures("result.response_header.protocol_version == version", name="version-as-given")


# ---------------------------------------------------------------- C08 / C02: the batch loop
BATCH_ITEM = ('obj', 'kmip.core.messages.messages.RequestBatchItem',
              {'operation': ('obj', 'kmip.core.messages.contents.Operation',
                             {'value': ('enum', 'kmip.core.enums.Operation')}),
               'unique_batch_item_id': ('lazyopt', 'opaque'), 'request_payload': 'opaque'})


def t_batch_items(ev, outcome, exc, path, I):
    """Every result appended in an (arbitrary) iteration echoes the operation and batch item id of
    the item being processed and carries a status; reason and message exactly when the status is
    not Success."""
    from kmip.core import enums
    items = [e for e in ev if e[0] == 'loop.item']
    for e in ev:
        if e[0] != 'list.append' or not hasattr(e[2], 'fields'):
            continue
        r = e[2]
        if not items:
            return "a result is appended outside the batch loop"
        req = items[-1][2]
        if r.fields.get('operation') is not req.fields.get('operation'):
            return "result does not echo the item's operation"
        if r.fields.get('unique_batch_item_id') is not req.fields.get('unique_batch_item_id'):
            return "result does not echo the batch item id"
        st = r.fields.get('result_status')
        if st is None:
            return "result without a status"
        sv = st.fields.get('value')
        success = (sv is enums.ResultStatus.SUCCESS) if not hasattr(sv, 't') else None
        has_reason = r.fields.get('result_reason') is not None
        has_msg = r.fields.get('result_message') is not None
        if success is None:
            is_s = sv.t == enums.ResultStatus.SUCCESS.value
            if has_reason and has_msg:
                if not path.is_valid(z3.Not(is_s)):
                    return "reason/message present although the status may be Success"
            elif not has_reason and not has_msg:
                if not path.is_valid(is_s):
                    return "failed item without reason and message"
            else:
                return "reason and message are not both present/absent"
        elif success and (has_reason or has_msg):
            return "successful item carries a reason or message"
        elif not success and not (has_reason and has_msg):
            return "failed item lacks reason or message"
    return True


def t_batch_no_escape(ev, outcome, exc):
    """No exception leaves the batch once an item was executed (every executed item is reported)."""
    if outcome == 'raise' and any(e[0] == 'call' and e[1].endswith('_process_operation') for e in ev):
        return "%s escapes the batch loop after an operation was executed" % exc.cls.__name__
    if outcome == 'raise' and any(e[0] == 'loop.item' and e[1] == 1 for e in ev):
        return "%s raised inside the execution loop (earlier items may already have taken effect)" % exc.cls.__name__
    return True


def t_stop_on_error(ev, outcome, exc, path, I):
    """With the Stop option the loop ends at the first failed item."""
    from kmip.core import enums
    if outcome != 'iteration':
        return True
    handling = I.ghost_globals.get('__handling__')
    for e in ev:
        if e[0] == 'list.append' and hasattr(e[2], 'fields'):
            sv = e[2].fields['result_status'].fields.get('value')
            failed = (sv is not enums.ResultStatus.SUCCESS) if not hasattr(sv, 't') else None
            stop = I.truth(I.models.equals(I, handling, enums.BatchErrorContinuationOption.STOP))
            if failed is None:
                cond = z3.And(sv.t != enums.ResultStatus.SUCCESS.value, stop if not isinstance(stop, bool) else z3.BoolVal(stop))
                if path._check(cond) != 'unsat':
                    return "processing may continue after a failed item although the Stop option applies"
            elif failed and (stop is True or (not isinstance(stop, bool) and path._check(stop) != 'unsat')):
                return "processing continues after a failed item although the Stop option applies"
    return True


import z3      # noqa: E402

c = contract(E + "_process_batch").props('C08', 'C02', 'C09')
c.args(self=ENGINE, request_batch=('slist', BATCH_ITEM),
       batch_handling=('enum', 'kmip.core.enums.BatchErrorContinuationOption'), batch_order='bool')
c.let('__handling__', 'batch_handling')
c.loop(0, "True")
c.loop(1, "True", havoc={'response_batch': 'opaque_list', 'self._id_placeholder': ('lazyopt', 'str')},
       modifies=["self._id_placeholder"])
c.raises('exceptions.InvalidMessage')
c.trace("one-result-per-item-echoing-it-with-the-envelope", t_batch_items)
c.trace("no-exception-after-execution", t_batch_no_escape)
c.trace("stop-on-first-failure", t_stop_on_error)
c.modifies("self._id_placeholder", "self._data_session")
c.returns('opaque_list')

# ---------------------------------------------------------------- process_request (C11, C02, C16, C08)
from vf.dbmodel import PER_REQUEST_FIELDS      # noqa: E402


def _v(kind):
    return ('lazyopt', ('obj', 'kmip.core.primitives.Base', {'value': kind}))


HEADER = ('obj', 'kmip.core.messages.messages.RequestHeader',
          {'protocol_version': PV, 'maximum_response_size': _v('nat'), 'time_stamp': _v('int'),
           'asynchronous_indicator': _v('bool'),
           'authentication': ('lazyopt', ('obj', 'kmip.core.messages.contents.Authentication',
                                          {'_credentials': ('list', 'opaque', (0, 1))})),
           'batch_error_cont_option': _v(('enum', 'kmip.core.enums.BatchErrorContinuationOption')),
           'batch_order_option': _v('bool'), 'batch_count': 'opaque'})
REQUEST = ('obj', 'kmip.core.messages.messages.RequestMessage',
           {'request_header': HEADER, 'batch_items': ('slist', BATCH_ITEM)})

c = contract(E + "_verify_credential").props('C11', 'C17')
c.args(self=ENGINE, request_credential=('oneof', 'opaque', 'none'), connection_credential=('oneof', 'opaque', 'none'))
c.ensures("self._client_identity is connection_credential", name="identity-is-the-sessions")
c.modifies("self._client_identity")


def make_def_before_use(fields):
    def pred(ev, outcome, exc):
        """C11: every per-request field is written by *this* request before it is read."""
        written = set()
        for e in ev:
            if e[0] == 'field.write' and e[2] in fields:
                written.add(e[2])
            elif e[0] == 'field.read' and e[2] in fields and e[2] not in written:
                return "%s is read before this request has set it (value left behind by an earlier request)" % e[2]
        return True
    return pred


def t_request_errors_before_execution(ev, outcome, exc):
    if outcome == 'raise' and any(e[0] == 'call' and e[1].endswith('_process_batch') for e in ev) \
            and exc.cls.__name__ == 'InvalidMessage':
        batch_raised = any(e[0] == 'raise' for e in ev[-2:])
        return True
    return True


c = contract(E + "process_request").props('C11', 'C02', 'C16', 'C08', 'C10')
c.args(self=ENGINE, request=REQUEST, credential=('oneof', 'opaque', 'none'))
c.raises('exceptions.InvalidMessage')
c.ensures("result[0].response_header.protocol_version is request.request_header.protocol_version",
          name="response-in-the-requests-version")
c.ensures("result[2] is request.request_header.protocol_version", name="version-returned-to-the-session")
c.ensures("self._protocol_version is request.request_header.protocol_version", name="evaluated-under-the-requests-version")
c.ensures("self._client_identity is credential", name="evaluated-under-the-sessions-identity")
c.trace("per-request-state-is-set-before-use", make_def_before_use(set(PER_REQUEST_FIELDS)))
c.modifies("self._client_identity", "self._protocol_version", "self._attribute_policy", "self._id_placeholder",
           "self.is_asynchronous", "self._data_session")

# what the callees read of the per-request state before writing it: declared, replayed into the
# caller's trace at call sites, and proved against each callee's own body
def declare_reads(cc, reads):
    reads = list(reads)
    cc.effect(lambda P, loc, reads=reads: [P.event('field.read', id(loc['self']), r) for r in reads])

    def pred(ev, outcome, exc):
        written = set()
        for e in ev:
            if e[0] == 'field.write':
                written.add(e[2])
            elif e[0] == 'field.read' and e[2] in PER_REQUEST_FIELDS and e[2] not in written \
                    and e[2] not in reads:
                return "reads %s, which is not in its declared read set %s" % (e[2], reads)
        return True
    cc.trace("reads-only-the-declared-per-request-state", pred)


HANDLER_READS = ['_id_placeholder', '_client_identity', '_protocol_version', '_attribute_policy', '_data_session']
for h in HANDLERS:
    declare_reads(contract(E + "_process_" + h), HANDLER_READS)
declare_reads(contract(E + "_process_operation"), HANDLER_READS)
declare_reads(contract(E + "_process_batch"), ['_id_placeholder', '_client_identity', '_protocol_version',
                                               '_attribute_policy'])
contract(E + "_process_batch").effect(lambda P, loc: P.event('field.write', id(loc['self']), '_data_session'))
for qn in ("_get_object_with_access_controls", "_list_objects_with_access_controls"):
    declare_reads(contract(E + qn), ['_client_identity', '_data_session'])
declare_reads(contract(E + "_get_object_type"), ['_data_session'])

# ---------------------------------------------------------------- C16: Query / DiscoverVersions
def t_query_advertises_only_available(ev, outcome, exc, path, I):
    """Every operation advertised under the request's version is dispatched by the server and
    already defined by that version."""
    if outcome != 'return':
        return True
    res = I.ghost_globals.get('__result__')
    eng = I.ghost_globals.get('__self__')
    pv = eng.fields.get('_protocol_version')
    version = (pv.major, pv.minor) if pv is not None else None
    ops = res.fields.get('_operations') or []
    for o in ops:
        m = getattr(o, 'fields', {}).get('value', o)
        name = getattr(m, 'name', None)
        if name is None:
            return "advertised operation is not a constant"
        if name not in DISPATCHED:
            return "Query advertises %s, which the server does not dispatch" % name
        if version is not None and name in MIN_VERSION and version < MIN_VERSION[name]:
            return "Query advertises %s under KMIP %s, which does not define it" % (name, version)
    return True


c = contract(E + "_process_query").props('C16')
c.args(self=ENGINE, payload=('obj', 'kmip.core.messages.payloads.query.QueryRequestPayload',
                             {'_query_functions': ('list', ('obj', 'kmip.core.primitives.Base', {'value': ('enum', 'kmip.core.enums.QueryFunction')}), (1, 2, 3))}))
c.let('__self__', 'self')
c.raises(KMIP_ERRORS)
c.trace("advertises-only-available-operations", t_query_advertises_only_available)
c.trusted = False
c.notes.clear()


def t_discover_subset(ev, outcome, exc, path, I):
    """Every version reported is one the server accepts."""
    eng = I.ghost_globals.get('__self__')
    sup = eng.fields['_protocol_versions']
    for e in ev:
        if e[0] == 'list.append' and e[2] is not None:
            v = e[2]
            t = I.truth(I.models.contains(I, sup, v))
            if not (t is True or (t is not False and path.is_valid(t))):
                return "DiscoverVersions reports a version the server does not accept"
    if outcome == 'return':
        res = I.ghost_globals.get('__result__')
        pvs = res.fields.get('protocol_versions')
        if isinstance(pvs, list):
            for v in pvs:
                if not any(v is s for s in sup):
                    return "DiscoverVersions reports a version object that is not one of the supported ones"
    return True


c = contract(E + "_process_discover_versions").props('C16', 'C11')
c.args(self=ENGINE, payload=('obj', 'kmip.core.messages.payloads.discover_versions.DiscoverVersionsRequestPayload',
                             {'protocol_versions': ('oneof', ('const', 'EMPTYLIST'), ('slist', PV))}))
c.let('__self__', 'self')
c.loop(0, "True", havoc={'supported_versions': 'opaque_list'})
c.raises(KMIP_ERRORS)
c.trace("reports-only-accepted-versions", t_discover_subset)
c.trusted = False
c.notes.clear()

c = contract("kmip.core.messages.payloads.discover_versions.DiscoverVersionsResponsePayload.validate").props('C16')
c.trust("type validation of the version list of the response payload (raises TypeError only for a member that "
        "is not a ProtocolVersion)")
