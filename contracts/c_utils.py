"""Contracts for kmip/core/utils.py (lemma L1 of DESIGN 2.5)."""
from vf.contracts import contract

STREAM = ('obj', 'kmip.core.utils.BytearrayStream', {'buffer': 'bytes'})

c = contract("kmip.core.utils.BytearrayStream.read").props('C01', 'C02', 'C12')
c.args(self=STREAM, n=('oneof', 'nat', 'none', ('const', -1)))
c.ensures("result == (old(self.buffer) if n is None or n == -1 else old(self.buffer)[:min(n, len(old(self.buffer)))])",
          name="returns-prefix")
c.ensures("self.buffer == (b'' if n is None or n == -1 else old(self.buffer)[min(n, len(old(self.buffer))):])",
          name="keeps-suffix")
c.ensures("result + self.buffer == old(self.buffer)", name="partition")
c.modifies("self.buffer")
c.returns('bytes')

c = contract("kmip.core.utils.BytearrayStream.readall").props('C01')
c.args(self=STREAM)
c.ensures("result == old(self.buffer)")
c.ensures("self.buffer == b''")
c.modifies("self.buffer")

c = contract("kmip.core.utils.BytearrayStream.peek").props('C01', 'C02')
c.args(self=STREAM, n=('oneof', 'nat', 'none'))
c.ensures("result == (self.buffer if n is None else self.buffer[:min(n, len(self.buffer))])",
          name="returns-prefix")
c.returns('bytes')

c = contract("kmip.core.utils.BytearrayStream.write").props('C01', 'C02')
c.args(self=STREAM, b='bytes')
c.ensures("self.buffer == old(self.buffer) + b", name="appends")
c.ensures("result == len(b)", name="count")
c.modifies("self.buffer")

c = contract("kmip.core.utils.BytearrayStream.length").props('C01')
c.args(self=STREAM)
c.ensures("result == len(self.buffer)")

c = contract("kmip.core.utils.BytearrayStream.__len__").props('C01')
c.args(self=STREAM)
c.ensures("result == len(self.buffer)")

c = contract("kmip.core.utils.BytearrayStream.__init__").props('C01')
c.args(self=('obj', 'kmip.core.utils.BytearrayStream', {}), data=('oneof', 'none', 'bytes'))
c.ensures("self.buffer == (b'' if data is None else data)")
c.modifies("self.buffer")
