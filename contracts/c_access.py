"""C03 - contracts on the access-control choke points of the server engine."""
from vf.contracts import contract, spec_module
from contracts import spec_policy

spec_module(spec_policy)

E = "kmip.services.server.engine.KmipEngine."
OT = ('enum', 'kmip.core.enums.ObjectType')
OP = ('enum', 'kmip.core.enums.Operation')
PERMISSION = ('enum', 'kmip.core.enums.Policy')
SECTION = ('sdict', ('sdict', PERMISSION))              # object type -> operation -> permission
# a bundle's 'preset' is a section, its 'groups' a mapping group -> section
BUNDLE = ('sdict', ('bykey', {'preset': SECTION, 'groups': ('sdict', SECTION)}))
POLICIES = ('sdict', BUNDLE)            # every policy store at once (uninterpreted content)
# an engine in the middle of its life: whatever other attribute it carries (a cache, a flag left by an
# earlier request) holds an arbitrary value - the decision must not depend on it
ENGINE = ('obj_open', 'kmip.services.server.engine.KmipEngine',
          {'_operation_policies': POLICIES, '_logger': 'logger'})
USER = 'str'
GROUP_NAME = 'nonempty_str'

c = contract(E + "get_relevant_policy_section").props('C03')
c.args(self=ENGINE, policy_name='str', group=('oneof', 'none', GROUP_NAME))
c.ensures("result == relevant_section(self._operation_policies, policy_name, group)", name="selected-section")

c = contract(E + "_get_enum_string").props('C03', 'C13', 'C20')
c.args(self=ENGINE, e=OT)
c.returns('opaque_str')
c.trust("pretty-prints an enumeration member's name for log and error texts only; its result is "
        "never branched on (str.split/capitalize are outside the SMT fragment)")

c = contract(E + "is_allowed").props('C03')
c.args(self=ENGINE, policy_name='str', session_user=USER, session_group=('oneof', 'none', GROUP_NAME),
       object_owner=('oneof', 'str', 'none'), object_type=OT, operation=OP)
c.ensures("not result or granted_for_group(self._operation_policies, policy_name, session_user, "
          "session_group, object_owner, object_type, operation)", name="only-if-section-grants")
c.ensures("type_is(result, bool)", name="bool")
c.returns('bool')

c = contract(E + "_is_allowed_by_operation_policy").props('C03')
c.args(self=ENGINE, policy_name='str',
       session_identity=('tuple', USER, ('oneof', 'none', ('slist', GROUP_NAME))),
       object_owner=('oneof', 'str', 'none'), object_type=OT, operation=OP)
c.loop(0, "True")
c.ensures("not result or granted(self._operation_policies, policy_name, session_identity, "
          "object_owner, object_type, operation)", name="only-if-policy-grants")
c.ensures("type_is(result, bool)", name="bool")
c.returns('bool')
