"""Specification functions for the client-modifiable multivalued attributes (C15)."""

# attributes that no Set/Modify/DeleteAttribute request may ever alter (property statement)
PROTECTED = ('Unique Identifier', 'Object Type', 'State', 'Operation Policy Name',
             'Cryptographic Usage Mask', 'Cryptographic Algorithm', 'Cryptographic Length',
             'Initial Date')
MULTIVALUED_STORED = ('Name', 'Application Specific Information', 'Object Group')


def name_text(v):
    """Text of a Name value as the client sends it (Name structure, or bare text string)."""
    return v.name_value.value if hasattr(v, 'name_value') else v.value


def instance_matches(attribute_name, v, inst):
    """Does the stored instance `inst` carry the value `v` of the request?"""
    if attribute_name == 'Name':
        return inst == name_text(v)
    if attribute_name == 'Application Specific Information':
        return inst.application_namespace == v.application_namespace and \
            inst.application_data == v.application_data
    return inst.object_group == v.value
