"""Which KMIP version introduced a tag (C16).  From the tag tables of the KMIP specifications:
tags are allocated in order, each version of the specification appending its new tags after the
last tag of the previous one.  First tag of each version's block:"""
FIRST_TAG = [((1, 0), 0x420001),     # Activation Date
             ((1, 1), 0x4200A2),     # Device Identifier
             ((1, 2), 0x4200B8),     # Key Value Location
             ((1, 3), 0x4200D4),     # Offset Items
             ((1, 4), 0x4200F8),     # Key Wrap Type
             ((2, 0), 0x420125)]     # Attributes
VERSION_NAMES = {(1, 0): 'KMIP_1_0', (1, 1): 'KMIP_1_1', (1, 2): 'KMIP_1_2', (1, 3): 'KMIP_1_3',
                 (1, 4): 'KMIP_1_4', (2, 0): 'KMIP_2_0'}


def introduced(tag_value):
    r = FIRST_TAG[0][0]
    for v, first in FIRST_TAG:
        if tag_value >= first:
            r = v
    return r


def consistent_with_enum_sections():
    """Cross-check against the section comments of enums.Tags in the tree under verification (the
    library groups its tag constants by the version that introduced them): -> None | message"""
    import re
    from vf import extract
    src, tree, mod = extract.module_source("kmip.core.enums")
    m = re.search(r"class Tags\(enum\.Enum\):(.*?)\nclass ", src, re.S)
    if not m:
        return "class Tags not found"
    cur, seen = None, {}
    for line in m.group(1).splitlines():
        c = re.match(r"\s*# KMIP (\d)\.(\d)\s*$", line)
        if c:
            cur = (int(c.group(1)), int(c.group(2)))
            continue
        d = re.match(r"\s*[A-Z0-9_]+\s*=\s*(0x[0-9A-Fa-f]+)", line)
        if d and cur is not None and cur not in seen:
            seen[cur] = int(d.group(1), 16)
    want = dict(FIRST_TAG)
    bad = {v: (hex(seen.get(v, 0)), hex(want[v])) for v in want if seen.get(v) != want[v]}
    return None if not bad else "tag blocks of enums.Tags differ from the specification table: %s" % bad


# Structures that as a whole belong to a later version (KMIP specifications): request/response
# payloads of operations introduced later, and credential / information structures introduced
# later.  Below that version the structure does not exist; whether it can be reached there is the
# obligation of whatever contains it (for payloads: the operation gate of the server, C16 dispatch).
OPERATION_INTRODUCED = {'DiscoverVersions': (1, 1), 'Encrypt': (1, 2), 'Decrypt': (1, 2), 'Sign': (1, 2),
                        'SignatureVerify': (1, 2), 'MAC': (1, 2), 'SetAttribute': (2, 0)}
STRUCTURE_INTRODUCED = {'DeviceCredential': (1, 1), 'AttestationCredential': (1, 2), 'Nonce': (1, 2),
                        'ExtensionInformation': (1, 1), 'CapabilityInformation': (1, 3),
                        'RNGParameters': (1, 3), 'ProfileInformation': (1, 3), 'ValidationInformation': (1, 3)}


def structure_introduced(class_name):
    """version that introduced the structure class (short class name), (1, 0) when not listed"""
    for op, v in OPERATION_INTRODUCED.items():
        if class_name in (op + 'RequestPayload', op + 'ResponsePayload'):
            return v
    return STRUCTURE_INTRODUCED.get(class_name, (1, 0))
