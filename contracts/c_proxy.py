"""C19 (request side) - kmip/services/kmip_client.py: the header of every request announces the
KMIP version the message is encoded under.  _send_message encodes with self.kmip_version; the
server decodes the body under the version the header names; so the two must agree whatever the
client object did before (the proxy is an object in the middle of its life: any attribute the
contract does not name holds an arbitrary value)."""
from kmip.core.messages import contents as _contents
from vf.contracts import contract, spec_module

spec_module(_contents)

K = "kmip.services.kmip_client.KMIPProxy."
PROXY = ('obj_open', 'kmip.services.kmip_client.KMIPProxy',
         {'_kmip_version': ('enum', 'kmip.core.enums.KMIPVersion'), 'logger': 'logger'})

c = contract(K + "_build_protocol_version").props('C19')
c.args(self=PROXY)
c.raises(None)
c.ensures("protocol_version_to_kmip_version(result) == self.kmip_version", name="struct-for-the-current-version")
INTEGER = ('obj', 'kmip.core.primitives.Integer', {'value': 'nat'})
c.returns(('obj', 'kmip.core.messages.contents.ProtocolVersion', {'_major': INTEGER, '_minor': INTEGER}))

# a client without user name / password (certificate authentication only); the credential a caller
# passes explicitly is any Credential struct.  Building a credential from user name and password
# goes through the credential factory and is not under this contract.
NO_LOGIN = ('obj_open', 'kmip.services.kmip_client.KMIPProxy',
            {'_kmip_version': ('enum', 'kmip.core.enums.KMIPVersion'), 'logger': 'logger',
             'username': ('const', None), 'password': ('const', None)})
c = contract(K + "_build_request_message").props('C19')
c.args(self=NO_LOGIN, credential=('oneof', 'none', ('obj', 'kmip.core.objects.Credential', {})),
       batch_items=('list', ('obj', 'kmip.core.messages.messages.RequestBatchItem', {}), (0, 1, 2)))
c.raises(None)
c.ensures("protocol_version_to_kmip_version(result.request_header.protocol_version) == self.kmip_version",
          name="header-announces-the-version-the-message-is-encoded-under")
c.ensures("result.request_header.batch_count.value == len(batch_items) and "
          "same_items(result.batch_items, batch_items)", name="batch-count-and-items-as-given")
c.bounded_note = "0..2 batch items (the function only counts and forwards them)"
