"""C19 (request side) - kmip/services/kmip_client.py: the header of every request announces the
KMIP version the message is encoded under.  _send_message encodes with self.kmip_version; the
server decodes the body under the version the header names; so the two must agree whatever the
client object did before (the proxy is an object in the middle of its life: any attribute the
contract does not name holds an arbitrary value)."""
from kmip.core.messages import contents as _contents
from vf.contracts import contract, spec_module

spec_module(_contents)

K = "kmip.services.kmip_client.KMIPProxy."
PROXY = ('obj_open', 'kmip.services.kmip_client.KMIPProxy',
         {'_kmip_version': ('enum', 'kmip.core.enums.KMIPVersion'), 'logger': 'logger'})

c = contract(K + "_build_protocol_version").props('C19')
c.args(self=PROXY)
c.raises(None)
c.ensures("protocol_version_to_kmip_version(result) == self.kmip_version", name="struct-for-the-current-version")
INTEGER = ('obj', 'kmip.core.primitives.Integer', {'value': 'nat'})
c.returns(('obj', 'kmip.core.messages.contents.ProtocolVersion', {'_major': INTEGER, '_minor': INTEGER}))

# a client without user name / password (certificate authentication only); the credential a caller
# passes explicitly is any Credential struct.  Building a credential from user name and password
# goes through the credential factory and is not under this contract.
NO_LOGIN = ('obj_open', 'kmip.services.kmip_client.KMIPProxy',
            {'_kmip_version': ('enum', 'kmip.core.enums.KMIPVersion'), 'logger': 'logger',
             'username': ('const', None), 'password': ('const', None)})
c = contract(K + "_build_request_message").props('C19')
c.args(self=NO_LOGIN, credential=('oneof', 'none', ('obj', 'kmip.core.objects.Credential', {})),
       batch_items=('list', ('obj', 'kmip.core.messages.messages.RequestBatchItem', {}), (0, 1, 2)))
c.raises(None)
c.ensures("protocol_version_to_kmip_version(result.request_header.protocol_version) == self.kmip_version",
          name="header-announces-the-version-the-message-is-encoded-under")
c.ensures("result.request_header.batch_count.value == len(batch_items) and "
          "same_items(result.batch_items, batch_items)", name="batch-count-and-items-as-given")
c.bounded_note = "0..2 batch items (the function only counts and forwards them)"


# ---------------------------------------------------------------- one-item operations of KMIPProxy
# _activate / _destroy / _revoke: the result object handed to ProxyKmipClient carries exactly the
# status, reason and message of the first batch item of the decoded response, and the identifier of
# its payload (None without payload); exactly one request is sent, with one batch item of the
# operation asked for.  The wire is abstracted by three assumed contracts: _send_message (encodes
# and writes: C01/C02 + c_protocol), _receive_message (framing: c_protocol), ResponseMessage.read
# (decoder: C01) which yields at least one batch item - what the client relies on and does not check.
ITEM = ('obj', 'kmip.core.messages.messages.ResponseBatchItem',
        {'operation': 'opaque', 'result_status': 'opaque', 'result_reason': ('oneof', 'none', 'opaque'),
         'result_message': ('oneof', 'none', 'opaque'),
         'response_payload': ('oneof', 'none', ('obj', 'kmip.core.primitives.Struct', {'unique_identifier': 'opaque'}))})

c = contract(K + "_send_message").props('C19')
c.args(self='opaque', message='opaque')
c.effect(lambda P, loc: P.event('client.send', loc['message']))
c.may_raise_anything()
c.trust("encodes the request under self.kmip_version and writes it (codec: C01/C02; framing and socket: "
        "contracts/c_protocol.py); may raise")

c = contract(K + "_receive_message").props('C19')
c.args(self='opaque')
c.returns('opaque')
c.may_raise_anything()
c.trust("reads one framed response (contracts/c_protocol.py: KMIPProtocol.read); may raise")

c = contract("kmip.core.messages.messages.ResponseMessage.read").props('C19')
c.args(self=('obj', 'kmip.core.messages.messages.ResponseMessage', {}), istream='opaque', kmip_version='opaque')
c.may_raise_anything()
c.modifies("self.response_header", "self.batch_items")
c.modifies_kinds = {"self.response_header": 'opaque', "self.batch_items": ('list', ITEM, (1, 2))}
c.effect(lambda P, loc: P.ghost.__setitem__('__response_message__', loc['self']))
c.trust("decoder of the response message (C01/ttlvsym); here: raises, or yields a response with at least one "
        "batch item (the client indexes item 0 without checking; a response with batch count 0 is not modelled)")


def _result_is_the_first_item(fields):
    """fields: result attribute -> attribute of the response payload it must be (None without payload)"""
    def t(ev, outcome, exc, path, I):
        if outcome != 'return':
            return True
        res = I.ghost_globals.get('__result__')
        msg = path.ghost.get('__response_message__')
        if msg is None:
            return "the response was never decoded on a returning path"
        it = msg.fields['batch_items'][0]
        for f in ('result_status', 'result_reason', 'result_message'):
            if res.fields.get(f) is not it.fields.get(f):
                return "the result's %s is not the one the server sent in the first batch item" % f
        pay = it.fields.get('response_payload')
        for rf, pf in fields.items():
            want = None if pay is None else pay.fields.get(pf)
            got = res.fields.get(rf)
            if got is want or (want is None and isinstance(got, list) and not got):
                continue
            return "the result's %s is not the %s of the response payload" % (rf, pf)
        return True
    return t


def _one_request_of(op):
    def t(ev, outcome, exc, path, I):
        sends = [e for e in ev if e[0] == 'client.send']
        if outcome == 'return' and len(sends) != 1:
            return "%d requests sent for one call" % len(sends)
        for e in sends:
            items = I.getattr(e[1], 'batch_items')
            if len(items) != 1:
                return "the request carries %d batch items" % len(items)
            o = I.getattr(I.getattr(items[0], 'operation'), 'value')
            if getattr(o, 'name', None) != op:
                return "the request's operation is %r, not %s" % (o, op)
        return True
    return t


contract(K + "_build_request_message", variant="inline").inlined()
contract(K + "_build_protocol_version", variant="inline").inlined()
PAYLOAD_FIELDS = ('unique_identifier', 'object_type', 'secret', 'template_attribute', 'unique_identifiers', 'mac_data')
ITEM[2]['response_payload'] = ('oneof', 'none', ('obj', 'kmip.core.primitives.Struct',
                                                 {f: 'opaque' for f in PAYLOAD_FIELDS}))
UID = ('oneof', 'none', 'nonempty_str')
OPS = [
    ("_activate", "ACTIVATE", dict(unique_identifier=UID), {'uuid': 'unique_identifier'}),
    ("_destroy", "DESTROY", dict(unique_identifier=UID), {'uuid': 'unique_identifier'}),
    ("_revoke", "REVOKE", dict(unique_identifier=UID, revocation_reason=('enum', 'kmip.core.enums.RevocationReasonCode'),
                               revocation_message=('oneof', 'none', 'str'), compromise_occurrence_date='none'),
     {'unique_identifier': 'unique_identifier'}),
    ("_get", "GET", dict(unique_identifier=UID, key_format_type='none', key_compression_type='none',
                         key_wrapping_specification='none'),
     {'uuid': 'unique_identifier', 'object_type': 'object_type', 'secret': 'secret'}),
    ("_create", "CREATE", dict(object_type=('enum', 'kmip.core.enums.ObjectType'),
                               template_attribute=('obj', 'kmip.core.objects.TemplateAttribute', {})),
     {'uuid': 'unique_identifier', 'object_type': 'object_type', 'template_attribute': 'template_attribute'}),
    ("_mac", "MAC", dict(data='bytes', unique_identifier=UID, cryptographic_parameters='none'),
     {'uuid': 'unique_identifier', 'mac_data': 'mac_data'}),
    ("_register", "REGISTER", dict(object_type=('enum', 'kmip.core.enums.ObjectType'),
                                   template_attribute=('obj', 'kmip.core.objects.TemplateAttribute', {}),
                                   secret=('obj', 'kmip.core.secrets.SymmetricKey', {})),
     {'uuid': 'unique_identifier', 'template_attribute': 'template_attribute'}),
    ("_locate", "LOCATE", dict(maximum_items=('oneof', 'none', 'int32nat'), storage_status_mask='none',
                               object_group_member='none', attributes='none', offset_items=('oneof', 'none', 'int32nat')),
     {'uuids': 'unique_identifiers'}),
]
for fn, op, kinds, fields in OPS:
    c = contract(K + fn).props('C19')
    c.use_variant("inline")
    c.args(self=NO_LOGIN, credential='none', **kinds)
    c.may_raise_anything()
    c.trace("result-is-what-the-first-batch-item-says", _result_is_the_first_item(fields))
    c.trace("one-request-with-one-item-of-the-operation", _one_request_of(op))


# ---------------------------------------------------------------- send_request_payload
# (DeleteAttribute / SetAttribute / ModifyAttribute of ProxyKmipClient go through it)
def V(k):
    return ('obj', 'kmip.core.primitives.Base', {'value': k})


ATTR_PAYLOADS = ('oneof',
                 ('obj', 'kmip.core.messages.payloads.DeleteAttributeResponsePayload', {}),
                 ('obj', 'kmip.core.messages.payloads.SetAttributeResponsePayload', {}),
                 ('obj', 'kmip.core.messages.payloads.ModifyAttributeResponsePayload', {}),
                 ('obj', 'kmip.core.messages.payloads.ActivateResponsePayload', {}))
def _operation_echoed_on_success(I, item):
    # KMIP: a response batch item echoes the operation of the request item it answers; a failure
    # reported at message level (authentication, unparsable request, oversize) has none
    import z3
    from kmip.core import enums
    if item.fields.get('operation') is not None:
        return True
    st = item.fields['result_status'].fields['value']
    return I.truth(I.models.equals(I, st, enums.ResultStatus.SUCCESS)) is not True and \
        z3.Not(I.truth(I.models.equals(I, st, enums.ResultStatus.SUCCESS)))


ITEM_V = ('where', ('obj', 'kmip.core.messages.messages.ResponseBatchItem',
          {'operation': ('oneof', V(('enum', 'kmip.core.enums.Operation')), 'none'),
           'result_status': V(('enum', 'kmip.core.enums.ResultStatus')),
           'result_reason': V(('enum', 'kmip.core.enums.ResultReason')), 'result_message': V('str'),
           'response_payload': ATTR_PAYLOADS}), _operation_echoed_on_success)
c = contract(K + "_send_and_receive_message", variant="for-send-request-payload").props('C19')
c.args(self='opaque', request='opaque')
c.effect(lambda P, loc: P.event('client.send', loc['request']))
c.returns(('obj', 'kmip.core.messages.messages.ResponseMessage', {'batch_items': ('list', ITEM_V, (0, 1, 2))}))
c.may_raise_anything()
c.trust("one request written, one response read and decoded (proved piecewise: _send_message / _receive_message / "
        "ResponseMessage.read as in the one-item operations); the response holds any number of batch items, each with "
        "status, reason and message present (a failure without message is known finding F16)")


SRM = K + "_send_and_receive_message#for-send-request-payload"


def _failure_is_reported_exactly(ev, outcome, exc, path, I):
    import z3
    if outcome == 'return':
        if path.ghost.get('results', {}).get(SRM) is None:
            return "a payload is returned although nothing was received"
    resp0 = path.ghost.get('results', {}).get(SRM)
    if resp0 is not None and len(resp0.fields['batch_items']) == 1:
        from kmip.core import enums
        st = resp0.fields['batch_items'][0].fields['result_status'].fields['value']
        ok = I.truth(I.models.equals(I, st, enums.ResultStatus.SUCCESS))
        failed = ok is False or (ok is not True and path.is_valid(z3.Not(ok)))
        if failed and not (outcome == 'raise' and exc is not None and exc.cls.__name__ == 'OperationFailure'):
            return ("an unsuccessful response is not reported as OperationFailure (%s)"
                    % (exc.cls.__name__ if exc is not None else outcome))
    if outcome == 'raise' and exc is not None and exc.cls.__name__ == 'OperationFailure':
        resp = path.ghost.get('results', {}).get(SRM)
        if resp is None:
            return "OperationFailure without a response"
        it = resp.fields['batch_items'][0]
        want = [it.fields[f].fields['value'] for f in ('result_status', 'result_reason', 'result_message')]
        got = [exc.fields.get('status'), exc.fields.get('reason'), exc.args[0] if exc.args else None]
        if any(g is not w for g, w in zip(got, want)):
            return "the failure raised does not carry exactly the status, reason and message the server sent"
    return True


def _success_only_for_the_matching_single_item(ev, outcome, exc, path, I):
    import z3
    from kmip.core import enums
    if outcome != 'return':
        return True
    resp = path.ghost.get('results', {}).get(SRM)
    res = I.ghost_globals.get('__result__')
    items = resp.fields['batch_items']
    if len(items) != 1:
        return "a payload is returned for a response with %d batch items" % len(items)
    it = items[0]
    st = it.fields['result_status'].fields['value']
    ok = I.truth(I.models.equals(I, st, enums.ResultStatus.SUCCESS))
    if not (ok is True or (ok is not False and path.is_valid(ok))):
        return "a payload is returned although the status may not be Success"
    op = I.truth(I.models.equals(I, it.fields['operation'].fields['value'], I.ghost_globals['__operation__']))
    if not (op is True or (op is not False and path.is_valid(op))):
        return "a payload is returned although the response answers another operation"
    if res is not it.fields['response_payload']:
        return "the payload returned is not the one of the response's batch item"
    return True


c = contract(K + "send_request_payload").props('C19')
c.use_variant("for-send-request-payload")
c.args(self=NO_LOGIN, operation=('enum', 'kmip.core.enums.Operation'),
       payload=('oneof', ('obj', 'kmip.core.messages.payloads.DeleteAttributeRequestPayload', {}),
                ('obj', 'kmip.core.messages.payloads.SetAttributeRequestPayload', {}),
                ('obj', 'kmip.core.messages.payloads.ModifyAttributeRequestPayload', {}),
                ('obj', 'kmip.core.messages.payloads.ActivateRequestPayload', {})),
       credential='none')
c.let('__operation__', 'operation')
c.may_raise_anything()
c.trace("failure-raised-with-exact-status-reason-message", _failure_is_reported_exactly)
c.trace("payload-returned-only-for-the-single-successful-matching-item", _success_only_for_the_matching_single_item)


# ---------------------------------------------------------------- batch-item processors
# (create_key_pair, rekey_key_pair, query, discover_versions, get_attributes, get_attribute_list go
# through _process_batch_items): each processor turns one decoded batch item - successful with a
# payload, or failed without one - into a result carrying exactly its status, reason, message and
# payload fields, and raises nothing.
def _processed_item(fields):
    def t(ev, outcome, exc, path, I):
        if outcome != 'return':
            return True
        res = I.ghost_globals.get('__result__')
        it = I.ghost_globals.get('__item__')
        for f in ('result_status', 'result_reason', 'result_message'):
            if res.fields.get(f) is not it.fields.get(f):
                return "the result's %s is not the batch item's" % f
        pay = it.fields.get('response_payload')
        for rf, pf in fields.items():
            want = None if pay is None else pay.fields.get(pf)
            got = res.fields.get(rf)
            if got is want or (want is None and isinstance(got, list) and not got):
                continue
            return "the result's %s is not the %s of the response payload" % (rf, pf)
        return True
    return t


PROCESSORS = [
    ("_process_get_attributes_batch_item", {'uuid': 'unique_identifier', 'attributes': 'attributes'}),
    ("_process_get_attribute_list_batch_item", {'uid': 'unique_identifier', 'names': 'attribute_names'}),
    ("_process_create_key_pair_batch_item",
     {'private_key_uuid': 'private_key_unique_identifier', 'public_key_uuid': 'public_key_unique_identifier',
      'private_key_template_attribute': 'private_key_template_attribute',
      'public_key_template_attribute': 'public_key_template_attribute'}),
    ("_process_rekey_key_pair_batch_item",
     {'private_key_uuid': 'private_key_unique_identifier', 'public_key_uuid': 'public_key_unique_identifier',
      'private_key_template_attribute': 'private_key_template_attribute',
      'public_key_template_attribute': 'public_key_template_attribute'}),
    ("_process_query_batch_item",
     {'operations': 'operations', 'object_types': 'object_types', 'vendor_identification': 'vendor_identification',
      'server_information': 'server_information', 'application_namespaces': 'application_namespaces',
      'extension_information': 'extension_information'}),
    ("_process_discover_versions_batch_item", {'protocol_versions': 'protocol_versions'}),
    ("_process_response_error", {}),
]
for fn, fields in PROCESSORS:
    item = ('obj', 'kmip.core.messages.messages.ResponseBatchItem',
            {'operation': 'opaque', 'result_status': 'opaque', 'result_reason': ('oneof', 'none', 'opaque'),
             'result_message': ('oneof', 'none', 'opaque'),
             'response_payload': ('oneof', 'none', ('obj', 'kmip.core.primitives.Struct',
                                                    {f: 'opaque' for f in set(fields.values())}))})
    c = contract(K + fn).props('C19')
    c.args(self=NO_LOGIN, batch_item=item)
    c.let('__item__', 'batch_item')
    c.raises(None)
    c.trace("result-carries-exactly-what-the-batch-item-says", _processed_item(fields))


# ---------------------------------------------------------------- operations answering with a dictionary
# rekey, derive_key, check, encrypt, decrypt, sign, signature_verify: the dictionary carries the
# status of the first batch item, its reason and message when present (else None), and the payload's
# fields when there is a payload; a failed response (no payload) is reported, never an AttributeError.
def OPTV(k):
    return ('oneof', 'none', V(k))


def _dict_result(fields):
    def t(ev, outcome, exc, path, I):
        if outcome != 'return':
            return True
        res = I.ghost_globals.get('__result__')
        resp = path.ghost.get('results', {}).get(K + "_send_and_receive_message#dictionary-operations")
        if resp is None:
            return "a result is returned although nothing was received"
        it = resp.fields['batch_items'][0]
        if not isinstance(res, dict):
            return "the result is not a dictionary"
        if res.get('result_status') is not it.fields['result_status'].fields['value']:
            return "result_status is not the status the server sent"
        for f in ('result_reason', 'result_message'):
            w = it.fields[f]
            want = None if w is None else w.fields['value']
            if res.get(f) is not want:
                return "%s is not what the server sent" % f
        pay = it.fields.get('response_payload')
        for rf, pf in fields.items():
            if pay is None:
                if rf in res:
                    return "%s reported without a payload" % rf
                continue
            want = pay.fields.get(pf)
            if rf in res and res[rf] is not want and not isinstance(res[rf], list):
                return "%s is not the payload's %s" % (rf, pf)
        return True
    return t


def _raises_only_from_the_wire(ev, outcome, exc, path, I):
    """Whatever escapes the operation was raised while sending / receiving / decoding (a trusted
    callee that may raise): nothing is raised for a response that was received and decoded, and
    nothing before the request is sent (every argument value the signature allows is accepted)."""
    if outcome != 'raise':
        return True
    WIRE = ('_send_and_receive_message', '_send_message', '_receive_message', 'ResponseMessage.read')
    calls = [i for i, e in enumerate(ev) if e[0] == 'call' and e[1].endswith(WIRE)]
    if not calls:
        return "%s is raised before anything is sent: %s" % (exc.cls.__name__, (exc.args[0] if exc.args else ''))
    if any(e[0] == 'return' and e[1].endswith(WIRE) for e in ev[calls[-1]:]):
        return "%s is raised although a response was received and decoded: %s" % (
            exc.cls.__name__, (exc.args[0] if exc.args and isinstance(exc.args[0], str) else ''))
    return True


def _request_carries_the_arguments(op, argmap):
    """Request side: the one request sent holds one batch item of the operation asked for whose
    payload's fields are the argument values (argmap: argument -> payload property) - a legal value
    such as 0 or '' is sent, never dropped."""
    def t(ev, outcome, exc, path, I):
        import z3
        sends = [e for e in ev if e[0] == 'client.send']
        if outcome == 'return' and len(sends) != 1:
            return "%d requests sent for one call" % len(sends)
        for e in sends:
            items = I.getattr(e[1], 'batch_items')
            if len(items) != 1:
                return "the request carries %d batch items" % len(items)
            o = I.getattr(I.getattr(items[0], 'operation'), 'value')
            if getattr(o, 'name', None) != op:
                return "the request's operation is %r, not %s" % (o, op)
            pay = I.getattr(items[0], 'request_payload')
            for a, pf in argmap.items():
                want = I.ghost_globals.get('__arg_' + a)
                if pf.startswith('?'):      # judged only when the argument is given (see the note at _mac)
                    if want is None:
                        continue
                    pf = pf[1:]
                got = pay
                for part in pf.split('.'):      # 'unique_identifier.value': through the wrapping primitive
                    got = None if got is None else I.getattr(got, part)
                if got is want:
                    continue
                if got is None or want is None:
                    same = (got is None) == (want is None) if not hasattr(got if want is None else want, 'sort') else None
                    if same is None:      # an optional symbolic value against None: never here (none is a separate path)
                        same = False
                else:
                    same = I.truth(I.models.equals(I, got, want))
                if same is True or (same is not False and path.is_valid(same)):
                    continue
                return "the request's %s is not the argument %s" % (pf, a)
        return True
    return t


REQUEST_SIDE = {
    "rekey": ("REKEY", {'uuid': 'unique_identifier', 'offset': 'offset', 'template_attribute': 'template_attribute'}),
    "check": ("CHECK", {'uuid': 'unique_identifier', 'usage_limits_count': 'usage_limits_count',
                        'lease_time': 'lease_time'}),
    "derive_key": ("DERIVE_KEY", {'object_type': 'object_type', 'unique_identifiers': 'unique_identifiers',
                                  'derivation_method': 'derivation_method',
                                  'derivation_parameters': 'derivation_parameters',
                                  'template_attribute': 'template_attribute'}),
    "encrypt": ("ENCRYPT", {'data': 'data', 'unique_identifier': 'unique_identifier',
                            'cryptographic_parameters': 'cryptographic_parameters',
                            'iv_counter_nonce': 'iv_counter_nonce'}),
    "decrypt": ("DECRYPT", {'data': 'data', 'unique_identifier': 'unique_identifier',
                            'cryptographic_parameters': 'cryptographic_parameters',
                            'iv_counter_nonce': 'iv_counter_nonce'}),
    "signature_verify": ("SIGNATURE_VERIFY", {'message': 'data', 'signature': 'signature_data',
                                              'unique_identifier': 'unique_identifier',
                                              'cryptographic_parameters': 'cryptographic_parameters'}),
    "sign": ("SIGN", {'data': 'data', 'unique_identifier': 'unique_identifier',
                      'cryptographic_parameters': 'cryptographic_parameters'}),
}
DICT_OPS = [
    ("rekey", dict(uuid=('oneof', 'none', 'str'), offset=('oneof', 'none', 'int32nat'), template_attribute='none'),
     {'unique_identifier': 'unique_identifier', 'template_attribute': 'template_attribute'}),
    ("derive_key", dict(object_type=('enum', 'kmip.core.enums.ObjectType'), unique_identifiers=('const', ['1']),
                        derivation_method=('enum', 'kmip.core.enums.DerivationMethod'),
                        derivation_parameters=('obj', 'kmip.core.attributes.DerivationParameters', {}),
                        template_attribute=('obj', 'kmip.core.objects.TemplateAttribute', {})),
     {'unique_identifier': 'unique_identifier', 'template_attribute': 'template_attribute'}),
    ("check", dict(uuid='none', usage_limits_count=('oneof', 'none', 'int32nat'),
                   cryptographic_usage_mask=('oneof', 'none', ('const', [])), lease_time='none'),
     {'unique_identifier': 'unique_identifier', 'usage_limits_count': 'usage_limits_count', 'lease_time': 'lease_time'}),
    ("encrypt", dict(data='bytes', unique_identifier=('oneof', 'none', 'str'), cryptographic_parameters='none', iv_counter_nonce='none'),
     {'unique_identifier': 'unique_identifier', 'data': 'data', 'iv_counter_nonce': 'iv_counter_nonce'}),
    ("decrypt", dict(data='bytes', unique_identifier=('oneof', 'none', 'str'), cryptographic_parameters='none', iv_counter_nonce='none'),
     {'unique_identifier': 'unique_identifier', 'data': 'data'}),
    ("signature_verify", dict(message='bytes', signature='bytes', unique_identifier=('oneof', 'none', 'str'), cryptographic_parameters='none'),
     {'unique_identifier': 'unique_identifier', 'validity_indicator': 'validity_indicator'}),
    ("sign", dict(data='bytes', unique_identifier=('oneof', 'none', 'str'), cryptographic_parameters='none'),
     {'unique_identifier': 'unique_identifier', 'signature': 'signature_data'}),
]
_ALLF = sorted(set(v for _, _, f in DICT_OPS for v in f.values()) | {'cryptographic_usage_mask'})
ITEM_D = ('obj', 'kmip.core.messages.messages.ResponseBatchItem',
          {'operation': 'opaque', 'result_status': V(('enum', 'kmip.core.enums.ResultStatus')),
           'result_reason': OPTV(('enum', 'kmip.core.enums.ResultReason')), 'result_message': OPTV('str'),
           'response_payload': ('oneof', 'none', ('obj', 'kmip.core.primitives.Struct',
                                                  dict({f: 'opaque' for f in _ALLF}, cryptographic_usage_mask='none')))})
c = contract(K + "_send_and_receive_message", variant="dictionary-operations").props('C19')
c.args(self='opaque', request='opaque')
c.effect(lambda P, loc: P.event('client.send', loc['request']))
c.returns(('obj', 'kmip.core.messages.messages.ResponseMessage', {'batch_items': ('list', ITEM_D, (1, 2))}))
c.may_raise_anything()
c.trust("one request written, one response read and decoded (as above); at least one batch item; reason and message "
        "optional (a success carries neither), payload absent in a failure")
contract(K + "_build_request_message", variant="dictionary-operations").inlined()
contract(K + "_build_protocol_version", variant="dictionary-operations").inlined()
for fn, kinds, fields in DICT_OPS:
    c = contract(K + fn).props('C19')
    c.use_variant("dictionary-operations")
    c.args(self=NO_LOGIN, credential='none', **kinds)
    c.may_raise_anything()
    c.trace("dictionary-carries-exactly-what-the-first-batch-item-says", _dict_result(fields))
    c.trace("raises-only-when-the-wire-does", _raises_only_from_the_wire)
    if fn in REQUEST_SIDE:
        c.max_paths = 12000
        for a in REQUEST_SIDE[fn][1]:
            c.let('__arg_' + a, a)
        c.trace("request-carries-the-arguments", _request_carries_the_arguments(*REQUEST_SIDE[fn]))


ONE_ITEM_REQUEST_SIDE = {
    "_create": {'object_type': 'object_type', 'template_attribute': 'template_attribute'},
    "_get": {'unique_identifier': 'unique_identifier'},
    "_activate": {'unique_identifier': 'unique_identifier.value'},
    "_destroy": {'unique_identifier': 'unique_identifier.value'},
    "_revoke": {'unique_identifier': 'unique_identifier.value'},
    "_register": {'object_type': 'object_type', 'template_attribute': 'template_attribute', 'secret': 'managed_object'},
    "_locate": {'maximum_items': 'maximum_items', 'offset_items': 'offset_items'},
    # _mac wraps the identifier unconditionally: without one the request carries an EMPTY Unique
    # Identifier (UniqueIdentifier(None).value == '') instead of none.  The request is decodable, which is
    # all C19 states about requests, so the clause judges the identifier only when one is given; the
    # observation is recorded in DESIGN.md (I.7), not as a finding.
    "_mac": {'unique_identifier': '?unique_identifier.value', 'data': 'data.value'},
}
for fn, op, kinds, fields in OPS:
    c = contract(K + fn)
    c.trace("raises-only-when-the-wire-does", _raises_only_from_the_wire)
    for a in ONE_ITEM_REQUEST_SIDE[fn]:
        c.let('__arg_' + a, a)
    c.trace("request-carries-the-arguments", _request_carries_the_arguments(op, ONE_ITEM_REQUEST_SIDE[fn]))
contract(K + "send_request_payload")    # (raises TypeError / InvalidMessage / OperationFailure by design: own clauses above)


# ---------------------------------------------------------------- _process_batch_items
def _one_result_per_item_in_order(ev, outcome, exc, path, I):
    """An arbitrary iteration of the loop over the response's batch items: exactly one processor is
    applied and exactly its result is appended (so the results come in the order of the items)."""
    if outcome != 'iteration':
        return True
    rets = [e for e in ev if e[0] == 'return' and '._process_' in e[1] and e[1].endswith(('_batch_item', '_response_error'))]
    apps = [e for e in ev if e[0] == 'list.append']
    if len(rets) != 1 or len(apps) != 1:
        return "%d processors applied, %d results appended for one batch item" % (len(rets), len(apps))
    if id(apps[0][2]) != rets[0][2]:
        return "what is appended is not the processor's result"
    return True


PITEM = ('obj', 'kmip.core.messages.messages.ResponseBatchItem',
         {'operation': OPTV(('enum', 'kmip.core.enums.Operation')), 'result_status': 'opaque',
          'result_reason': ('oneof', 'none', 'opaque'), 'result_message': ('oneof', 'none', 'opaque'),
          'response_payload': ('oneof', 'none', 'opaque')})
c = contract(K + "_process_batch_items").props('C19')
c.args(self=NO_LOGIN, response=('obj', 'kmip.core.messages.messages.ResponseMessage', {'batch_items': ('slist', PITEM)}))
c.loop(0, "True", havoc={'results': ('accumulator', 'opaque')})
c.raises('ValueError')
c.trace("one-result-per-batch-item-in-order", _one_result_per_item_in_order)
c.notes.append("ValueError: a batch item of an operation this dispatcher has no processor for")
