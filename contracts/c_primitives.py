"""Contracts for kmip/core/primitives.py: lemmas L2-L4 (Base helpers) and the
C01/C02 obligations of the ten primitive codecs.

Every `write` postcondition compares with spec_ttlv.enc_* (written from the
KMIP specification), so a defect symmetric in reader and writer fails here.
Every `read` postcondition states that the consumed bytes *are* the encoding of
the decoded value (so the decoder's accepted language is the image of enc_*,
which gives decode-encode-decode for free).
"""
from vf.contracts import contract, spec_module
from contracts import spec_ttlv
from contracts.c_utils import STREAM

spec_module(spec_ttlv)

TAGS = ('enum', 'kmip.core.enums.Tags')
TYPES = ('enum', 'kmip.core.enums.Types')
P = 'kmip.core.primitives.'
BASE = ('obj', P + 'Base', {'tag': TAGS, 'type': TYPES, 'length': ('oneof', 'int', 'none')})
DECODE_ERRORS = ('struct.error', 'ValueError', 'exceptions.ReadValueError')

# ---------------------------------------------------------------- utils.bit_length / count_bytes
c = contract("kmip.core.utils.bit_length").props('C02')
c.args(num='nat')
c.ensures("result >= 0")
c.ensures("(result == 0) == (num == 0)")
c.ensures("(result <= 32) == (num < 4294967296)")
c.returns('int')
c.trust("body uses bin()/str.lstrip, outside the SMT fragment: checked by the bounded stand-in "
        "bounded/bit_length (exhaustive below 2**18 plus every power-of-two boundary up to 2**80)")

c = contract("kmip.core.utils.count_bytes").props('C02')
c.args(num='nat')
c.ensures("result >= 1")
c.ensures("(result <= 4) == (num < 4294967296)")
c.returns('int')

# ---------------------------------------------------------------- Base helpers (L2)
c = contract(P + "Base.is_oversized").props('C01', 'C12')
c.args(self=BASE, stream=STREAM)
c.raises('exceptions.StreamNotEmptyError', when="len(stream.buffer) > 0")

c = contract(P + "Base.read_tag").props('C01', 'C02')
c.args(self=BASE, istream=STREAM)
c.raises('struct.error', when="len(istream.buffer) < 3")
c.raises('ValueError', when="len(istream.buffer) >= 3 and not is_member(enums.Tags, be_int(istream.buffer[:3]))")
c.raises('exceptions.ReadValueError',
         when="len(istream.buffer) >= 3 and is_member(enums.Tags, be_int(istream.buffer[:3])) "
              "and be_int(istream.buffer[:3]) != self.tag.value")
c.ensures("istream.buffer == old(istream.buffer)[3:]", name="consumes-3")
c.ensures("old(istream.buffer)[:3] == be(3, self.tag.value)", name="tag-matched")
c.modifies("istream.buffer")

c = contract(P + "Base.read_type").props('C01', 'C02')
c.args(self=BASE, istream=STREAM)
c.raises('ValueError', when="len(istream.buffer) >= 1 and not is_member(enums.Types, istream.buffer[0])")
c.raises('exceptions.ReadValueError',
         when="len(istream.buffer) < 1 or (is_member(enums.Types, istream.buffer[0]) "
              "and istream.buffer[0] != self.type.value)")
c.ensures("istream.buffer == old(istream.buffer)[1:]", name="consumes-1")
c.ensures("old(istream.buffer)[:1] == be(1, self.type.value)", name="type-matched")
c.modifies("istream.buffer")

c = contract(P + "Base.read_length").props('C01', 'C02')
c.args(self=BASE, istream=STREAM)
c.raises('exceptions.ReadValueError', when="len(istream.buffer) < 4")
c.ensures("istream.buffer == old(istream.buffer)[4:]", name="consumes-4")
c.ensures("self.length == be_int(old(istream.buffer)[:4])", name="length-decoded")
c.ensures("0 <= self.length and self.length < 4294967296", name="length-range")
c.modifies("istream.buffer", "self.length")

c = contract(P + "Base.read").props('C01', 'C02')
c.args(self=BASE, istream=STREAM, kmip_version=('enum', 'kmip.core.enums.KMIPVersion'))
c.raises(DECODE_ERRORS,
         when="not (len(istream.buffer) >= 8 and istream.buffer[:3] == be(3, self.tag.value) "
              "and istream.buffer[3] == self.type.value)")
c.ensures("istream.buffer == old(istream.buffer)[8:]", name="consumes-8")
c.ensures("self.length == be_int(old(istream.buffer)[4:8])", name="length-decoded")
c.ensures("old(istream.buffer)[:8] == hdr(self.tag.value, self.type.value, self.length)", name="header")
c.ensures("0 <= self.length and self.length < 4294967296", name="length-range")
c.modifies("istream.buffer", "self.length")

c = contract(P + "Base.write_tag").props('C01', 'C02')
c.args(self=BASE, ostream=STREAM)
c.ensures("ostream.buffer == old(ostream.buffer) + be(3, self.tag.value)")
c.modifies("ostream.buffer")

c = contract(P + "Base.write_type").props('C01', 'C02')
c.args(self=BASE, ostream=STREAM)
c.ensures("ostream.buffer == old(ostream.buffer) + be(1, self.type.value)")
c.modifies("ostream.buffer")

c = contract(P + "Base.write_length").props('C01', 'C02')
c.args(self=('obj', P + 'Base', {'tag': TAGS, 'type': TYPES, 'length': 'nat'}), ostream=STREAM)
c.raises('exceptions.WriteOverflowError', when="self.length >= 4294967296")
c.ensures("ostream.buffer == old(ostream.buffer) + be(4, self.length)")
c.modifies("ostream.buffer")

c = contract(P + "Base.write").props('C01', 'C02')
c.args(self=('obj', P + 'Base', {'tag': TAGS, 'type': TYPES, 'length': 'nat'}), ostream=STREAM,
       kmip_version=('enum', 'kmip.core.enums.KMIPVersion'))
c.raises('exceptions.WriteOverflowError', when="self.length >= 4294967296")
c.ensures("ostream.buffer == old(ostream.buffer) + hdr(self.tag.value, self.type.value, self.length)")
c.modifies("ostream.buffer")

c = contract(P + "Base.is_tag_next").props('C01')
c.args(tag=TAGS, stream=STREAM)
c.ensures("result == (len(stream.buffer) >= 3 and stream.buffer[:3] == be(3, tag.value))")

c = contract(P + "Base.is_type_next").props('C01')
c.args(kmip_type=TYPES, stream=STREAM)
c.ensures("result == (len(stream.buffer) >= 4 and stream.buffer[3] == kmip_type.value)")
