"""Contracts for kmip/core/primitives.py: lemmas L2-L4 (Base helpers) and the
C01/C02 obligations of the ten primitive codecs.

Every `write` postcondition compares with spec_ttlv.enc_* (written from the
KMIP specification), so a defect symmetric in reader and writer fails here.
Every `read` postcondition states that the consumed bytes *are* the encoding of
the decoded value (so the decoder's accepted language is the image of enc_*,
which gives decode-encode-decode for free).
"""
from vf.contracts import contract, spec_module
from contracts import spec_ttlv
from contracts.c_utils import STREAM

spec_module(spec_ttlv)

TAGS = ('enum', 'kmip.core.enums.Tags')
TYPES = ('enum', 'kmip.core.enums.Types')
P = 'kmip.core.primitives.'
BASE = ('obj', P + 'Base', {'tag': TAGS, 'type': TYPES, 'length': ('oneof', 'int', 'none')})
DECODE_ERRORS = ('struct.error', 'ValueError', 'exceptions.ReadValueError')

# ---------------------------------------------------------------- utils.bit_length / count_bytes
c = contract("kmip.core.utils.bit_length").props('C02')
c.args(num='nat')
c.ensures("result >= 0")
c.ensures("(result == 0) == (num == 0)")
c.ensures("(result <= 32) == (num < 4294967296)")
c.returns('int')
c.trust("body uses bin()/str.lstrip, outside the SMT fragment: checked by the bounded stand-in "
        "bounded/bit_length (exhaustive below 2**18 plus every power-of-two boundary up to 2**80)")

c = contract("kmip.core.utils.count_bytes").props('C02')
c.args(num='nat')
c.ensures("result >= 1")
c.ensures("(result <= 4) == (num < 4294967296)")
c.returns('int')

# ---------------------------------------------------------------- Base helpers (L2)
c = contract(P + "Base.is_oversized").props('C01', 'C12')
c.args(self=BASE, stream=STREAM)
c.raises('exceptions.StreamNotEmptyError', when="len(stream.buffer) > 0")

c = contract(P + "Base.read_tag").props('C01', 'C02')
c.args(self=BASE, istream=STREAM)
c.raises('struct.error', when="len(istream.buffer) < 3")
c.raises('ValueError', when="len(istream.buffer) >= 3 and not is_member(enums.Tags, be_int(istream.buffer[:3]))")
c.raises('exceptions.ReadValueError',
         when="len(istream.buffer) >= 3 and is_member(enums.Tags, be_int(istream.buffer[:3])) "
              "and be_int(istream.buffer[:3]) != self.tag.value")
c.ensures("istream.buffer == old(istream.buffer)[3:]", name="consumes-3")
c.ensures("old(istream.buffer)[:3] == be(3, self.tag.value)", name="tag-matched")
c.modifies("istream.buffer")

c = contract(P + "Base.read_type").props('C01', 'C02')
c.args(self=BASE, istream=STREAM)
c.raises('ValueError', when="len(istream.buffer) >= 1 and not is_member(enums.Types, istream.buffer[0])")
c.raises('exceptions.ReadValueError',
         when="len(istream.buffer) < 1 or (is_member(enums.Types, istream.buffer[0]) "
              "and istream.buffer[0] != self.type.value)")
c.ensures("istream.buffer == old(istream.buffer)[1:]", name="consumes-1")
c.ensures("old(istream.buffer)[:1] == be(1, self.type.value)", name="type-matched")
c.modifies("istream.buffer")

c = contract(P + "Base.read_length").props('C01', 'C02')
c.args(self=BASE, istream=STREAM)
c.raises('exceptions.ReadValueError', when="len(istream.buffer) < 4")
c.ensures("istream.buffer == old(istream.buffer)[4:]", name="consumes-4")
c.ensures("self.length == be_int(old(istream.buffer)[:4])", name="length-decoded")
c.ensures("0 <= self.length and self.length < 4294967296", name="length-range")
c.modifies("istream.buffer", "self.length")

c = contract(P + "Base.read").props('C01', 'C02')
c.args(self=BASE, istream=STREAM, kmip_version=('enum', 'kmip.core.enums.KMIPVersion'))
c.raises(DECODE_ERRORS,
         when="not (len(istream.buffer) >= 8 and istream.buffer[:3] == be(3, self.tag.value) "
              "and istream.buffer[3] == self.type.value)")
c.ensures("istream.buffer == old(istream.buffer)[8:]", name="consumes-8")
c.ensures("self.length == be_int(old(istream.buffer)[4:8])", name="length-decoded")
c.ensures("old(istream.buffer)[:8] == hdr(self.tag.value, self.type.value, self.length)", name="header")
c.ensures("0 <= self.length and self.length < 4294967296", name="length-range")
c.modifies("istream.buffer", "self.length")

c = contract(P + "Base.write_tag").props('C01', 'C02')
c.args(self=BASE, ostream=STREAM)
c.ensures("ostream.buffer == old(ostream.buffer) + be(3, self.tag.value)")
c.modifies("ostream.buffer")

c = contract(P + "Base.write_type").props('C01', 'C02')
c.args(self=BASE, ostream=STREAM)
c.ensures("ostream.buffer == old(ostream.buffer) + be(1, self.type.value)")
c.modifies("ostream.buffer")

c = contract(P + "Base.write_length").props('C01', 'C02')
c.args(self=('obj', P + 'Base', {'tag': TAGS, 'type': TYPES, 'length': 'nat'}), ostream=STREAM)
c.raises('exceptions.WriteOverflowError', when="self.length >= 4294967296")
c.ensures("ostream.buffer == old(ostream.buffer) + be(4, self.length)")
c.modifies("ostream.buffer")

c = contract(P + "Base.write").props('C01', 'C02')
c.args(self=('obj', P + 'Base', {'tag': TAGS, 'type': TYPES, 'length': 'nat'}), ostream=STREAM,
       kmip_version=('enum', 'kmip.core.enums.KMIPVersion'))
c.raises('exceptions.WriteOverflowError', when="self.length >= 4294967296")
c.ensures("ostream.buffer == old(ostream.buffer) + hdr(self.tag.value, self.type.value, self.length)")
c.modifies("ostream.buffer")

c = contract(P + "Base.is_tag_next").props('C01')
c.args(tag=TAGS, stream=STREAM)
c.ensures("result == (len(stream.buffer) >= 3 and stream.buffer[:3] == be(3, tag.value))")

c = contract(P + "Base.is_type_next").props('C01')
c.args(kmip_type=TYPES, stream=STREAM)
c.ensures("result == (len(stream.buffer) >= 4 and stream.buffer[3] == kmip_type.value)")

# ---------------------------------------------------------------- the primitives (L3)
KV = ('enum', 'kmip.core.enums.KMIPVersion')
INT32 = "(-2147483648 <= self.value and self.value <= 2147483647)"

# ---- Integer
INTEGER = ('ctor', P + 'Integer', {'value': ('opt', 'int'), 'tag': TAGS})

c = contract(P + "Integer.__init__").props('C01')
c.args(self=('obj', P + 'Integer', {}), value=('opt', 'int'), tag=TAGS)
c.raises('ValueError', when="value is not None and (value > 2147483647 or value < -2147483648)")
c.ensures("self.value == (0 if value is None else value)", name="value")
c.ensures("self.length == 4 and self.padding_length == 4 and self.pack_string == '!i'", name="lengths")
c.ensures("self.tag == tag and self.type == enums.Types.INTEGER", name="tag-type")
c.modifies("self.*")

c = contract(P + "Integer.validate").props('C01')
c.args(self=('obj', P + 'Integer', {'value': ('opt', 'int')}))
c.raises('ValueError', when="self.value is not None and (self.value > 2147483647 or self.value < -2147483648)")

c = contract(P + "Integer.write_value").props('C01', 'C02')
c.args(self=INTEGER, ostream=STREAM, kmip_version=KV)
c.ensures("ostream.buffer == old(ostream.buffer) + be(4, twos(32, self.value)) + zeros(4)")
c.modifies("ostream.buffer")

c = contract(P + "Integer.write").props('C01', 'C02')
c.args(self=INTEGER, ostream=STREAM, kmip_version=KV)
c.ensures("ostream.buffer == old(ostream.buffer) + enc_integer(self.tag, self.value)", name="spec-encoding")
c.modifies("ostream.buffer")

c = contract(P + "Integer.read_value").props('C01', 'C02')
c.args(self=('obj', P + 'Integer', {'value': 'int', 'tag': TAGS, 'type': ('const', 'T:INTEGER'),
                                   'length': 'nat', 'padding_length': ('const', 4),
                                   'pack_string': ('const', '!i')}), istream=STREAM)
c.raises(DECODE_ERRORS,
         when="not (self.length == 4 and len(istream.buffer) >= 8 and istream.buffer[4:8] == zeros(4))")
c.ensures("old(istream.buffer)[:8] == be(4, twos(32, self.value)) + zeros(4)", name="value-decoded")
c.ensures("istream.buffer == old(istream.buffer)[8:]", name="consumes-8")
c.ensures(INT32, name="range")
c.modifies("istream.buffer", "self.value")

c = contract(P + "Integer.read").props('C01', 'C02')
c.args(self=INTEGER, istream=STREAM, kmip_version=KV)
c.raises(DECODE_ERRORS,
         when="not (len(istream.buffer) >= 16 and istream.buffer[:8] == hdr(self.tag.value, 2, 4) "
              "and istream.buffer[12:16] == zeros(4))")
c.ensures("old(istream.buffer)[:16] == enc_integer(self.tag, self.value)", name="consumed-is-encoding")
c.ensures("istream.buffer == old(istream.buffer)[16:]", name="consumes-16")
c.ensures(INT32, name="range")
c.modifies("istream.buffer", "self.value", "self.length")

c = contract(P + "Integer.__eq__").props('C01')
c.args(self=INTEGER, other=INTEGER)
c.ensures("result == (self.value == other.value)")

# ---- LongInteger / DateTime
LONG = ('ctor', P + 'LongInteger', {'value': 'int', 'tag': TAGS})
INT64 = "(-9223372036854775808 <= self.value and self.value <= 9223372036854775807)"

c = contract(P + "LongInteger.__init__").props('C01')
c.args(self=('obj', P + 'LongInteger', {}), value='int', tag=TAGS)
c.raises('ValueError', when="value > 9223372036854775807 or value < -9223372036854775808")
c.ensures("self.value == value and self.length == 8", name="fields")
c.ensures("self.tag == tag and self.type == enums.Types.LONG_INTEGER", name="tag-type")
c.modifies("self.*")

c = contract(P + "LongInteger.write").props('C01', 'C02')
c.args(self=LONG, ostream=STREAM, kmip_version=KV)
c.ensures("ostream.buffer == old(ostream.buffer) + enc_long_integer(self.tag, self.value)", name="spec-encoding")
c.modifies("ostream.buffer")

c = contract(P + "LongInteger.read").props('C01', 'C02')
c.args(self=LONG, istream=STREAM, kmip_version=KV)
c.raises(DECODE_ERRORS + ('exceptions.InvalidPrimitiveLength',),
         when="not (len(istream.buffer) >= 16 and istream.buffer[:8] == hdr(self.tag.value, 3, 8))")
c.ensures("old(istream.buffer)[:16] == enc_long_integer(self.tag, self.value)", name="consumed-is-encoding")
c.ensures("istream.buffer == old(istream.buffer)[16:]", name="consumes-16")
c.ensures(INT64, name="range")
c.modifies("istream.buffer", "self.value", "self.length")

c = contract(P + "LongInteger.__eq__").props('C01')
c.args(self=LONG, other=LONG)
c.ensures("result == (self.value == other.value)")

DATE = ('ctor', P + 'DateTime', {'value': ('opt', 'int'), 'tag': TAGS})
c = contract(P + "DateTime.__init__").props('C01')
c.args(self=('obj', P + 'DateTime', {}), value='int', tag=TAGS)
c.raises('ValueError', when="value > 9223372036854775807 or value < -9223372036854775808")
c.ensures("self.value == value and self.length == 8", name="fields")
c.ensures("self.tag == tag and self.type == enums.Types.DATE_TIME", name="tag-type")
c.modifies("self.*")

# ---- Enumeration
ENUMN = ('obj', P + 'Enumeration', {'value': ('enum', 'kmip.core.enums.CryptographicAlgorithm'),
                                    'enum': ('const', 'E:CryptographicAlgorithm'), 'tag': TAGS,
                                    'type': ('const', 'T:ENUMERATION'), 'length': ('const', 4)})

c = contract(P + "Enumeration.write").props('C01', 'C02')
c.args(self=ENUMN, ostream=STREAM, kmip_version=KV)
c.ensures("ostream.buffer == old(ostream.buffer) + enc_enumeration(self.tag, self.value.value)", name="spec-encoding")
c.modifies("ostream.buffer")

c = contract(P + "Enumeration.read").props('C01', 'C02')
c.args(self=ENUMN, istream=STREAM, kmip_version=KV)
c.raises(DECODE_ERRORS + ('exceptions.InvalidPrimitiveLength', 'exceptions.InvalidPaddingBytes'),
         when="not (len(istream.buffer) >= 16 and istream.buffer[:8] == hdr(self.tag.value, 5, 4) "
              "and is_member(self.enum, be_int(istream.buffer[8:12])) and istream.buffer[12:16] == zeros(4))")
c.ensures("old(istream.buffer)[:16] == enc_enumeration(self.tag, self.value.value)", name="consumed-is-encoding")
c.ensures("istream.buffer == old(istream.buffer)[16:]", name="consumes-16")
c.modifies("istream.buffer", "self.value", "self.length")

# ---- Boolean
BOOL = ('ctor', P + 'Boolean', {'value': 'bool', 'tag': TAGS})

c = contract(P + "Boolean.write").props('C01', 'C02')
c.args(self=BOOL, ostream=STREAM, kmip_version=KV)
c.ensures("ostream.buffer == old(ostream.buffer) + enc_boolean(self.tag, self.value)", name="spec-encoding")
c.modifies("ostream.buffer")

c = contract(P + "Boolean.read").props('C01', 'C02')
c.args(self=BOOL, istream=STREAM, kmip_version=KV)
c.raises(DECODE_ERRORS,
         when="not (len(istream.buffer) >= 16 and istream.buffer[:3] == be(3, self.tag.value) "
              "and istream.buffer[3] == 6 and be_int(istream.buffer[8:16]) <= 1)")
c.ensures("old(istream.buffer)[:16] == hdr(self.tag.value, 6, self.length) + be(8, ite(self.value, 1, 0))",
          name="consumed-is-encoding-modulo-length")
c.ensures("istream.buffer == old(istream.buffer)[16:]", name="consumes-16")
c.ensures("type_is(self.value, bool)", name="bool")
c.modifies("istream.buffer", "self.value", "self.length")

# ---- Interval
INTERVAL = ('ctor', P + 'Interval', {'value': 'int', 'tag': TAGS})

c = contract(P + "Interval.write").props('C01', 'C02')
c.args(self=INTERVAL, ostream=STREAM, kmip_version=KV)
c.ensures("ostream.buffer == old(ostream.buffer) + enc_interval(self.tag, self.value)", name="spec-encoding")
c.modifies("ostream.buffer")

c = contract(P + "Interval.read").props('C01', 'C02')
c.args(self=INTERVAL, istream=STREAM, kmip_version=KV)
c.raises(DECODE_ERRORS + ('exceptions.InvalidPrimitiveLength', 'exceptions.InvalidPaddingBytes'),
         when="not (len(istream.buffer) >= 16 and istream.buffer[:8] == hdr(self.tag.value, 10, 4) "
              "and istream.buffer[12:16] == zeros(4))")
c.ensures("old(istream.buffer)[:16] == enc_interval(self.tag, self.value)", name="consumed-is-encoding")
c.ensures("istream.buffer == old(istream.buffer)[16:]", name="consumes-16")
c.ensures("0 <= self.value and self.value < 4294967296", name="range")
c.modifies("istream.buffer", "self.value", "self.length")

# ---------------------------------------------------------------- variable-length primitives
BYTESTR = ('ctor', P + 'ByteString', {'value': ('opt', 'bytes'), 'tag': TAGS})

c = contract(P + "ByteString.__init__").props('C01')
c.args(self=('obj', P + 'ByteString', {}), value=('opt', 'bytes'), tag=TAGS)
c.ensures("self.value == (b'' if value is None else value)", name="value")
c.ensures("self.length == len(self.value) and self.padding_length == pad_len(len(self.value))", name="lengths")
c.ensures("self.tag == tag and self.type == enums.Types.BYTE_STRING", name="tag-type")
c.modifies("self.*")

c = contract(P + "ByteString.write_value").props('C01', 'C02')
c.args(self=BYTESTR, ostream=STREAM, kmip_version=KV)
c.loop(0, "ostream.buffer == old(ostream.buffer) + done", modifies=["ostream.buffer"])
c.ensures("ostream.buffer == old(ostream.buffer) + self.value + zeros(pad_len(len(self.value)))")
c.modifies("ostream.buffer")

c = contract(P + "ByteString.write").props('C01', 'C02')
c.args(self=BYTESTR, ostream=STREAM, kmip_version=KV)
c.raises('exceptions.WriteOverflowError', when="len(self.value) >= 4294967296")
c.ensures("ostream.buffer == old(ostream.buffer) + enc_byte_string(self.tag, self.value)", name="spec-encoding")
c.modifies("ostream.buffer")

BYTESTR_RAW = ('obj', P + 'ByteString', {'value': 'bytes', 'tag': TAGS, 'type': ('const', 'T:BYTE_STRING'),
                                          'length': 'nat', 'padding_length': 'nat'})
c = contract(P + "ByteString.read_value").props('C01', 'C02')
c.args(self=BYTESTR_RAW, istream=STREAM, kmip_version=KV)
c.loop(0, ["old(istream.buffer) == data + istream.buffer", "len(data) == _i"],
       modifies=["istream.buffer"], havoc={'data': ('mutbytes',)})
c.raises(('IndexError', 'struct.error', 'exceptions.ReadValueError'),
         when="not (len(istream.buffer) >= self.length + pad_len(self.length) and "
              "istream.buffer[self.length:self.length + pad_len(self.length)] == zeros(pad_len(self.length)))")
c.ensures("old(istream.buffer) == self.value + zeros(pad_len(len(self.value))) + istream.buffer",
          name="consumed-is-padded-value")
c.ensures("len(self.value) == self.length", name="length")
c.ensures("self.padding_length == pad_len(self.length)", name="representation-invariant")
c.modifies("istream.buffer", "self.value", "self.padding_length")

c = contract(P + "ByteString.read").props('C01', 'C02')
c.args(self=BYTESTR, istream=STREAM, kmip_version=KV)
c.raises(DECODE_ERRORS + ('IndexError',),
         when="not (len(istream.buffer) >= 8 and istream.buffer[:4] == be(3, self.tag.value) + be(1, 8) and "
              "len(istream.buffer) >= 8 + padded(be_int(istream.buffer[4:8])) and "
              "istream.buffer[8 + be_int(istream.buffer[4:8]): 8 + padded(be_int(istream.buffer[4:8]))] "
              "== zeros(pad_len(be_int(istream.buffer[4:8]))))")
c.ensures("old(istream.buffer) == enc_byte_string(self.tag, self.value) + istream.buffer",
          name="consumed-is-encoding")
c.ensures("self.length == len(self.value) and self.padding_length == pad_len(len(self.value))",
          name="representation-invariant")
c.modifies("istream.buffer", "self.value", "self.length", "self.padding_length")

# the writers are also proved for *any* object that satisfies the representation invariant (which
# __init__ and read establish), not only for freshly constructed ones: a decoded value re-encodes
INV = "self.length == len(self.value) and self.padding_length == pad_len(len(self.value))"
c = contract(P + "ByteString.write_value", variant="any-valid-object").props('C01', 'C02')
c.args(self=BYTESTR_RAW, ostream=STREAM, kmip_version=KV)
c.requires(INV)
c.loop(0, "ostream.buffer == old(ostream.buffer) + done", modifies=["ostream.buffer"])
c.ensures("ostream.buffer == old(ostream.buffer) + self.value + zeros(pad_len(len(self.value)))")
c.modifies("ostream.buffer")
c = contract(P + "ByteString.write", variant="any-valid-object").props('C01', 'C02')
c.args(self=BYTESTR_RAW, ostream=STREAM, kmip_version=KV)
c.requires(INV)
c.use_variant("any-valid-object")
c.raises('exceptions.WriteOverflowError', when="len(self.value) >= 4294967296")
c.ensures("ostream.buffer == old(ostream.buffer) + enc_byte_string(self.tag, self.value)", name="spec-encoding")
c.modifies("ostream.buffer")

# ---- TextString.  KMIP text strings are UTF-8; this implementation packs one
# byte per *character* ('!c' of char.encode()), so only code points < 128 are
# encodable.  The contracts below are stated for such text ("ascii"); that the
# constructor accepts more than `write` can encode is obligation
# C01/TextString.encodable (finding F6).
TEXT = ('ctor', P + 'TextString', {'value': ('opt', 'ascii'), 'tag': TAGS})

c = contract(P + "TextString.__init__").props('C01')
c.args(self=('obj', P + 'TextString', {}), value=('opt', 'str'), tag=TAGS)
c.ensures("self.value == ('' if value is None else value)", name="value")
c.ensures("self.length == len(self.value) and self.padding_length == pad_len(len(self.value))", name="lengths")
c.ensures("self.tag == tag and self.type == enums.Types.TEXT_STRING", name="tag-type")
c.modifies("self.*")

c = contract(P + "TextString.write_value").props('C01', 'C02')
c.args(self=TEXT, ostream=STREAM, kmip_version=KV)
c.loop(0, "ostream.buffer == old(ostream.buffer) + text_bytes(done)", modifies=["ostream.buffer"])
c.ensures("ostream.buffer == old(ostream.buffer) + text_bytes(self.value) + zeros(pad_len(len(self.value)))")
c.modifies("ostream.buffer")

c = contract(P + "TextString.write").props('C01', 'C02')
c.args(self=TEXT, ostream=STREAM, kmip_version=KV)
c.raises('exceptions.WriteOverflowError', when="len(self.value) >= 4294967296")
c.ensures("ostream.buffer == old(ostream.buffer) + enc_text_string(self.tag, self.value)", name="spec-encoding")
c.modifies("ostream.buffer")

TEXT_RAW = ('obj', P + 'TextString', {'value': 'str', 'tag': TAGS, 'type': ('const', 'T:TEXT_STRING'),
                                      'length': 'nat', 'padding_length': 'nat'})
TEXT_DECODE_ERRORS = DECODE_ERRORS + ('UnicodeDecodeError',)

c = contract(P + "TextString.read_value").props('C01', 'C02')
c.args(self=TEXT_RAW, istream=STREAM, kmip_version=KV)
c.loop(0, ["old(istream.buffer) == text_bytes(self.value) + istream.buffer", "len(self.value) == _i",
           "forall_elems(self.value, 0, 127)"],
       modifies=["istream.buffer", "self.value"], havoc={'self.value': 'ascii'})
c.raises(TEXT_DECODE_ERRORS)
c.ensures("old(istream.buffer) == text_bytes(self.value) + zeros(pad_len(len(self.value))) + istream.buffer",
          name="consumed-is-padded-value")
c.ensures("len(self.value) == self.length and forall_elems(self.value, 0, 127)", name="length-ascii")
c.ensures("self.padding_length == pad_len(self.length)", name="representation-invariant")
c.modifies("istream.buffer", "self.value", "self.padding_length")

c = contract(P + "TextString.read").props('C01', 'C02')
c.args(self=TEXT, istream=STREAM, kmip_version=KV)
c.raises(TEXT_DECODE_ERRORS)
c.ensures("old(istream.buffer) == enc_text_string(self.tag, self.value) + istream.buffer",
          name="consumed-is-encoding")
c.ensures("forall_elems(self.value, 0, 127)", name="ascii")
c.ensures("self.length == len(self.value) and self.padding_length == pad_len(len(self.value))",
          name="representation-invariant")
c.modifies("istream.buffer", "self.value", "self.length", "self.padding_length")

TEXT_RAW_ASCII = ('obj', P + 'TextString', {'value': 'ascii', 'tag': TAGS, 'type': ('const', 'T:TEXT_STRING'),
                                            'length': 'nat', 'padding_length': 'nat'})
c = contract(P + "TextString.write_value", variant="any-valid-object").props('C01', 'C02')
c.args(self=TEXT_RAW_ASCII, ostream=STREAM, kmip_version=KV)
c.requires(INV)
c.loop(0, "ostream.buffer == old(ostream.buffer) + text_bytes(done)", modifies=["ostream.buffer"])
c.ensures("ostream.buffer == old(ostream.buffer) + text_bytes(self.value) + zeros(pad_len(len(self.value)))")
c.modifies("ostream.buffer")
c = contract(P + "TextString.write", variant="any-valid-object").props('C01', 'C02')
c.args(self=TEXT_RAW_ASCII, ostream=STREAM, kmip_version=KV)
c.requires(INV)
c.use_variant("any-valid-object")
c.raises('exceptions.WriteOverflowError', when="len(self.value) >= 4294967296")
c.ensures("ostream.buffer == old(ostream.buffer) + enc_text_string(self.tag, self.value)", name="spec-encoding")
c.modifies("ostream.buffer")

# C02 for text that is NOT restricted to ASCII: whatever the writer emits is as long as the length
# field and padding (computed by __init__ / read from the number of characters) say - or it raises
# and emits no complete item.  (For ASCII text the variants above give the exact bytes.)
c = contract(P + "TextString.write_value", variant="any-text").props('C02')
c.args(self=TEXT_RAW, ostream=STREAM, kmip_version=KV)
c.requires(INV)
c.loop(0, "len(ostream.buffer) == len(old(ostream.buffer)) + len(done)", modifies=["ostream.buffer"])
c.raises('struct.error')
c.ensures("len(ostream.buffer) == len(old(ostream.buffer)) + self.length + self.padding_length",
          name="emits-exactly-the-declared-number-of-bytes")
c.modifies("ostream.buffer")

# completeness ("accepts every encoding"): ghost witnesses v0, rest0
c = contract(P + "TextString.read_value", variant="accepts").props('C01')
c.args(self=TEXT_RAW, istream=STREAM, kmip_version=KV)
c.let('v0', 'ascii').let('rest0', 'bytes')
c.requires("self.length == len(v0)")
c.requires("istream.buffer == text_bytes(v0) + zeros(pad_len(len(v0))) + rest0")
c.loop(0, ["v0 == self.value + rem", "istream.buffer == text_bytes(rem) + zeros(pad_len(len(v0))) + rest0",
           "len(self.value) == _i"],
       modifies=["istream.buffer", "self.value"], havoc={'self.value': 'ascii'},
       ghost_init={'rem': 'v0'}, ghost_step={'rem': 'rem[1:]'})
c.ensures("self.value == v0 and istream.buffer == rest0")
c.modifies("istream.buffer", "self.value", "self.padding_length")

c = contract(P + "TextString.read", variant="accepts").props('C01')
c.args(self=TEXT, istream=STREAM, kmip_version=KV)
c.let('v0', 'ascii').let('rest0', 'bytes')
c.requires("len(v0) < 4294967296")
c.requires("istream.buffer == enc_text_string(self.tag, v0) + rest0")
c.use_variant('accepts')
c.ensures("self.value == v0 and istream.buffer == rest0")
c.modifies("istream.buffer", "self.value", "self.length", "self.padding_length")
