"""_process_template_attribute: proved (not assumed) to raise nothing but the three KMIP errors it
names and to leave the store alone, for a template with any number of attributes of every kind
the decoders produce.  What callers additionally rely on - that the dictionary returned maps
attribute names to the decoded value objects - is the typing invariant of the loop (its havoc
kind), which the executor assumes and does not prove."""
from vf.contracts import contract
from contracts import c_attributes
from contracts.c_engine import ENGINE, E, ATTRS

c = contract(E + "_process_template_attribute", variant="body").props('C13', 'C08')
c.args(self=ENGINE, template_attribute=('obj', 'kmip.core.objects.TemplateAttribute',
                                        {'names': ('list', 'opaque', (0, 1)),
                                         'attributes': ('slist', c_attributes.ANY_ATTRIBUTE_1X)}))
c.loop(0, "True", havoc={'attributes': ATTRS})
c.raises(('exceptions.ItemNotFound', 'exceptions.InvalidField', 'exceptions.IndexOutOfBounds'))
c.trace("no-store-effect", lambda ev, outcome, exc: True if not any(e[0].startswith('db.') for e in ev)
        else "template attribute processing touches the store")


def t_version_gate(ev, outcome, exc, path, I):
    """C16: an attribute is taken over from the template only if the request's protocol version
    already defines it (the rule table's version_added)."""
    if outcome != 'iteration':
        return True
    items = [e for e in ev if e[0] == 'loop.item' and e[1] == 0]
    if not items:
        return True
    name = items[-1][2].fields['attribute_name'].fields['value']
    pol = I.ghost_globals['__self__'].fields.get('_attribute_policy')
    if pol is None:
        return "attribute %r accepted without consulting the rules of the request's version" % (name,)
    rs = pol._attribute_rule_sets.get(name)
    if rs is None or not (pol._version >= rs.version_added):
        return "attribute %r is accepted under KMIP %s, which does not define it" % (name, pol._version)
    return True


c.let('__self__', 'self')
c.props('C16')
c.trace("template-attributes-are-defined-by-the-requests-version", t_version_gate)
c.scope('trace.template-attributes', 'C16')
