"""_process_template_attribute: proved (not assumed) to raise nothing but the three KMIP errors it
names and to leave the store alone, for a template with any number of attributes of every kind
the decoders produce.  What callers additionally rely on - that the dictionary returned maps
attribute names to the decoded value objects - is the typing invariant of the loop (its havoc
kind), which the executor assumes and does not prove."""
from vf.contracts import contract
from contracts import c_attributes
from contracts.c_engine import ENGINE, E, ATTRS

c = contract(E + "_process_template_attribute", variant="body").props('C13', 'C08')
c.args(self=ENGINE, template_attribute=('obj', 'kmip.core.objects.TemplateAttribute',
                                        {'names': ('list', 'opaque', (0, 1)),
                                         'attributes': ('slist', c_attributes.ANY_ATTRIBUTE_1X)}))
c.loop(0, "True", havoc={'attributes': ATTRS})
c.raises(('exceptions.ItemNotFound', 'exceptions.InvalidField', 'exceptions.IndexOutOfBounds'))
c.trace("no-store-effect", lambda ev, outcome, exc: True if not any(e[0].startswith('db.') for e in ev)
        else "template attribute processing touches the store")


def t_version_gate(ev, outcome, exc, path, I):
    """C16: an attribute is taken over from the template only if the request's protocol version
    already defines it (the rule table's version_added)."""
    if outcome != 'iteration':
        return True
    items = [e for e in ev if e[0] == 'loop.item' and e[1] == 0]
    if not items:
        return True
    name = items[-1][2].fields['attribute_name'].fields['value']
    pol = I.ghost_globals['__self__'].fields.get('_attribute_policy')
    if pol is None:
        return "attribute %r accepted without consulting the rules of the request's version" % (name,)
    rs = pol._attribute_rule_sets.get(name)
    if rs is None or not (pol._version >= rs.version_added):
        return "attribute %r is accepted under KMIP %s, which does not define it" % (name, pol._version)
    return True


def t_instances_keep_their_order(ev, outcome, exc, path):
    """C05: the instances of a multivalued attribute are stored in the order the request gives them
    (GetAttributes reports them by position): a value is only ever added at the end of its list."""
    for e in ev:
        if e[0] == 'list.insert':
            pos, n = e[2], e[4]
            at_end = (pos == n) if isinstance(pos, int) else (hasattr(pos, 't') and path.is_valid(pos.t >= n))
            if not at_end:
                return "an attribute instance is inserted in front of instances that arrived earlier"
    return True


c.trace("instances-keep-the-order-of-the-request", t_instances_keep_their_order)
c.scope('trace.instances-keep', 'C05', 'C08')
c.let('__self__', 'self')
c.props('C16', 'C05')
c.trace("template-attributes-are-defined-by-the-requests-version", t_version_gate)
c.scope('trace.template-attributes', 'C16')


# ---------------------------------------------------------------- _set_attributes_on_managed_object
# proved for an attribute dictionary with ANY number of entries (arbitrary entry: any name of the
# rule table with a value of that name's kind, or an unknown name) on a new object of any stored
# class: it raises nothing but InvalidField and never touches the store.
def _typed_attribute_dictionary():
    from contracts.c_engine import _attr_value_kinds
    # the values are only handed on to _set_attribute_on_managed_object (used by its contract), so
    # they stay as abstract as the template processing leaves them
    return ('sdict', ('bykey', dict(_attr_value_kinds())))


c = contract(E + "_set_attributes_on_managed_object", variant="body").props('C13', 'C08')
c.args(self=ENGINE, managed_object=('managed_fresh',), attributes=_typed_attribute_dictionary())
c.notes.append("any number of entries; the per-attribute setter is used by its contract")
c.loop(0, "True", modifies=["managed_object.*"])
c.raises('exceptions.InvalidField')
c.trace("no-store-effect", lambda ev, outcome, exc: True if not any(
    e[0] in ('db.add', 'db.delete', 'db.commit', 'db.query') or (e[0] == 'db.mutate' and e[5]) for e in ev)
    else "setting attributes on a new object touches the store")
c.modifies("managed_object.*")
c.max_paths = 40000
c.split_by = [('fresh-class', 7), ('protocol-version', 6)]
