"""C01 (KMIP 2.0 attribute references): the two converters between attribute names and tags are
inverse on the attribute table - every name of the table maps to its tag and back, every attribute
tag maps to its name and back.  Proved over the whole (finite) table, entry by entry, on the real
functions; outside the table both raise ValueError."""
from kmip.core import enums as _enums
from vf.contracts import contract, spec_module
import sys

TABLE = {n: t for n, t in _enums.attribute_name_tag_table}
NAME_OF = {t: n for n, t in _enums.attribute_name_tag_table}
N = "kmip.core.enums."
spec_module(sys.modules[__name__])

c = contract(N + "convert_attribute_name_to_tag").props("C01")
c.args(value=('oneof',) + tuple(('const', n) for n in sorted(TABLE)) + (('const', 'No Such Attribute'), ('const', 'x-custom')))
c.raises('ValueError', when="value not in TABLE")
c.ensures("result is TABLE[value]", name="the-tag-of-the-table-entry")

c = contract(N + "convert_attribute_tag_to_name").props("C01")
c.args(value=('oneof',) + tuple(('const', t) for t in sorted(NAME_OF, key=lambda t: t.value)) +
       (('const', _enums.Tags.BATCH_ITEM),))
c.raises('ValueError', when="value not in NAME_OF")
c.ensures("result == NAME_OF[value]", name="the-name-of-the-table-entry")
