"""Response-payload constructors the handler contracts use through short trusted contracts
("stores the identifier string"): here the same statement is proved against the real constructor
bodies (variant `body`), so the trusted text at the call sites is a proved one."""
from vf.contracts import contract

PL = "kmip.core.messages.payloads."
for mod, cls in (("register", "RegisterResponsePayload"), ("derive_key", "DeriveKeyResponsePayload")):
    c = contract(PL + "%s.%s.__init__" % (mod, cls), variant="body").props('C07', 'C13')
    c.args(self=('obj', PL + "%s.%s" % (mod, cls), {}), unique_identifier='str', template_attribute='none')
    c.raises(None)
    c.ensures("self._unique_identifier.value == unique_identifier and self.unique_identifier == unique_identifier",
              name="identifier-as-given")
    c.ensures("self._template_attribute is None", name="no-template-attribute-invented")
    c.modifies("self.*")
