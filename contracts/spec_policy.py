"""Access-control decision as stated by property C03 and docs/source/server.rst
("Policy Files"), written from that text - not from the engine's code.

A policy bundle has an optional 'preset' section and an optional 'groups'
mapping of group name -> section; a section maps object type -> operation ->
permission.  Anything missing grants nothing.
"""
from kmip.core import enums
from vf.specrt import exists_in   # noqa: F401

NOT_FOUND_TEXT = "Could not locate object: {0}"


def section_grants(section, user, owner, object_type, operation):
    """'allow all' to anyone, 'allow owner' only to the creating identity, else nobody."""
    if not section:
        return False
    by_operation = section.get(object_type)
    if not by_operation:
        return False
    permission = by_operation.get(operation)
    if permission is None:
        return False
    if permission == enums.Policy.ALLOW_ALL:
        return True
    if permission == enums.Policy.ALLOW_OWNER:
        return user == owner
    return False


def granted(policies, policy_name, identity, owner, object_type, operation):
    bundle = policies.get(policy_name)
    if not bundle:
        return False
    user = identity[0]
    groups = identity[1]
    if groups is None:
        return section_grants(bundle.get('preset'), user, owner, object_type, operation)
    group_sections = bundle.get('groups')
    if not group_sections:
        # "the preset section when the policy defines no groups"
        return section_grants(bundle.get('preset'), user, owner, object_type, operation)
    # "the most permissive applicable group section decides"
    return exists_in(groups, lambda g: section_grants(group_sections.get(g), user, owner,
                                                      object_type, operation))


def granted_for_group(policies, policy_name, user, group, owner, object_type, operation):
    """One step of the above: the section selected by one group name (None: preset)."""
    bundle = policies.get(policy_name)
    if not bundle:
        return False
    if group is None:
        return section_grants(bundle.get('preset'), user, owner, object_type, operation)
    group_sections = bundle.get('groups')
    if not group_sections:
        return False
    return section_grants(group_sections.get(group), user, owner, object_type, operation)


def relevant_section(policies, policy_name, group):
    """The section that decides for one group name (a falsy group name: the preset section);
    None when the policy, its groups mapping or the group's section is missing or empty."""
    bundle = policies.get(policy_name)
    if not bundle:
        return None
    if group:
        group_sections = bundle.get('groups')
        if not group_sections:
            return None
        section = group_sections.get(group)
        if not section:
            return None
        return section
    return bundle.get('preset')
