"""kmip.pie.factory.ObjectFactory.convert, direction core secret -> pie object (what Register
stores): C05 field fidelity, C13 (it raises nothing but what Register maps to a KMIP error),
C20 (no exception text built from key material)."""
from vf.contracts import contract

F = "kmip.pie.factory.ObjectFactory."
SECRET = ('tainted_bytes', 'secret')


def EN(cls, enum):
    return ('obj', cls, {'value': ('enum', 'kmip.core.enums.' + enum)})


# what the decoders accept: key format type and key value are required in a key block; algorithm,
# length and wrapping data are optional (wrapping data: not modelled here, see DESIGN)
KEY_VALUE = ('obj', 'kmip.core.objects.KeyValue',
             {'key_material': ('obj', 'kmip.core.objects.KeyMaterial', {'value': SECRET}),
              'attributes': ('const', 'EMPTYLIST')})
def _LO(k):
    return ('lazyopt', k)


# key wrapping data of a registered (wrapped) key: only the wrapping method is required by the decoder
CPARAMS = ('obj', 'kmip.core.attributes.CryptographicParameters',
           {'_block_cipher_mode': _LO(EN('kmip.core.primitives.Enumeration', 'BlockCipherMode')),
            '_padding_method': _LO(EN('kmip.core.primitives.Enumeration', 'PaddingMethod')),
            '_hashing_algorithm': _LO(EN('kmip.core.primitives.Enumeration', 'HashingAlgorithm')),
            '_key_role_type': _LO(EN('kmip.core.primitives.Enumeration', 'KeyRoleType')),
            '_digital_signature_algorithm': _LO(EN('kmip.core.primitives.Enumeration', 'DigitalSignatureAlgorithm')),
            '_cryptographic_algorithm': _LO(EN('kmip.core.primitives.Enumeration', 'CryptographicAlgorithm')),
            '_random_iv': _LO(('obj', 'kmip.core.primitives.Boolean', {'value': 'bool'})),
            '_iv_length': _LO(('obj', 'kmip.core.primitives.Integer', {'value': 'nat'})),
            '_tag_length': _LO(('obj', 'kmip.core.primitives.Integer', {'value': 'nat'})),
            '_fixed_field_length': _LO(('obj', 'kmip.core.primitives.Integer', {'value': 'nat'})),
            '_invocation_field_length': _LO(('obj', 'kmip.core.primitives.Integer', {'value': 'nat'})),
            '_counter_length': _LO(('obj', 'kmip.core.primitives.Integer', {'value': 'nat'})),
            '_initial_counter_value': _LO(('obj', 'kmip.core.primitives.Integer', {'value': 'nat'}))})
TEXTV = ('obj', 'kmip.core.primitives.TextString', {'value': 'nonempty_str'})
EKI = ('obj', 'kmip.core.objects.EncryptionKeyInformation',
       {'_unique_identifier': TEXTV, '_cryptographic_parameters': ('opt', CPARAMS)})
MSKI = ('obj', 'kmip.core.objects.MACSignatureKeyInformation',
        {'_unique_identifier': TEXTV, '_cryptographic_parameters': ('opt', CPARAMS)})
KWD = ('obj', 'kmip.core.objects.KeyWrappingData',
       {'_wrapping_method': EN('kmip.core.primitives.Enumeration', 'WrappingMethod'),
        '_encryption_key_information': ('opt', EKI), '_mac_signature_key_information': ('opt', MSKI),
        '_mac_signature': _LO(('obj', 'kmip.core.primitives.ByteString', {'value': 'bytes'})),
        '_iv_counter_nonce': _LO(('obj', 'kmip.core.primitives.ByteString', {'value': 'bytes'})),
        '_encoding_option': _LO(EN('kmip.core.primitives.Enumeration', 'EncodingOption'))})

KEY_BLOCK = ('obj', 'kmip.core.objects.KeyBlock',
             {'key_format_type': EN('kmip.core.misc.KeyFormatType', 'KeyFormatType'),
              'key_compression_type': 'none', 'key_value': KEY_VALUE,
              'cryptographic_algorithm': ('opt', EN('kmip.core.attributes.CryptographicAlgorithm',
                                                    'CryptographicAlgorithm')),
              'cryptographic_length': ('opt', ('obj', 'kmip.core.attributes.CryptographicLength',
                                               {'value': 'int32nat'})),
              'key_wrapping_data': ('opt', KWD)})
CORE = ('oneof',
        ('obj', 'kmip.core.secrets.SymmetricKey', {'key_block': KEY_BLOCK}),
        ('obj', 'kmip.core.secrets.PublicKey', {'key_block': KEY_BLOCK}),
        ('obj', 'kmip.core.secrets.PrivateKey', {'key_block': KEY_BLOCK}),
        ('obj', 'kmip.core.secrets.SecretData',
         {'key_block': KEY_BLOCK,
          'secret_data_type': EN('kmip.core.secrets.SecretData.SecretDataType', 'SecretDataType')}),
        ('obj', 'kmip.core.secrets.Certificate',
         {'certificate_type': EN('kmip.core.attributes.CertificateType', 'CertificateType'),
          'certificate_value': ('obj', 'kmip.core.primitives.ByteString', {'value': 'bytes'})}),
        ('obj', 'kmip.core.secrets.OpaqueObject',
         {'opaque_data_type': EN('kmip.core.secrets.OpaqueObject.OpaqueDataType', 'OpaqueDataType'),
          'opaque_data_value': ('obj', 'kmip.core.primitives.ByteString', {'value': SECRET})}),
        # a decoded split key: the four split-key integers/method are required by its decoder, the
        # key block is the same as for the other keys (algorithm and length optional there)
        ('obj', 'kmip.core.secrets.SplitKey',
         {'_key_block': KEY_BLOCK,
          '_split_key_parts': ('obj', 'kmip.core.primitives.Integer', {'value': 'int32nat'}),
          '_key_part_identifier': ('obj', 'kmip.core.primitives.Integer', {'value': 'int32nat'}),
          '_split_key_threshold': ('obj', 'kmip.core.primitives.Integer', {'value': 'int32nat'}),
          '_split_key_method': EN('kmip.core.primitives.Enumeration', 'SplitKeyMethod'),
          '_prime_field_size': _LO(('obj', 'kmip.core.primitives.BigInteger', {'value': 'nat'}))}))


def t_fields_carried_over(ev, outcome, exc, path, I):
    """The pie object holds exactly the value bytes, algorithm, length, key format and
    type-specific field of the core secret it was built from."""
    if outcome != 'return':
        return True
    src = I.ghost_globals['__obj__']
    res = I.ghost_globals.get('__result__')
    name = src.cls.__name__

    def f(o, *names):
        for n in names:
            o = o.fields.get(n) if hasattr(o, 'fields') else None
            if o is None:
                return None
        return o
    want = {}
    if name in ('SymmetricKey', 'PublicKey', 'PrivateKey'):
        want = {'value': f(src, 'key_block', 'key_value', 'key_material', 'value'),
                'cryptographic_algorithm': f(src, 'key_block', 'cryptographic_algorithm', 'value'),
                'cryptographic_length': f(src, 'key_block', 'cryptographic_length', 'value'),
                'key_format_type': f(src, 'key_block', 'key_format_type', 'value')}
    elif name == 'SecretData':
        want = {'value': f(src, 'key_block', 'key_value', 'key_material', 'value'),
                'data_type': f(src, 'secret_data_type', 'value')}
    elif name == 'Certificate':
        want = {'value': f(src, 'certificate_value', 'value')}
    elif name == 'OpaqueObject':
        want = {'value': f(src, 'opaque_data_value', 'value'), 'opaque_type': f(src, 'opaque_data_type', 'value')}
    elif name == 'SplitKey':
        want = {'value': f(src, '_key_block', 'key_value', 'key_material', 'value'),
                'cryptographic_algorithm': f(src, '_key_block', 'cryptographic_algorithm', 'value'),
                'cryptographic_length': f(src, '_key_block', 'cryptographic_length', 'value'),
                'key_format_type': f(src, '_key_block', 'key_format_type', 'value'),
                '_split_key_parts': f(src, '_split_key_parts', 'value'),
                '_key_part_identifier': f(src, '_key_part_identifier', 'value'),
                '_split_key_threshold': f(src, '_split_key_threshold', 'value'),
                '_split_key_method': f(src, '_split_key_method', 'value')}
    kwd = f(src, 'key_block', 'key_wrapping_data') if name in ('SymmetricKey', 'PublicKey', 'PrivateKey') else None
    if kwd is not None:
        want['_kdw_wrapping_method'] = f(kwd, '_wrapping_method', 'value')
        eki = kwd.fields.get('_encryption_key_information')
        if eki is not None:
            want['_kdw_eki_unique_identifier'] = f(eki, '_unique_identifier', 'value')
    if getattr(res, 'cls', None) is None or res.cls.__name__.replace('X509', '') != name:
        return "a %s is stored as a %s" % (name, getattr(getattr(res, 'cls', None), '__name__', res))
    for k, v in want.items():
        got = res.fields.get(k)
        if got is v:
            continue
        eq = I.truth(I.models.equals(I, got, v))
        if not (eq is True or (eq is not False and path.is_valid(eq))):
            return "field %s of the stored object is not the registered one" % k
    return True


c = contract(F + "convert", variant="to-pie").props('C05', 'C13', 'C20')
c.args(self=('obj', 'kmip.pie.factory.ObjectFactory', {}), obj=CORE)
c.let('__obj__', 'obj')
c.raises(('TypeError', 'ValueError'))       # what Register maps to Invalid Field; anything else is unexpected
c.scope('raises.unexpected', 'C13')
c.trace("stored-fields-are-the-registered-ones", t_fields_carried_over)
c.scope('trace.stored-fields', 'C05')
c.notes.append("key wrapping data of a registered wrapped key: every shape the decoder accepts (wrapping method "
               "required; key information, parameters, signature, IV and encoding option optional)")


def _native_secret_in_text(pre, post, raised):
    """replay helper: does the text of the exception the real code raised contain the key bytes?"""
    import binascii
    if raised is None:
        return True

    def material(o, depth=0):
        out = []
        if depth > 6:
            return out
        if isinstance(o, (bytes, bytearray)) and len(o) >= 1:
            out.append(bytes(o))
        for v in getattr(o, '__dict__', {}).values():
            out.extend(material(v, depth + 1))
        return out
    text = str(raised) + repr(raised)
    for m in [x for a in pre.values() for x in material(a)]:
        if m and (binascii.hexlify(m).decode() in text or repr(m) in text):
            return "the %s raised carries the secret bytes in its text: %s" % (type(raised).__name__, text[:120])
    return True


contract(F + "convert", variant="to-pie").native_check(_native_secret_in_text)
