"""Get (C03, C04 wrapping-key gate, C05 fidelity, C08, C13)."""
from vf.contracts import contract
from contracts.c_engine import ENGINE, KMIP_ERRORS, E
from contracts.handler_common import (t_no_effect_before_raise, make_access_predicate, make_state_predicate,
                                      make_crypto_gate)

PL = "kmip.core.messages.payloads."
TEXT = ('obj', 'kmip.core.primitives.TextString', {'value': 'str'})


def EN(cls):
    return ('obj', 'kmip.core.primitives.Enumeration', {'value': ('enum', 'kmip.core.enums.' + cls)})


# what the decoders accept (KeyWrappingSpecification.read requires the wrapping method,
# EncryptionKeyInformation.read the unique identifier; everything else is optional)
CP = ('obj', 'kmip.core.attributes.CryptographicParameters',
      {'_block_cipher_mode': ('lazy', ('opt', EN('BlockCipherMode')))})
EKI = ('obj', 'kmip.core.objects.EncryptionKeyInformation',
       {'_unique_identifier': TEXT, '_cryptographic_parameters': ('lazy', ('opt', CP))})
KWS = ('obj', 'kmip.core.objects.KeyWrappingSpecification',
       {'_wrapping_method': EN('WrappingMethod'),
        '_encryption_key_information': ('lazy', ('opt', EKI)),
        '_mac_signature_key_information': ('lazy', ('opt', 'opaque')),
        '_attribute_names': ('lazy', ('oneof', 'none', ('list', TEXT, (1,)))),
        '_encoding_option': ('lazy', ('opt', EN('EncodingOption')))})
PAYLOAD = ('obj', PL + 'get.GetRequestPayload',
           {'_unique_identifier': ('lazyopt', TEXT),
            '_key_format_type': ('lazy', ('opt', EN('KeyFormatType'))),
            '_key_compression_type': ('lazy', ('opt', EN('KeyCompressionType'))),
            '_key_wrapping_specification': ('lazy', ('opt', KWS))})

# which column of the stored object each entry of the value dictionary must be
FIELD_COLUMN = {'certificate_type': 'certificate_type', 'certificate_value': 'value',
                'cryptographic_algorithm': 'cryptographic_algorithm', 'cryptographic_length': 'cryptographic_length',
                'key_format_type': 'key_format_type', 'key_value': 'value', 'secret_data_type': 'data_type',
                'opaque_data_type': 'opaque_type', 'opaque_data_value': 'value',
                'split_key_parts': '_split_key_parts', 'key_part_identifier': '_key_part_identifier',
                'split_key_threshold': '_split_key_threshold', 'split_key_method': '_split_key_method',
                'prime_field_size': '_prime_field_size'}
REQUIRED = {'CERTIFICATE': {'certificate_type', 'certificate_value'},
            'SYMMETRIC_KEY': {'cryptographic_algorithm', 'cryptographic_length', 'key_format_type', 'key_value',
                              'key_wrapping_data'},
            'SECRET_DATA': {'key_format_type', 'key_value', 'secret_data_type'},
            'OPAQUE_DATA': {'opaque_data_type', 'opaque_data_value'}}
REQUIRED['PUBLIC_KEY'] = REQUIRED['PRIVATE_KEY'] = REQUIRED['SYMMETRIC_KEY']
REQUIRED['SPLIT_KEY'] = REQUIRED['SYMMETRIC_KEY'] | {'split_key_parts', 'key_part_identifier',
                                                      'split_key_threshold', 'split_key_method', 'prime_field_size'}


def t_returns_what_is_stored(ev, outcome, exc, path, I):
    """The secret returned is built from exactly the stored object's type and columns (value bytes,
    algorithm, length, key format, type-specific fields); with a wrapping specification the value
    is the result of wrapping the stored value with the wrapping key, everything else unchanged."""
    if outcome != 'return':
        return True
    from kmip.core import enums
    loaded = [e[3] for e in ev if e[0] == 'db.load']
    creates = [e for e in ev if e[0] == 'core.create']
    res = I.ghost_globals.get('__result__')
    if len(creates) != 1:
        return "%d core secrets built for one Get" % len(creates)
    ot, value, secret = creates[0][1], creates[0][2], creates[0][3]
    if res.fields.get('_secret') is not secret:
        return "the response does not carry the secret built from the stored object"
    mo = loaded[0]
    if mo.fields.get('_object_type') is not ot:
        return "the secret is built as %s, the stored object is a %s" % (ot, mo.fields.get('_object_type'))
    rot = res.fields.get('_object_type')
    if getattr(rot, 'fields', {}).get('value', rot) is not ot:
        return "the response's object type is not the stored object's"
    if not isinstance(value, dict) or set(value) != REQUIRED[ot.name]:
        return "the secret is built from the fields %s, a %s has %s" % (
            sorted(value) if isinstance(value, dict) else value, ot.name, sorted(REQUIRED[ot.name]))
    wraps = [e for e in ev if e[0] == 'crypto' and e[1] == 'wrap_key']
    wrapped_by_return = [e for e in ev if e[0] == 'crypto.return']
    for k, v in value.items():
        if k == 'key_wrapping_data':
            continue
        if k == 'key_format_type' and ot is enums.ObjectType.SECRET_DATA:
            if v is not enums.KeyFormatType.OPAQUE:
                return "secret data returned with a key format other than Opaque"
            continue
        col = FIELD_COLUMN[k]
        stored = mo.meta.get('initial_columns', {}).get(col, mo.fields.get(col))
        if FIELD_COLUMN[k] == 'value' and wraps:
            kw = wraps[-1][3]
            if kw.get('key_material') is not stored:
                return "the material handed to wrap_key is not the stored value"
            continue
        if v is not stored:
            return "field %s of the returned secret is not the stored column %s" % (k, col)
    return True


def t_never_writes(ev, outcome, exc):
    for e in ev:
        if e[0] in ('db.add', 'db.delete', 'db.delete.obj', 'db.commit') or (e[0] == 'db.mutate' and e[5]):
            return "Get changes the store (%s %s)" % (e[0], e[2] if len(e) > 2 else '')
    return True


c = contract(PL + "get.GetResponsePayload.__init__").props('C05', 'C13')
c.args(self='opaque', object_type='opaque', unique_identifier='opaque', secret='opaque')
c.ensures("self._object_type == object_type and self._unique_identifier == unique_identifier "
          "and self._secret == secret", name="fields-as-given")
c.modifies("self._object_type", "self._unique_identifier", "self._secret")
c.trust("response payload constructor: type-checks and stores object type, identifier and secret (codec: C01)")

c = contract("kmip.core.objects.KeyWrappingData.__init__").props('C05', 'C13')
c.args(self='opaque', wrapping_method='opaque', encryption_key_information='opaque',
       mac_signature_key_information='none', mac_signature='none', iv_counter_nonce='none',
       encoding_option='opaque')
c.modifies("self.*")
c.trust("structure constructor: stores the given wrapping method, key information and encoding option (codec: C01)")

c = contract(E + "_process_get").props('C03', 'C04', 'C05', 'C08', 'C13')
c.args(self=ENGINE, payload=PAYLOAD)
c.let('__self__', 'self').let('__payload__', 'payload')
c.raises(KMIP_ERRORS)
c.scope('raises.unexpected', 'C13')
c.trace("wrapping-key-use-gated", make_crypto_gate({"wrap_key": ("WRAP_KEY", "SYMMETRIC_KEY", "encryption_key")}))
c.scope('trace.wrapping-key', 'C04')
c.trace("no-state-change", make_state_predicate(set()))
c.trace("no-effect-before-raise", t_no_effect_before_raise)
c.trace("get-never-writes", t_never_writes)
c.trace("access-controlled", make_access_predicate(['GET']))
c.trace("returns-what-is-stored", t_returns_what_is_stored)
c.scope('trace.returns-what', 'C05')
