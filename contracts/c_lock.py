"""C10 - the lock discipline from which serial equivalence follows (given that
threading.RLock provides mutual exclusion): contracts and structural facts."""
from vf.contracts import contract
from contracts.c_engine import ENGINE, E
from vf.dbmodel import PER_REQUEST_FIELDS


def t_wrapped_call_inside_lock(ev, outcome, exc):
    inside = False
    called = 0
    for e in ev:
        if e[0] == 'lock.enter':
            inside = True
        elif e[0] == 'lock.exit':
            inside = False
        elif e[0] == 'external' and 'wrapped-function' in e[1]:
            called += 1
            if not inside:
                return "the wrapped function runs outside the lock"
    if inside:
        return "the lock is still held when the wrapper is left (%s)" % outcome
    if called != 1 and outcome == 'return':
        return "the wrapped function ran %d times" % called
    return True


c = contract(E + "_synchronize.decorator").props('C10')
c.args(self=ENGINE)
c.closure(function=('opaque_facts', 'wrapped-function', []))
c.allow_external()
c.may_raise_anything()
c.trace("wrapped-function-runs-entirely-inside-the-lock", t_wrapped_call_inside_lock)


def no_shared_state(ev, outcome, exc):
    for e in ev:
        if e[0] in ('field.read', 'field.write') and e[2] in PER_REQUEST_FIELDS:
            return "%s of per-request field %s outside the lock" % (e[0], e[2])
    return True


# the unlocked public surface used by the session touches none of the per-request fields
for qn in ("build_error_response", "_build_response", "get_relevant_policy_section", "is_allowed"):
    contract(E + qn).props('C10').trace("touches-no-per-request-state", no_shared_state)
