"""KmipEngine.__init__ (C09, C07, C11): how the store and its sessions are set up.

The transaction discipline proved for the handlers (all effects before one commit) gives
all-or-nothing only if one session.commit() is one database transaction.  That is the assumed
contract of SQLAlchemy/SQLite *for a plain engine and a plain sessionmaker*; this contract checks,
on every path of the real constructor, that the engine and the session factory are created
plainly: no autocommit / isolation-level option anywhere, the factory bound to the very object
create_engine returned, and the schema created before the factory exists."""
from vf.contracts import contract

E = "kmip.services.server.engine.KmipEngine."
FORBIDDEN = ('isolation_level', 'autocommit', 'execution_options', 'poolclass', 'autoflush',
             'expire_on_commit', 'twophase', 'future')


def _mentions(v, words, depth=0):
    if depth > 4:
        return None
    if isinstance(v, str):
        return next((w for w in words if w.lower() in v.lower()), None)
    if isinstance(v, dict):
        for k, x in v.items():
            r = _mentions(k, words, depth + 1) or _mentions(x, words, depth + 1)
            if r:
                return r
    if isinstance(v, (list, tuple)):
        for x in v:
            r = _mentions(x, words, depth + 1)
            if r:
                return r
    return None


def t_plain_store(ev, outcome, exc):
    if outcome != 'return':
        return True
    ext = [e for e in ev if e[0] == 'external']
    ce = [e for e in ext if e[1].endswith('create_engine')]
    sm = [e for e in ext if e[1].endswith('sessionmaker')]
    ca = [i for i, e in enumerate(ext) if 'create_all' in e[1]]
    if len(ce) != 1 or len(sm) != 1:
        return "the store is not set up by exactly one create_engine and one sessionmaker call"
    for e in ce + sm:
        bad = _mentions(e[3], FORBIDDEN) or _mentions([a for a in e[2] if not isinstance(a, str)], FORBIDDEN)
        if bad or set(e[3]) - ({'echo', 'connect_args'} if e in ce else {'bind'}):
            return "%s is called with an option that changes transaction behaviour (%s)" % (
                e[1].rsplit('.', 1)[-1], bad or sorted(set(e[3]) - {'echo', 'connect_args', 'bind'}))
    bind = sm[0][3].get('bind', sm[0][2][0] if sm[0][2] else None)
    if bind is not ce[0][4]:
        return "the session factory is not bound to the engine object create_engine returned"
    others = [e for e in ext if any(w in e[1] for w in ('execution_options', 'isolation', 'autocommit',
                                                          'begin', 'connect(', 'event.listen'))]
    if others:
        return "the constructor reconfigures the connection / transaction handling (%s)" % others[0][1]
    if not ca or ca[0] > ext.index(sm[0]):
        return "the schema is not created before the session factory"
    return True


c = contract(E + "__init__").props('C09')
c.args(self=('obj', 'kmip.services.server.engine.KmipEngine', {}),
       policies=('oneof', 'none', 'opaque'), database_path=('oneof', 'none', 'str'))
c.opaque_outside('kmip.services.server.engine')
c.may_raise_anything()
c.trace("one-commit-is-one-transaction", t_plain_store)
c.ensures("self._id_placeholder is None", name="no-id-placeholder-initially")
c.modifies("self.*")
