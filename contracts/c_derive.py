"""DeriveKey (C03, C04 derive-key bit, C06 length, C07, C08, C09, C13)."""
import z3

from vf.contracts import contract
from contracts.c_engine import ENGINE, KMIP_ERRORS, E, make_creator_predicates
from contracts.handler_common import t_no_effect_before_raise, t_single_transaction, make_access_predicate

PL = "kmip.core.messages.payloads."
TEXT = ('obj', 'kmip.core.primitives.TextString', {'value': 'str'})
BYTES = ('obj', 'kmip.core.primitives.ByteString', {'value': 'bytes'})
INT = ('obj', 'kmip.core.primitives.Integer', {'value': 'nat'})


def EN(cls):
    return ('obj', 'kmip.core.primitives.Enumeration', {'value': ('enum', 'kmip.core.enums.' + cls)})


def OPT(k):
    return ('lazyopt', k)


# what DeriveKeyRequestPayload.read accepts: object type, at least one identifier, derivation method,
# derivation parameters (all of its fields optional) and the template attribute are required
CP = ('obj', 'kmip.core.attributes.CryptographicParameters',
      {'_hashing_algorithm': OPT(EN('HashingAlgorithm')), '_cryptographic_algorithm': OPT(EN('CryptographicAlgorithm')),
       '_block_cipher_mode': OPT(EN('BlockCipherMode')), '_padding_method': OPT(EN('PaddingMethod'))})
DP = ('obj', 'kmip.core.attributes.DerivationParameters',
      {'_cryptographic_parameters': ('lazy', ('opt', CP)), '_initialization_vector': OPT(BYTES), '_derivation_data': OPT(BYTES),
       '_salt': OPT(BYTES), '_iteration_count': OPT(INT)})
PAYLOAD = ('obj', PL + 'derive_key.DeriveKeyRequestPayload',
           {'_object_type': EN('ObjectType'), '_unique_identifiers': ('list', TEXT, (1, 2)),
            '_derivation_method': EN('DerivationMethod'), '_derivation_parameters': DP,
            '_template_attribute': 'opaque'})


def t_derive_bit(ev, outcome, exc, path):
    """Every object used as base of a derivation holds the Derive Key usage-mask bit."""
    from kmip.core import enums
    if not any(e[0] == 'crypto' and e[1] == 'derive_key' for e in ev):
        return True
    bit = enums.CryptographicUsageMask.DERIVE_KEY
    for e in ev:
        if e[0] == 'db.load':
            mo = e[3]
            masks = mo.fields.get('cryptographic_usage_masks')
            ent = getattr(masks, 'memo', {}).get(('c', bit))
            if ent is None or not path.is_valid(z3.Not(ent.isnone)):
                return "derive_key() runs although a base object may lack the Derive Key bit"
    mats = [e[3].get('key_material') for e in ev if e[0] == 'crypto' and e[1] == 'derive_key']
    loaded = [e[3] for e in ev if e[0] == 'db.load']
    if not any(mats[0] is mo.fields.get('value') for mo in loaded):
        return "the keying material is not the value of a base object loaded under access control"
    return True


def t_roles_of_the_base_objects(ev, outcome, exc, path, I):
    """C06: the FIRST object named is the keying object - its value is the key material - and
    derivation data that is not given inline is the value of a Secret Data object named AFTER it,
    never the keying object's own value."""
    calls = [e for e in ev if e[0] == 'crypto' and e[1] == 'derive_key']
    if not calls:
        return True
    loaded = [e[3] for e in ev if e[0] == 'db.load']
    kw = calls[0][3]
    if not loaded or kw.get('key_material') is not loaded[0].fields.get('value'):
        return "the key material handed to derive_key() is not the value of the first object named"
    pay = I.ghost_globals.get('__payload__')
    dp = I.resolve_opt(pay.fields.get('_derivation_parameters')) if pay is not None else None
    inline = I.resolve_opt(dp.fields.get('_derivation_data')) if dp is not None else None
    data = kw.get('derivation_data')
    if inline is None and data is not None and not isinstance(data, (bytes, str)):
        if data is loaded[0].fields.get('value'):
            return "the keying object's own value is used as derivation data"
        if not any(data is mo.fields.get('value') for mo in loaded[1:]):
            return "the derivation data is neither given inline nor the value of a later base object"
    return True


def t_requested_length(ev, outcome, exc, path, I):
    """C06: the derived object stores exactly Cryptographic Length / 8 bytes, and those bytes are
    (a prefix of) what derive_key() returned for that very length."""
    if outcome != 'return':
        return True
    adds = [e[3] for e in ev if e[0] == 'db.add']
    calls = [e for e in ev if e[0] == 'crypto' and e[1] == 'derive_key']
    if len(adds) != 1 or len(calls) != 1:
        return "%d objects stored, %d derivations" % (len(adds), len(calls))
    val = adds[0].fields.get('value')
    want = calls[0][3].get('derivation_length')
    if val is None or want is None:
        return "no derived value / length"
    n = I.models.lookup_model(len)(I, [val], {})
    from vf.sym import int_term
    if not path.is_valid(int_term(n) == int_term(want)):
        return "the stored derived value may not have the requested length"
    return True


c = contract(PL + "derive_key.DeriveKeyResponsePayload.__init__").props('C07', 'C13')
c.args(self='opaque', unique_identifier='opaque', template_attribute='none')
c.ensures("self._unique_identifier == unique_identifier", name="identifier-as-given")
c.modifies("self._unique_identifier", "self._template_attribute")
c.trust("response payload constructor: type-checks and stores the identifier string (codec: C01); proved against "
        "the constructor body for every string by the variant contract __init__#body (contracts/c_response_ctors.py)")

c = contract(E + "_process_derive_key").props('C03', 'C04', 'C06', 'C07', 'C08', 'C09', 'C13')
c.args(self=ENGINE, payload=PAYLOAD)
c.let('__self__', 'self').let('__payload__', 'payload')
c.raises(KMIP_ERRORS)
c.scope('raises.unexpected', 'C13')
t_id, t_own = make_creator_predicates(1)
c.trace("identifier-read-after-commit", t_id)
c.scope('trace.identifier', 'C07', 'C08', 'C13')
c.trace("owner-is-the-requester", t_own)
c.scope('trace.owner', 'C03')
c.trace("base-objects-hold-the-derive-key-bit", t_derive_bit)
c.scope('trace.base-objects', 'C04')
c.trace("derived-material-has-the-requested-length", t_requested_length)
c.trace("derived-material-from-the-right-base-objects", t_roles_of_the_base_objects)
c.scope('trace.derived-material', 'C06')
c.trace("no-effect-before-raise", t_no_effect_before_raise)
c.trace("single-transaction", t_single_transaction)
c.trace("access-controlled", make_access_predicate(['GET']))
c.modifies("self._id_placeholder")
c.notes.append("bounded in the number of base objects (1..2 identifiers)")
c.split_by = [('len:payload._unique_identifiers', 2), ('crypto-outcome', 3),
              ('opt:payload._derivation_parameters._cryptographic_parameters', 2)]
