"""C19 (framing part) - kmip/services/kmip_protocol.py."""
from vf.contracts import contract, spec_module
from contracts import spec_ttlv

spec_module(spec_ttlv)
K = "kmip.services.kmip_protocol.KMIPProtocol."
PROTO = ('obj', 'kmip.services.kmip_protocol.KMIPProtocol',
         {'socket': ('model', 'Connection'), 'logger': 'logger'})


def _early_end_only(ev, outcome, exc):
    if outcome == 'raise' and exc.cls.__name__ in ('RequestLengthMismatch', 'EOFError'):
        if not any(e[0] == 'recv' and e[1] in ('none', 'closed') for e in ev):
            return "%s although every recv delivered data" % exc.cls.__name__
    return True


c = contract(K + "_recv_all").props('C19')
c.args(self=PROTO, total_bytes_to_be_read='nat')
c.loop(0, ["total_msg + self.socket.remaining == old(self.socket.remaining)",
           "bytes_read == len(total_msg)", "bytes_read <= total_bytes_to_be_read"],
       modifies=["self.socket.remaining"], decreases="total_bytes_to_be_read - bytes_read")
c.raises('RequestLengthMismatch', fields={'expected': 'nat', 'received': 'nat'},
         ensures="raised.expected == total_bytes_to_be_read and raised.received < total_bytes_to_be_read",
         emits=[('recv', 'none')])      # justified by this contract's own trace obligation below
c.ensures("result + self.socket.remaining == old(self.socket.remaining)", name="prefix-of-stream")
c.ensures("len(result) == total_bytes_to_be_read", name="exact-length")
c.trace("length-mismatch-only-when-the-stream-ends-early", _early_end_only)
c.native_check(lambda pre, post, raised: True if raised is None
               or len(pre['self'].socket.remaining) < pre['total_bytes_to_be_read']
               else "error although the stream holds the whole message")
c.modifies("self.socket.remaining")
c.returns('bytes')

c = contract(K + "read").props('C19')
c.args(self=PROTO)
c.raises(('RequestLengthMismatch', 'EOFError'))
c.ensures("result.buffer + self.socket.remaining == old(self.socket.remaining)", name="message-is-prefix")
c.ensures("len(result.buffer) == 8 + be_int(result.buffer[4:8])", name="length-from-header")
c.trace("error-only-when-the-stream-ends-early", _early_end_only)
c.native_check(lambda pre, post, raised: True if raised is None
               or len(pre['self'].socket.remaining) < 8
               or len(pre['self'].socket.remaining) < 8 + int.from_bytes(pre['self'].socket.remaining[4:8], 'big')
               else "error although the stream holds the whole message")
c.modifies("self.socket.remaining")
c.returns(('obj', 'kmip.core.utils.BytearrayStream', {'buffer': 'bytes'}))

c = contract(K + "write").props('C19')
c.args(self=PROTO, data='bytes')
c.modifies("self.socket.sent")
c.trace("sends-the-data-once",
        lambda ev, outcome, exc: True if len([e for e in ev if e[0] == 'send']) <= 1 else "sent twice")
