"""kmip.pie.sqltypes (C05): the two type decorators through which enumeration-valued columns
reach SQLite.  EnumType: a lemma over the two real methods - what process_result_value gives
back for what process_bind_param stored is the value stored, for every member of every
enumeration class used as a column type and for None.  UsageMaskType: bounded (see vf/bounded)."""
from vf.contracts import contract


def column_enum_classes():
    """Enumeration classes used with EnumType by the mapped classes (read from the live tables)."""
    from kmip.pie import objects, sqltypes
    out = []
    for cls in vars(objects).values():
        tbl = getattr(cls, '__table__', None)
        if tbl is None:
            continue
        for col in tbl.columns:
            if isinstance(col.type, sqltypes.EnumType) and col.type._cls not in out:
                out.append(col.type._cls)
    return sorted(out, key=lambda c: c.__name__)


def enum_roundtrip(t, v):
    """what the database layer does with a column value: bind on the way in, result on the way out"""
    return t.process_result_value(t.process_bind_param(v, None), None)


CLASSES = column_enum_classes()
for cls in CLASSES:
    path = cls.__module__ + '.' + cls.__qualname__
    T = ('obj', 'kmip.pie.sqltypes.EnumType', {'_cls': ('const', cls)})
    c = contract("contracts.c_sqltypes.enum_roundtrip", variant=cls.__name__).props('C05')
    c.args(t=T, v=('oneof', 'none', ('enum', path)))
    c.ensures("result == v", name="column-value-survives-the-database")
    c.raises(None)

