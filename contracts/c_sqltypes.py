"""kmip.pie.sqltypes (C05): the two type decorators through which enumeration-valued columns
reach SQLite.  EnumType: a lemma over the two real methods - what process_result_value gives
back for what process_bind_param stored is the value stored, for every member of every
enumeration class used as a column type and for None.  UsageMaskType: bounded (see vf/bounded)."""
from vf.contracts import contract


def column_enum_classes():
    """Enumeration classes used with EnumType by the mapped classes (read from the live tables)."""
    from kmip.pie import objects, sqltypes
    out = []
    for cls in vars(objects).values():
        tbl = getattr(cls, '__table__', None)
        if tbl is None:
            continue
        for col in tbl.columns:
            if isinstance(col.type, sqltypes.EnumType) and col.type._cls not in out:
                out.append(col.type._cls)
    return sorted(out, key=lambda c: c.__name__)


def enum_roundtrip(t, v):
    """what the database layer does with a column value: bind on the way in, result on the way out"""
    return t.process_result_value(t.process_bind_param(v, None), None)


CLASSES = column_enum_classes()
for cls in CLASSES:
    path = cls.__module__ + '.' + cls.__qualname__
    T = ('obj', 'kmip.pie.sqltypes.EnumType', {'_cls': ('const', cls)})
    c = contract("contracts.c_sqltypes.enum_roundtrip", variant=cls.__name__).props('C05')
    c.args(t=T, v=('oneof', 'none', ('enum', path)))
    c.ensures("result == v", name="column-value-survives-the-database")
    c.raises(None)



# ---------------------------------------------------------------- pie Key.key_wrapping_data accessors
def leaf(d, *path):
    """value at a path of nested dictionaries; None when any step is missing"""
    for k in path:
        if not isinstance(d, dict) or k not in d:
            return None
        d = d[k]
    return d


def kwd_roundtrip(key, wrapping_method, eki_uid, eki_mode, eki_random_iv, eki_iv_length, eki_tag_length,
                  mski_uid, mski_hash, mac_signature, iv_counter_nonce, encoding_option):
    """what the store does with the key wrapping data of a registered wrapped key: the setter spreads
    the dictionary over the 33 columns, the getter (used by Get) assembles it again"""
    key.key_wrapping_data = {
        'wrapping_method': wrapping_method,
        'encryption_key_information': {
            'unique_identifier': eki_uid,
            'cryptographic_parameters': {'block_cipher_mode': eki_mode, 'random_iv': eki_random_iv,
                                         'iv_length': eki_iv_length, 'tag_length': eki_tag_length}},
        'mac_signature_key_information': {
            'unique_identifier': mski_uid,
            'cryptographic_parameters': {'hashing_algorithm': mski_hash}},
        'mac_signature': mac_signature, 'iv_counter_nonce': iv_counter_nonce,
        'encoding_option': encoding_option}
    return key.key_wrapping_data


OPT = lambda k: ('oneof', 'none', k)      # noqa: E731
c = contract("contracts.c_sqltypes.kwd_roundtrip").props('C05')
c.args(key=('obj', 'kmip.pie.objects.SymmetricKey', {}),
       wrapping_method=('enum', 'kmip.core.enums.WrappingMethod'), eki_uid=OPT('str'),
       eki_mode=OPT(('enum', 'kmip.core.enums.BlockCipherMode')), eki_random_iv=OPT('bool'),
       eki_iv_length=OPT('nat'), eki_tag_length=OPT('nat'), mski_uid=OPT('str'),
       mski_hash=OPT(('enum', 'kmip.core.enums.HashingAlgorithm')), mac_signature=OPT('bytes'),
       iv_counter_nonce=OPT('bytes'), encoding_option=OPT(('enum', 'kmip.core.enums.EncodingOption')))
EKI_CP = "'encryption_key_information', 'cryptographic_parameters'"
c.ensures("leaf(result, 'wrapping_method') == wrapping_method and leaf(result, 'encoding_option') == encoding_option "
          "and leaf(result, 'mac_signature') == mac_signature and leaf(result, 'iv_counter_nonce') == iv_counter_nonce",
          name="top-level-fields-survive")
c.ensures("leaf(result, 'encryption_key_information', 'unique_identifier') == eki_uid and "
          "leaf(result, 'mac_signature_key_information', 'unique_identifier') == mski_uid",
          name="key-identifiers-survive")
c.ensures("leaf(result, %s, 'block_cipher_mode') == eki_mode and "
          "leaf(result, 'mac_signature_key_information', 'cryptographic_parameters', 'hashing_algorithm') == mski_hash" % EKI_CP,
          name="enumeration-parameters-survive")
c.ensures("leaf(result, %s, 'random_iv') == eki_random_iv and leaf(result, %s, 'iv_length') == eki_iv_length "
          "and leaf(result, %s, 'tag_length') == eki_tag_length" % (EKI_CP, EKI_CP, EKI_CP),
          name="falsy-parameters-survive")
c.raises(None)
c.modifies("key.*")
