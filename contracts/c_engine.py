"""Engine choke points and lifecycle handlers (C03, C04, C07, C08, C09)."""
from vf.contracts import contract, spec_module
from contracts import spec_policy, c_access

spec_module(spec_policy)
E = "kmip.services.server.engine.KmipEngine."
ENGINE = ('engine',)

# ---------------------------------------------------------------- object lookup
c = contract(E + "_get_object_type").props('C03', 'C07', 'C13')
c.args(self=ENGINE, unique_identifier=('oneof', 'str', 'none'))
c.raises('exceptions.ItemNotFound', when="unique_identifier is None", name="no-identifier",
         ensures="str(raised) == NOT_FOUND_TEXT.format(unique_identifier)")
c.raises('exceptions.ItemNotFound',
         ensures="str(raised) == NOT_FOUND_TEXT.format(unique_identifier)")
c.raises('exceptions.InvalidField')
c.ensures("result in self._object_map.values()", name="a-stored-class")
c.trace("reads-only",
        lambda ev, outcome, exc: True if not any(e[0] in ('db.add', 'db.delete', 'db.commit', 'db.mutate')
                                                  for e in ev) else "lookup writes to the store")
c.trace("not-found-iff-no-row",
        lambda ev, outcome, exc: True if not (outcome == 'raise' and exc.cls.__name__ == 'ItemNotFound')
        or ('db.one', 'none') in ev else "ItemNotFound although a row exists")
c.returns(('oneof',) + tuple(('const', 'K:' + n) for n in
                             ['SymmetricKey', 'PublicKey', 'PrivateKey', 'SplitKey', 'X509Certificate',
                              'SecretData', 'OpaqueObject']))


def t_denial_discloses_nothing(ev, outcome, exc):
    """On the denial path nothing is written and no column other than the four the decision
    needs is read."""
    if outcome != 'raise':
        return True
    if any(e[0] in ('db.add', 'db.delete', 'db.commit', 'db.mutate', 'db.delete.obj') for e in ev):
        return "a failing lookup writes to the store"
    return True


c = contract(E + "_get_object_with_access_controls").props('C03', 'C07')
c.args(self=ENGINE, uid=('oneof', 'str', 'none'), operation=('enum', 'kmip.core.enums.Operation'))
c.raises('exceptions.ItemNotFound', when="uid is None", name="no-identifier",
         ensures="str(raised) == NOT_FOUND_TEXT.format(uid)")
c.raises('exceptions.ItemNotFound', ensures="str(raised) == NOT_FOUND_TEXT.format(uid)")
c.raises('exceptions.PermissionDenied', ensures="str(raised) == NOT_FOUND_TEXT.format(uid)",
         name="denied-as-not-found")
c.raises(('exc.NoResultFound', 'exceptions.InvalidField'))
c.ensures("granted(self._operation_policies, result.operation_policy_name, self._client_identity, "
          "result._owner, result.object_type, operation)", name="returned-only-if-granted", assume=False)
c.trace("denial-changes-and-discloses-nothing", t_denial_discloses_nothing)
c.trace("success-does-not-write",
        lambda ev, outcome, exc: True if not any(e[0] in ('db.add', 'db.delete', 'db.commit', 'db.mutate')
                                                  for e in ev) else "lookup writes to the store")
c.returns(('managed',))
c.effect(lambda P, loc: P.event('access', loc['operation'], id(loc['uid'])))

c = contract(E + "_list_objects_with_access_controls").props('C03', 'C14')
c.args(self=ENGINE, operation=('enum', 'kmip.core.enums.Operation'))
c.loop(0, "True", havoc={'managed_objects_allowed': 'opaque_list'})
def t_listed_only_if_granted(ev, outcome, exc, path, I):
    """Every object appended to the result (in an arbitrary iteration) is one the policy grants."""
    import contracts.spec_policy as SP
    for e in ev:
        if e[0] == 'list.append' and e[2] is not None:
            mo = e[2]
            eng = I.ghost_globals.get('__self__')
            op = I.ghost_globals.get('__operation__')
            v = I.eval_spec("granted(self._operation_policies, mo.operation_policy_name, "
                            "self._client_identity, mo._owner, mo.object_type, operation)",
                            {'self': eng, 'mo': mo, 'operation': op}, SP.__dict__, None, None)
            t = I.truth(v)
            if not (t is True or (t is not False and path.is_valid(t))):
                return "an object is listed although the policy does not grant the operation on it"
    return True


c.let('__self__', 'self').let('__operation__', 'operation')
c.trace("lists-only-what-the-policy-grants", t_listed_only_if_granted)
c.returns(('slist', ('managed',)))

# ---------------------------------------------------------------- lifecycle handlers (C04)
from contracts.handler_common import (t_no_effect_before_raise, t_single_transaction,      # noqa: E402
                                      make_access_predicate, make_state_predicate)

UID = ('lazyopt', ('obj', 'kmip.core.attributes.UniqueIdentifier', {'value': 'str'}))
# NoResultFound: only from the second look-up of the access-controlled choke point (a row that vanished
# between its two queries - impossible under the engine lock, C10); nothing else of SQLAlchemy is allowed
KMIP_ERRORS = ('exceptions.KmipError', 'exc.NoResultFound')


def _emit_access(c):
    pass


c = contract(E + "_process_activate").props('C03', 'C04', 'C08', 'C09', 'C13')
c.args(self=ENGINE, payload=('obj', 'kmip.core.messages.payloads.activate.ActivateRequestPayload',
                             {'unique_identifier': UID}))
c.raises(KMIP_ERRORS)
c.trace("lifecycle-step", make_state_predicate({('PRE_ACTIVE', 'ACTIVE')}))
c.trace("success-means-activated",
        lambda ev, outcome, exc: True if outcome != 'return'
        or len([e for e in ev if e[0] == 'db.mutate' and e[2] == 'state']) == 1
        else "Activate succeeded without exactly one state change")
c.trace("no-effect-before-raise", t_no_effect_before_raise)
c.trace("single-transaction", t_single_transaction)
c.trace("access-controlled", make_access_predicate(['ACTIVATE']))

REVOKE_PAYLOAD = ('obj', 'kmip.core.messages.payloads.revoke.RevokeRequestPayload',
                  {'unique_identifier': UID,
                   'revocation_reason': ('lazyopt', ('obj', 'kmip.core.objects.RevocationReason',
                                                     {'revocation_code': ('lazyopt', ('obj', 'kmip.core.objects.RevocationReasonCode',
                                                                                      {'value': ('enum', 'kmip.core.enums.RevocationReasonCode')})),
                                                      'revocation_message': 'opaque'})),
                   'compromise_occurrence_date': 'opaque'})

c = contract(E + "_process_revoke").props('C03', 'C04', 'C08', 'C09', 'C13')
c.args(self=ENGINE, payload=REVOKE_PAYLOAD)
c.raises(KMIP_ERRORS)
# stored objects are never in a Destroyed state (Destroy deletes the row in the same transaction)
c.trace("lifecycle-step", make_state_predicate({('ACTIVE', 'DEACTIVATED'), ('PRE_ACTIVE', 'COMPROMISED'),
                                                ('ACTIVE', 'COMPROMISED'), ('DEACTIVATED', 'COMPROMISED'),
                                                ('COMPROMISED', 'COMPROMISED'),
                                                ('DESTROYED', 'DESTROYED_COMPROMISED'),
                                                ('DESTROYED_COMPROMISED', 'COMPROMISED')}))
c.trace("no-effect-before-raise", t_no_effect_before_raise)
c.trace("single-transaction", t_single_transaction)
c.trace("access-controlled", make_access_predicate(['REVOKE']))

c = contract(E + "_process_destroy").props('C03', 'C04', 'C07', 'C08', 'C09', 'C13')
c.args(self=ENGINE, payload=('obj', 'kmip.core.messages.payloads.destroy.DestroyRequestPayload',
                             {'unique_identifier': UID}))
c.raises(KMIP_ERRORS)
c.trace("lifecycle-step", make_state_predicate({('COMPROMISED', 'DESTROYED_COMPROMISED')}))


def t_destroy(ev, outcome, exc, path):
    """Destroy is refused for an Active object; success deletes the row and commits."""
    from kmip.core import enums
    if outcome != 'return':
        return True
    dels = [e for e in ev if e[0] == 'db.delete']
    if len(dels) != 1 or dels[0][1] != ('ManagedObject',):
        return "Destroy succeeded without deleting exactly the base row"
    # the row is addressed by its identifier alone: any further condition (owner, state, ...) can make
    # the statement delete nothing while success is still reported
    conds = dels[0][3] if len(dels[0]) > 3 else []
    keyed = [c for c in conds if getattr(c, 'fields', {}).get('op') == 'Eq' and any(
        getattr(c.fields.get(side), 'key', None) == 'unique_identifier' for side in ('left', 'right'))]
    if len(conds) != 1 or len(keyed) != 1:
        return ("the DELETE of a successful Destroy is not filtered by the unique identifier alone (%d conditions): "
                "it may match no row" % len(conds))
    for e in ev:
        if e[0] == 'db.load':
            mo = e[3]
            if not hasattr(mo.cls, 'state'):
                continue            # a class without a lifecycle state (opaque objects)
            st = mo.meta.get('initial_columns', {}).get('state')
            if st is None:
                return ("Destroy succeeded on a %s without looking at its state (it may be Active)"
                        % mo.cls.__name__)
            if hasattr(st, 't'):
                if not path.is_valid(st.t != enums.State.ACTIVE.value):
                    return "Destroy succeeded on an object that may be Active"
    return True


c.trace("success-deletes-the-row", t_destroy)
c.trace("no-effect-before-raise", t_no_effect_before_raise)
c.trace("single-transaction", t_single_transaction)
c.trace("access-controlled", make_access_predicate(['DESTROY']))

# ---------------------------------------------------------------- cryptographic-use gates (C04)
from contracts.handler_common import make_crypto_gate      # noqa: E402

PL = "kmip.core.messages.payloads."
GATES = {
    "_process_encrypt": (PL + "encrypt.EncryptRequestPayload", {"encrypt": ("ENCRYPT", "SYMMETRIC_KEY", 1)}),
    "_process_decrypt": (PL + "decrypt.DecryptRequestPayload", {"decrypt": ("DECRYPT", "SYMMETRIC_KEY", 1)}),
    "_process_sign": (PL + "sign.SignRequestPayload", {"sign": ("SIGN", "PRIVATE_KEY", "signing_key")}),
    "_process_signature_verify": (PL + "signature_verify.SignatureVerifyRequestPayload",
                                  {"verify_signature": ("VERIFY", "PUBLIC_KEY", "signing_key")}),
    "_process_mac": (PL + "mac.MACRequestPayload", {"mac": ("MAC_GENERATE", None, 1)}),
}
for hname, (pcls, gate) in GATES.items():
    c = contract(E + hname).props('C03', 'C04', 'C08', 'C09', 'C13')
    uidf = {'_unique_identifier': UID} if hname == '_process_mac' else \
        {'_unique_identifier': ('lazyopt', ('obj', 'kmip.core.primitives.TextString', {'value': 'str'}))}
    c.args(self=ENGINE, payload=('payload', pcls, uidf))
    c.raises(KMIP_ERRORS)
    c.trace("crypto-use-gated", make_crypto_gate(gate))
    c.trace("no-state-change", make_state_predicate(set()))
    c.trace("no-effect-before-raise", t_no_effect_before_raise)
    c.trace("single-transaction", t_single_transaction)
    c.trace("access-controlled", make_access_predicate(['GET']))

# ---------------------------------------------------------------- object-creating handlers (C03 owner, C07, C08, C09)
AVAL = lambda k: ('obj', 'kmip.core.primitives.Base', {'value': k})      # noqa: E731
def _attr_value_kinds():
    """name -> kind of the entry of the attribute dictionary _process_template_attribute returns:
    a list of decoded values for multivalued attributes (rule table), one decoded value otherwise"""
    from kmip.services.server import policy as _sp
    from kmip.core.messages import contents as _ct
    kinds = {}
    for name, rs in _sp.AttributePolicy(_ct.ProtocolVersion(2, 0))._attribute_rule_sets.items():
        kinds[name] = 'opaque_list' if rs.multiple_instances_permitted else 'opaque'
    kinds.update({
        'Cryptographic Algorithm': AVAL(('enum', 'kmip.core.enums.CryptographicAlgorithm')),
        'Cryptographic Length': AVAL('int'),     # a KMIP Integer: may be negative
        'Cryptographic Usage Mask': AVAL('nat'),
        'Operation Policy Name': AVAL('str'),
        'Sensitive': AVAL('bool'),
    })
    return kinds


ATTRS = ('sdict', ('bykey', _attr_value_kinds()))

c = contract(E + "_process_template_attribute").props('C13', 'C15')
c.args(self=ENGINE, template_attribute='opaque')
c.raises(('exceptions.ItemNotFound', 'exceptions.InvalidField', 'exceptions.IndexOutOfBounds'))
c.returns(ATTRS)
c.trust("used at call sites as: returns the attribute dictionary (name -> decoded value object, a list of "
        "them for multivalued attributes) or raises ItemNotFound / InvalidField / IndexOutOfBounds.  The "
        "raising half and the absence of store effects are proved against the body by the variant contract "
        "_process_template_attribute#body (contracts/c_template.py); the typing of the returned dictionary is "
        "the assumed part")

c = contract(E + "_set_attributes_on_managed_object").props('C13', 'C15')
c.args(self=ENGINE, managed_object='opaque', attributes='opaque')
c.raises(('exceptions.InvalidField',))
c.trust("used at call sites as: sets attributes on the (not yet stored) object or raises InvalidField, without "
        "touching the store.  Exactly that is proved against the body, for a dictionary with any number of "
        "entries, by the variant contract _set_attributes_on_managed_object#body (contracts/c_template.py), "
        "which in turn uses _set_attribute_on_managed_object by its proved contract; only the typing of the "
        "dictionary entries is assumed")


def make_creator_predicates(n_objects):
    def t_identifier_discipline(ev, outcome, exc, path, I):
        """C07: each new object is added, then committed, and only then is its identifier read;
        the identifier reported (and left in the ID placeholder) is that of an object just added."""
        if outcome != 'return':
            return True
        adds = [e for e in ev if e[0] == 'db.add']
        if len(adds) != n_objects:
            return "%d objects added, expected %d" % (len(adds), n_objects)
        commits = [i for i, e in enumerate(ev) if e[0] == 'db.commit']
        if len(commits) != 1:
            return "%d commits" % len(commits)
        last_add = max(i for i, e in enumerate(ev) if e[0] == 'db.add')
        if commits[0] < last_add:
            return "an object is added after the commit (half of the result would not be stored)"
        assigned = [e[2] for e in ev if e[0] == 'db.assign_uid']
        eng = I.ghost_globals.get('__self__')
        ph = eng.fields.get('_id_placeholder')
        if I.pytype(ph) is not str:
            return ("the ID placeholder is left as a %s, not a string (later items of the batch build their "
                    "responses from it)" % getattr(I.pytype(ph), '__name__', '?'))
        src = getattr(ph, 'fields', {}).get('__str_of__')
        if src is None or not any(src.t.eq(a) for a in assigned):
            return "the ID placeholder is not the identifier assigned to an object created by this request"
        return True

    def t_owner(ev, outcome, exc, path, I):
        """C03: the owner of every new object is the requester, set before the commit."""
        if outcome != 'return':
            return True
        eng = I.ghost_globals.get('__self__')
        ident = eng.meta['initial_fields']['_client_identity']
        commit = min([i for i, e in enumerate(ev) if e[0] == 'db.commit'] or [10 ** 9])
        for e in ev:
            if e[0] == 'db.add':
                o = e[3]
                if o.fields.get('_owner') is not ident[0]:
                    return "a new object's owner is not the requesting identity"
        for i, e in enumerate(ev):
            if e[0] == 'db.mutate' and e[2] == '_owner' and i > commit:
                return "owner assigned after the commit"
        return True
    return t_identifier_discipline, t_owner


for hname, pcls, nobj in [("_process_create", PL + "create.CreateRequestPayload", 1),
                          ("_process_create_key_pair", PL + "create_key_pair.CreateKeyPairRequestPayload", 2)]:
    c = contract(E + hname).props('C03', 'C07', 'C08', 'C09', 'C13')
    # the decoder rejects a Create request without an object type (payload invariant)
    extra = {'_object_type': ('obj', 'kmip.core.primitives.Base',
                              {'value': ('enum', 'kmip.core.enums.ObjectType')})} \
        if hname == "_process_create" else {}
    c.args(self=ENGINE, payload=('payload', pcls, extra))
    c.let('__self__', 'self')
    c.raises(KMIP_ERRORS)
    t_id, t_own = make_creator_predicates(nobj)
    c.trace("identifier-read-after-commit", t_id)
    c.trace("owner-is-the-requester", t_own)
    c.trace("no-effect-before-raise", t_no_effect_before_raise)
    c.trace("single-transaction", t_single_transaction)
    c.modifies("self._id_placeholder")
# the merge loop only copies entries of one attribute dictionary into another: both stay attribute
# dictionaries (typing invariant of the loop, stated as the havoc kinds)
contract(E + "_process_create_key_pair").loop(0, "True", havoc={"public_key_attributes": ATTRS,
                                                              "private_key_attributes": ATTRS})

# ---------------------------------------------------------------- Register (C03 owner, C07, C08, C09, C13)
c = contract("kmip.pie.factory.ObjectFactory.convert").props('C05', 'C13')
c.args(self='opaque', obj='opaque')
c.returns(('managed_fresh',))
c.raises(('TypeError', 'ValueError'))
c.trust("conversion of a decoded core secret into the pie object to store: used at call sites as: returns a "
        "new, not yet stored object of one of the seven stored classes, or raises TypeError / ValueError for a "
        "secret the pie classes reject; both halves are proved against the body by the variant contract "
        "convert#to-pie (contracts/c_factory.py), which also proves the field-by-field fidelity (C05)")

c = contract("kmip.core.messages.payloads.register.RegisterResponsePayload.__init__").props('C07', 'C13')
c.args(self='opaque', unique_identifier='opaque', template_attribute='none')
c.ensures("self._unique_identifier == unique_identifier", name="identifier-as-given")
c.modifies("self._unique_identifier", "self._template_attribute")
c.trust("response payload constructor: type-checks and stores the identifier string (codec: C01); proved against "
        "the constructor body for every string by the variant contract __init__#body (contracts/c_response_ctors.py)")

c = contract(E + "_process_register").props('C03', 'C07', 'C08', 'C09', 'C13')
c.args(self=ENGINE, payload=('payload', PL + "register.RegisterRequestPayload",
                             {'_object_type': ('obj', 'kmip.core.primitives.Base',
                                               {'value': ('enum', 'kmip.core.enums.ObjectType')})}))
c.let('__self__', 'self')
c.raises(KMIP_ERRORS)
t_id, t_own = make_creator_predicates(1)
c.trace("identifier-read-after-commit", t_id)
c.trace("owner-is-the-requester", t_own)
c.trace("no-effect-before-raise", t_no_effect_before_raise)
c.trace("single-transaction", t_single_transaction)
c.modifies("self._id_placeholder")


def t_specific_attributes_win(ev, outcome, exc, path):
    """C05 (KMIP template precedence): a common template attribute is added to a key's attribute set
    only when that set does not already have the attribute; the key-specific value is never replaced."""
    import z3
    for e in ev:
        if e[0] != 'dict.update':
            continue
        if not e[4]:
            return ("an attribute dictionary is updated in bulk: an attribute given specifically for a key can be "
                    "replaced by the common one")
        for (k, v, absent) in e[4]:
            if absent is None or not (z3.is_true(z3.simplify(absent)) or path.is_valid(absent)):
                return "attribute %r is written into a key's attribute set although the key's own template may already define it" % (k,)
    return True


contract(E + "_process_create_key_pair").props('C05').trace("key-specific-attributes-take-precedence", t_specific_attributes_win)
contract(E + "_process_create_key_pair").scope('trace.key-specific', 'C05')
