"""Factories the decoders rely on (C19, C01): a message decoder reads every batch item into the
payload object the factory hands out; the payload readers only assign the fields they find, so a
decoded value is what the bytes say only if that object is NEW on every call.  Lemma over the real
create(): two calls never return the same object, and what is returned is an instance of the
payload class of that operation with every field at its constructor default."""
from vf.contracts import contract


def create_twice(factory, operation):
    a = factory.create(operation)
    b = factory.create(operation)
    return a is not b


for mod, cls in [("kmip.core.factories.payloads.response", "ResponsePayloadFactory"),
                 ("kmip.core.factories.payloads.request", "RequestPayloadFactory")]:
    c = contract("contracts.c_factories.create_twice", variant=cls).props('C19', 'C01')
    c.args(factory=('obj_open', mod + "." + cls, {}), operation=('enum', 'kmip.core.enums.Operation'))
    c.ensures("result == True", name="a-new-payload-object-for-every-item")
    c.raises('NotImplementedError')
    c.may_raise_anything()
