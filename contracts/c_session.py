"""C12 / C17 - contracts on the server session (kmip/services/server/session.py)."""
from vf.contracts import contract, spec_module
from contracts import spec_ttlv

spec_module(spec_ttlv)
S = "kmip.services.server.session.KmipSession."
SESSION = ('obj_open', 'kmip.services.server.session.KmipSession',
           {'_connection': ('model', 'Connection'), '_max_buffer_size': ('const', 4096),
            '_logger': 'logger'})

c = contract(S + "_receive_bytes").props('C12')
c.args(self=SESSION, message_size='nat')
c.loop(0, ["message + self._connection.remaining == old(self._connection.remaining)",
           "bytes_received == len(message)", "bytes_received <= message_size"],
       modifies=["self._connection.remaining"], decreases="message_size - bytes_received")
c.raises('exceptions.ConnectionClosed', emits=[('recv', 'closed')])
c.raises('ValueError', emits=[('recv', 'none')])
c.ensures("result + self._connection.remaining == old(self._connection.remaining)", name="prefix-of-stream")
c.ensures("len(result) == message_size", name="exact-length")
c.modifies("self._connection.remaining")
c.returns('bytes')
c.trace("value-error-only-when-the-stream-stalls",
        lambda ev, outcome, exc: True if not (outcome == 'raise' and exc.cls is ValueError)
        or ('recv', 'none') in ev else "ValueError although every recv delivered data")
c.trace("closed-only-when-the-peer-closed",
        lambda ev, outcome, exc: True if not (outcome == 'raise' and exc.cls.__name__ == 'ConnectionClosed')
        or ('recv', 'closed') in ev else "ConnectionClosed although the peer did not close")
c.native_check(lambda pre, post, raised: True if not isinstance(raised, ValueError)
               or len(pre['self']._connection.remaining) < pre['message_size']
               else "ValueError although the stream holds the whole message")

c = contract(S + "_receive_request").props('C12')
c.args(self=SESSION)
c.raises('exceptions.ConnectionClosed', emits=[('recv', 'closed')])
c.raises('ValueError', emits=[('recv', 'none')])
c.trace("value-error-only-when-the-stream-stalls",
        lambda ev, outcome, exc: True if not (outcome == 'raise' and exc.cls is ValueError)
        or ('recv', 'none') in ev else "ValueError although every recv delivered data")
c.trace("closed-only-when-the-peer-closed",
        lambda ev, outcome, exc: True if not (outcome == 'raise' and exc.cls.__name__ == 'ConnectionClosed')
        or ('recv', 'closed') in ev else "ConnectionClosed although the peer did not close")
c.ensures("result.buffer + self._connection.remaining == old(self._connection.remaining)", name="frame-is-prefix")
c.ensures("len(result.buffer) == 8 + be_int(result.buffer[4:8])", name="frame-length-from-header")
c.modifies("self._connection.remaining")
c.returns(('obj', 'kmip.core.utils.BytearrayStream', {'buffer': 'bytes'}))

c = contract(S + "_send_response").props('C12')
c.args(self=SESSION, data='bytes')
c.inlined()       # three lines: callers execute the body, so the socket model records the send
c.modifies("self._connection.sent")
c.trace("sends-once-iff-nonempty",
        lambda ev, outcome, exc: True if len([e for e in ev if e[0] == 'send']) <= 1 else "sent twice")

# ---------------------------------------------------------------- message loop (C12, C17)
RM = "kmip.core.messages.messages.RequestMessage."
HEADER = ('obj', 'kmip.core.messages.messages.RequestHeader',
          {'authentication': 'opaque', 'protocol_version': 'opaque'})

c = contract(RM + "read").props('C12', 'C17')
c.args(self=('obj', 'kmip.core.messages.messages.RequestMessage', {}), istream='opaque',
       kmip_version=('enum', 'kmip.core.enums.KMIPVersion'))
c.may_raise_anything()
c.modifies("self.request_header", "self.batch_items")
c.modifies_kinds = {"self.request_header": HEADER, "self.batch_items": 'opaque'}
# a failed decode leaves whatever was decoded so far: no header, or a header whose protocol
# version object exists but is only partly filled in
c.havoc_on_raise = {"self.request_header": ('oneof', 'none',
                    ('obj', 'kmip.core.messages.messages.RequestHeader',
                     {'authentication': 'opaque',
                      'protocol_version': ('oneof', 'none', ('opaque_facts', 'half-decoded-version', ['partial']))}))}
c.raised_repr_taint = ('wire',)       # repr() of a decode error may quote the bytes it choked on (UnicodeDecodeError.object)
c.trust("decoder of the request message (covered by C01/ttlvsym); here: any bytes either raise or "
        "yield a request with a header; the text of what it raises does not quote request data, its repr() may")

LOOP_SESSION = ('obj_open', 'kmip.services.server.session.KmipSession',
                {'_connection': ('model', 'Connection'), '_engine': ('model', 'Engine'),
                 '_max_buffer_size': ('const', 4096), '_max_response_size': ('const', 1048576),
                 '_enable_tls_client_auth': 'bool', '_auth_settings': 'opaque', '_logger': 'logger',
                 '_address': 'opaque', '_session_time': 'opaque', 'name': 'str'})
AUTH_FAIL = 'AUTHENTICATION_NOT_SUCCESSFUL'


def _names(ev, kind, suffix):
    return [i for i, e in enumerate(ev) if e[0] == kind and len(e) > 1 and str(e[1]).endswith(suffix)]


def t_one_response(ev, outcome, exc):
    if outcome != 'return':
        return True
    n = len([e for e in ev if e[0] == 'send'])
    return True if n == 1 else "%d responses sent for one request" % n


def t_engine_guarded(ev, outcome, exc):
    """process_request only after a successful decode and a successful authentication, with the
    identity that authentication returned."""
    for i, e in enumerate(ev):
        if e[0] != 'engine.process_request':
            continue
        before = ev[:i]
        reads = [x for x in before if x[0] == 'return' and x[1].endswith('RequestMessage.read')]
        auths = [x for x in before if x[0] == 'return' and x[1].endswith('KmipSession.authenticate')]
        certs = [x for x in before if x[0] == 'return' and x[1].endswith('get_certificate_from_connection')]
        if not reads:
            return "engine entered although the request was not decoded"
        if not auths:
            return "engine entered although authentication did not succeed"
        if not certs:
            return "engine entered without looking at the client certificate"
        if auths[-1][2] != e[2]:
            return "identity handed to the engine is not the one authentication returned"
    return True


def t_failures_answered(ev, outcome, exc):
    """No engine call => the response sent is an error response with the right reason."""
    if outcome != 'return':
        return True
    if any(e[0] == 'engine.process_request' for e in ev):
        return True
    errs = [e for e in ev if e[0] == 'engine.error_response']
    if not errs:
        return "no engine call and no error response"
    reasons = [getattr(e[1], 'name', str(e[1])) for e in errs]
    read_ok = any(x[0] == 'return' and x[1].endswith('RequestMessage.read') for x in ev)
    if read_ok and reasons[0] != AUTH_FAIL:
        return "request decoded, engine not entered, but the answer is %s" % reasons[0]
    if reasons[0] not in (AUTH_FAIL, 'INVALID_MESSAGE'):
        return "undecodable/unauthenticated request answered with %s" % reasons[0]
    return True


def t_sent_is_last_built(ev, outcome, exc):
    if outcome != 'return':
        return True
    writes = [e for e in ev if e[0] == 'response.write']
    errs = [e for e in ev if e[0] == 'engine.error_response']
    if len(writes) == 2:
        if writes[1][1] != 'error' or getattr(writes[1][2], 'name', '') != 'RESPONSE_TOO_LARGE':
            return "second encoding is not the response-too-large error"
    if len(writes) > 2:
        return "more than two encodings"
    return True


def t_oversize_iff(ev, outcome, exc, path):
    """The first encoding is replaced by the too-large error exactly when it is longer than the
    maximum response size the client asked for (1 MiB when it asked for none)."""
    import z3
    if outcome != 'return':
        return True
    writes = [e for e in ev if e[0] == 'response.write']
    if not writes:
        return "nothing encoded"
    mx = [e for e in ev if e[0] == 'engine.max']
    if mx:
        nomax, m = mx[-1][1], mx[-1][2]
        limit = z3.If(nomax, z3.IntVal(1048576), m)
    else:
        limit = z3.IntVal(1048576)
    too_long = z3.Length(writes[0][3]) > limit
    replaced = len(writes) == 2
    if replaced and not path.is_valid(too_long):
        return "response replaced by the too-large error although it fits"
    if not replaced and not path.is_valid(z3.Not(too_long)):
        return "oversized response sent as is"
    return True


def t_only_framing_raises(ev, outcome, exc):
    if outcome != 'raise':
        return True
    if any(e[0] == 'return' and e[1].endswith('_receive_request') for e in ev):
        return "exception %s escaped the message loop after the request was framed" % exc.cls.__name__
    return True


c = contract(S + "_handle_message_loop").props('C12', 'C17')
c.args(self=LOOP_SESSION)
c.raises(('exceptions.ConnectionClosed', 'ValueError'))
c.trace("exactly-one-response", t_one_response)
c.trace("engine-only-after-decode-and-authentication", t_engine_guarded)


def t_client_auth_usage_required(ev, outcome, exc, path, I):
    """With the extended-key-usage check enabled, the engine is entered only on paths that
    established that the certificate's extension contains the client-authentication usage itself."""
    import z3
    from cryptography import x509
    sess = I.ghost_globals.get('__session__')
    for i, e in enumerate(ev):
        if e[0] != 'engine.process_request':
            continue
        flag = sess.fields.get('_enable_tls_client_auth')
        on = I.truth(flag)
        if on is False or (on is not True and path.is_valid(z3.Not(on))):
            continue
        ext = [x for x in ev[:i] if x[0] == 'return' and x[1].endswith('get_extended_key_usage_from_certificate')]
        if not ext:
            return "the engine is entered with the usage check enabled although the extension was never read"
        asked = [x for x in ev[:i] if x[0] == 'contains' and x[1] == ext[-1][2]
                 and x[3] is x509.oid.ExtendedKeyUsageOID.CLIENT_AUTH]
        if not asked or not path.is_valid(asked[-1][4]):
            return ("the engine is entered with the usage check enabled on a path that did not establish that "
                    "the certificate carries the client-authentication extended key usage")
    return True


c.let('__session__', 'self')
c.trace("client-authentication-usage-required-when-enabled", t_client_auth_usage_required)


def t_engine_only_through_its_entry_points(ev, outcome, exc):
    """C10: a session thread uses the shared engine only through process_request (which takes the
    engine's lock) and build_error_response (which touches no per-request state); any other method
    or field of the engine reached from the session runs unlocked next to other sessions' requests."""
    for e in ev:
        if e[0] == 'engine.other':
            return "the session reaches into the engine outside its two entry points: %s" % e[1]
    return True


c.props('C10')
c.trace("engine-used-only-through-process-request-and-build-error-response", t_engine_only_through_its_entry_points)
c.scope('trace.engine-used-only', 'C10', 'C12')
c.trace("failures-answered-with-the-right-error", t_failures_answered)
c.trace("oversize-replaced-by-too-large-error", t_sent_is_last_built)


def t_sent_is_one_encoding(ev, outcome, exc, path):
    """C02: what goes out on the socket is the encoding of exactly one response message - the one
    built last - and nothing before or after it."""
    from vf.sym import seq_of
    sends = [e for e in ev if e[0] == 'send' and len(e) > 2]
    writes = [e for e in ev if e[0] == 'response.write']
    for s in sends:
        if not writes:
            return "bytes are sent although no response was encoded"
        try:
            ch = seq_of(s[2]).chunks
            sent = seq_of(s[2]).to_z3()
        except Exception:
            return "what is sent is not a byte string"
        same = len(ch) == 1 and ch[0][0] == 's' and ch[0][1].get_id() == writes[-1][3].get_id()
        if not same and not path.is_valid(sent == writes[-1][3]):
            return "the bytes sent are not exactly the encoding of the last response built (something precedes or follows it)"
    return True


c.trace("exactly-one-message-encoding-is-sent", t_sent_is_one_encoding)
c.trace("nothing-escapes-after-framing", t_only_framing_raises)
c.trace("too-large-error-iff-over-the-requested-maximum", t_oversize_iff)
c.modifies("self._connection.remaining", "self._connection.sent")
c.allow_external()

c = contract(S + "run").props('C12')
c.args(self=LOOP_SESSION)
c.loop(0, "True", modifies=["self._connection.remaining", "self._connection.sent"])
c.trace("loop-ends-only-when-the-peer-closes",
        lambda ev, outcome, exc: True if outcome != 'return'
        or any(e[0] == 'raise' and e[1] == 'ConnectionClosed' for e in ev)
        or any(e[0] == 'raise' and e[1] == 'HandshakeFailure' for e in ev)
        else "message loop left without ConnectionClosed")
c.raises('OSError')
c.modifies("self._connection.remaining", "self._connection.sent")
c.allow_external()


# ---------------------------------------------------------------- RequestMessage.read: all announced items or nothing
# C12 ("executes no part of a request it could not fully decode") rests on the decoder: the
# request handed to the engine holds exactly as many batch items as its header announces.  Proved
# against the body: the item loop runs over range(batch count), every iteration decodes one item
# and appends it (or raises), and the loop is never left early.
def t_one_item_per_announced_item(ev, outcome, exc):
    if any(e[0] == 'loop.break' for e in ev):
        return "the item loop is left before the announced number of batch items has been decoded"
    if outcome == 'iteration':
        reads = [e for e in ev if e[0] == 'return' and e[1].endswith('RequestBatchItem.read')]
        apps = [e for e in ev if e[0] == 'list.append']
        if len(reads) != 1 or len(apps) != 1:
            return "an iteration of the item loop decodes %d items and appends %d" % (len(reads), len(apps))
    return True


c = contract("kmip.core.messages.messages.RequestHeader.read", variant="for-message-read").props('C12')
c.args(self=('obj', 'kmip.core.messages.messages.RequestHeader', {}), istream='opaque', kmip_version='opaque')
c.may_raise_anything()
c.modifies("self.protocol_version", "self.batch_count")
c.modifies_kinds = {"self.protocol_version": 'opaque',
                    "self.batch_count": ('obj', 'kmip.core.messages.contents.BatchCount', {'value': 'nat'})}
c.trust("decoder of the request header (C01/ttlvsym): raises, or yields a protocol version and a batch count")

c = contract("kmip.core.messages.messages.RequestBatchItem.read", variant="for-message-read").props('C12')
c.args(self='opaque', istream='opaque', kmip_version=('oneof', 'opaque', 'none'))
c.may_raise_anything()
c.trust("decoder of one request batch item (C01/ttlvsym): raises or returns")

c = contract("kmip.core.primitives.Base.read", variant="for-message-read").props("C12")
c.args(self='opaque', istream='opaque', kmip_version='opaque')
c.may_raise_anything()
c.trust("tag/type/length of the enclosing structure (C01)")

c = contract(RM + "read", variant="all-announced-items").props('C12')
c.use_variant("for-message-read")
c.args(self=('obj', 'kmip.core.messages.messages.RequestMessage', {}), istream='opaque',
       kmip_version=('enum', 'kmip.core.enums.KMIPVersion'))
c.loop(0, "True", havoc={'self.batch_items': ('accumulator', 'opaque')}, modifies=["self.batch_items"])
c.may_raise_anything()
c.allow_external()
c.modifies("self.*")
c.trace("one-decoded-item-per-announced-item-and-no-early-exit", t_one_item_per_announced_item)
