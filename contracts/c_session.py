"""C12 / C17 - contracts on the server session (kmip/services/server/session.py)."""
from vf.contracts import contract, spec_module
from contracts import spec_ttlv

spec_module(spec_ttlv)
S = "kmip.services.server.session.KmipSession."
SESSION = ('obj', 'kmip.services.server.session.KmipSession',
           {'_connection': ('model', 'Connection'), '_max_buffer_size': ('const', 4096),
            '_logger': 'logger'})

c = contract(S + "_receive_bytes").props('C12')
c.args(self=SESSION, message_size='nat')
c.loop(0, ["message + self._connection.remaining == old(self._connection.remaining)",
           "bytes_received == len(message)", "bytes_received <= message_size"],
       modifies=["self._connection.remaining"], decreases="message_size - bytes_received")
c.raises(('exceptions.ConnectionClosed', 'ValueError'))
c.ensures("result + self._connection.remaining == old(self._connection.remaining)", name="prefix-of-stream")
c.ensures("len(result) == message_size", name="exact-length")
c.modifies("self._connection.remaining")
c.returns('bytes')
c.trace("value-error-only-when-the-stream-stalls",
        lambda ev, outcome, exc: True if not (outcome == 'raise' and exc.cls is ValueError)
        or ('recv', 'none') in ev else "ValueError although every recv delivered data")
c.trace("closed-only-when-the-peer-closed",
        lambda ev, outcome, exc: True if not (outcome == 'raise' and exc.cls.__name__ == 'ConnectionClosed')
        or ('recv', 'closed') in ev else "ConnectionClosed although the peer did not close")
c.native_check(lambda pre, post, raised: True if not isinstance(raised, ValueError)
               or len(pre['self']._connection.remaining) < pre['message_size']
               else "ValueError although the stream holds the whole message")

c = contract(S + "_receive_request").props('C12')
c.args(self=SESSION)
c.raises(('exceptions.ConnectionClosed', 'ValueError'))
c.ensures("result.buffer + self._connection.remaining == old(self._connection.remaining)", name="frame-is-prefix")
c.ensures("len(result.buffer) == 8 + be_int(result.buffer[4:8])", name="frame-length-from-header")
c.modifies("self._connection.remaining")

c = contract(S + "_send_response").props('C12')
c.args(self=SESSION, data='bytes')
c.trace("sends-once-iff-nonempty",
        lambda ev, outcome, exc: True if len([e for e in ev if e[0] == 'send']) <= 1 else "sent twice")
