"""TTLV encoding as defined by the KMIP specification, section 9.1 ("TTLV
Encoding"), written from the specification text - not from the code:

  item    = tag(3 bytes) type(1 byte) length(4 bytes, big-endian) value padding
  Integer      type 02, length 4, 32-bit two's complement big-endian, 4 pad bytes
  Long Integer type 03, length 8, 64-bit two's complement big-endian
  Big Integer  type 04, length multiple of 8, two's complement, sign-extended
  Enumeration  type 05, length 4, 32-bit unsigned big-endian, 4 pad bytes
  Boolean      type 06, length 8, 64-bit unsigned: 0 or 1
  Text String  type 07, length = number of bytes, padded with zeros to 8
  Byte String  type 08, like Text String
  Date-Time    type 09, length 8, as Long Integer (POSIX seconds)
  Interval     type 0A, length 4, 32-bit unsigned big-endian, 4 pad bytes
  Structure    type 01, length = total size of the (padded) children
"""
from vf.specrt import be, be_int, zeros, text_bytes, ite   # noqa: F401

T_STRUCTURE, T_INTEGER, T_LONG, T_BIG, T_ENUM, T_BOOL, T_TEXT, T_BYTES, T_DATE, T_INTERVAL = \
    1, 2, 3, 4, 5, 6, 7, 8, 9, 10


def padded(n):
    return n + (8 - n % 8) % 8


def pad_len(n):
    return (8 - n % 8) % 8


def hdr(tag_value, type_value, length):
    return be(3, tag_value) + be(1, type_value) + be(4, length)


def twos(bits, v):
    return ite(v >= 0, v, v + 2 ** bits)


def enc_integer(tag, v):
    return hdr(tag.value, T_INTEGER, 4) + be(4, twos(32, v)) + zeros(4)


def enc_long_integer(tag, v):
    return hdr(tag.value, T_LONG, 8) + be(8, twos(64, v))


def enc_date_time(tag, v):
    return hdr(tag.value, T_DATE, 8) + be(8, twos(64, v))


def enc_enumeration(tag, v):
    return hdr(tag.value, T_ENUM, 4) + be(4, v) + zeros(4)


def enc_boolean(tag, v):
    return hdr(tag.value, T_BOOL, 8) + be(8, ite(v, 1, 0))


def enc_interval(tag, v):
    return hdr(tag.value, T_INTERVAL, 4) + be(4, v) + zeros(4)


def enc_text_string(tag, s):
    return hdr(tag.value, T_TEXT, len(s)) + text_bytes(s) + zeros(pad_len(len(s)))


def enc_byte_string(tag, b):
    return hdr(tag.value, T_BYTES, len(b)) + b + zeros(pad_len(len(b)))
