"""C20 - secrets stay out of logs (INFO and above) and out of error messages.

Ghost state: a taint label set on every value of the executor.  Sources carry the label
`secret`: the `value` column of every stored object, every result of the cryptography engine
(keys, derived and wrapped material), credential values; whole message encodings carry `wire`.
Taint is field-sensitive (reading an untainted field of an object that also holds a secret is
clean; str()/repr()/format() of the object is the join of its fields) and flows through
formatting, concatenation, containers and uninterpreted calls.

Sinks, checked on every path of every function under contract that logs or raises on a response
path: arguments of logger.info/warning/error/critical/exception, and the message of every
exception that leaves a request handler (it becomes the result message sent to the client)."""
from vf.contracts import REGISTRY
from vf.sym import taint_of

LEVELS = ('info', 'warning', 'warn', 'error', 'critical', 'exception', 'fatal', 'log')
BAD = ('secret', 'wire')


def _text_taint(I, exc):
    """labels of the text str(exc) would have: its arguments, and - for exception classes that
    build their text in __str__ from their own fields - whatever that method formats"""
    t = taint_of(exc)
    try:
        import types
        m = I._class_attr(exc.cls, '__str__')
        if isinstance(m, types.FunctionType) and (m.__module__ or '').startswith('kmip'):
            t = t | taint_of(I.models.to_str(I, exc))
    except Exception:
        for f in exc.fields.values():
            t = t | taint_of(f)
    return t


def t_no_secret_in_logs_or_errors(ev, outcome, exc, path=None, I=None):
    for e in ev:
        if e[0] == 'log' and e[1] in LEVELS:
            hit = [t for t in BAD if t in e[2]]
            if hit:
                return "a %s record written by %s may contain %s data" % (e[1], e[3], '/'.join(hit))
    if outcome == 'raise' and exc is not None:
        hit = [t for t in BAD if t in (_text_taint(I, exc) if I is not None else taint_of(exc))]
        if hit:
            return "the text of the %s raised may contain %s data (it is returned to the client / logged)" % (
                exc.cls.__name__, '/'.join(hit))
    return True


def attach(prefixes):
    n = 0
    for key, c in list(REGISTRY.items()):
        if c.trusted or (c.variant and not c.qualname.startswith('kmip.pie.factory')) or \
                not any(c.qualname.startswith(p) for p in prefixes):
            continue
        if any(nm == "no-secret-in-logs-or-error-text" for nm, _ in getattr(c, 'traces_', [])):
            continue
        c.props('C20')
        c.trace("no-secret-in-logs-or-error-text", t_no_secret_in_logs_or_errors)
        sc = getattr(c, 'scopes_', None)
        if sc is None:
            c.scopes_ = sc = {}
        # every other clause of these contracts belongs to other properties
        n += 1
    return n


HANDLER_PREFIXES = ("kmip.services.server.engine.KmipEngine._process_",
                    "kmip.services.server.engine.KmipEngine.process_request",
                    "kmip.services.server.engine.KmipEngine._get_object",
                    "kmip.services.server.engine.KmipEngine._list_objects",
                    "kmip.services.server.engine.KmipEngine.build_error_response",
                    "kmip.services.server.engine.KmipEngine._set_attribute",
                    "kmip.services.server.engine.KmipEngine._delete_attribute",
                    "kmip.services.server.engine.KmipEngine._get_attributes",
                    "kmip.services.server.session.KmipSession.",
                    "kmip.services.kmip_protocol.KMIPProtocol.",
                    "kmip.services.server.auth.",
                    "kmip.pie.factory.",
                    "kmip.core.objects.KeyValue.")
