"""GetAttributes / GetAttributeList and the attribute reader they share (C03, C05, C08, C13, C16).

_get_attributes_from_managed_object is under its own contract, proved for an arbitrary requested
name (any number of names; the empty list means every name of the rule table): an attribute is
reported only if the request's protocol version supports it, does not deprecate it, it applies
to the object's type, and the value reported is the stored column.  The handlers are checked
against that contract (callers use the contract, not the body)."""
import z3

from vf.contracts import contract
from contracts import c_attributes
from contracts.c_engine import ENGINE, KMIP_ERRORS, E, UID
from contracts.handler_common import t_no_effect_before_raise, make_access_predicate

TEXT = ('obj', 'kmip.core.primitives.TextString', {'value': 'str'})
NAME = ('obj', 'kmip.core.primitives.TextString', {'value': c_attributes.FREE_NAMES})
REQ_NAMES = ('oneof', ('const', 'EMPTYLIST'), ('slist', c_attributes.FREE_NAMES))
PL = "kmip.core.messages.payloads."

# name -> (column holding the value, is it a collection)
COLUMN = {'Unique Identifier': 'unique_identifier', 'Name': 'names', 'Object Type': '_object_type',
          'Cryptographic Algorithm': 'cryptographic_algorithm', 'Cryptographic Length': 'cryptographic_length',
          'Certificate Type': 'certificate_type', 'Operation Policy Name': 'operation_policy_name',
          'Cryptographic Usage Mask': 'cryptographic_usage_masks', 'State': 'state',
          'Initial Date': 'initial_date', 'Object Group': 'object_groups',
          'Application Specific Information': 'app_specific_info', 'Sensitive': 'sensitive'}


def t_reported_only_if_visible(ev, outcome, exc, path, I):
    """Every attribute appended for the name of an arbitrary iteration: the name is in the rule table,
    supported and not deprecated under the request's version, applicable to the object's type."""
    eng = I.ghost_globals['__self__']
    mo = I.ghost_globals['__mo__']
    pol = eng.fields.get('_attribute_policy')
    names = [e[2] for e in ev if e[0] == 'loop.item' and e[1] == 0]
    apps = [e for e in ev if e[0] == 'list.append']
    if apps and not names:
        return "an attribute is reported outside the scan of the requested names"
    if not apps:
        return True
    name = names[-1]
    if not isinstance(name, str):
        return "requested name is not a constant"
    if pol is None:
        return "an attribute is reported without consulting the attribute rules of the request's version"
    rs = pol._attribute_rule_sets.get(name)
    if rs is None:
        return "attribute %r outside the rule table is reported" % name
    v = pol._version
    if not (v >= rs.version_added):
        return "%r is reported under KMIP %s, which does not define it yet" % (name, v)
    if rs.version_deprecated and v >= rs.version_deprecated:
        return "%r is reported under KMIP %s, which deprecates it" % (name, v)
    ot = mo.fields.get('_object_type')
    if ot not in rs.applies_to_object_types:
        return "%r is reported for a %s, to which it does not apply" % (name, ot)
    if name not in COLUMN:
        return "%r is reported although the server stores no such attribute" % name
    if len(apps) > 1 and not rs.multiple_instances_permitted:
        return "single-valued attribute %r reported %d times" % (name, len(apps))
    return True


c = contract(E + "_get_attributes_from_managed_object").props('C05', 'C13', 'C16')
c.args(self=ENGINE, managed_object=('managed', None, c_attributes.LISTS), attr_names=REQ_NAMES)
c.let('__self__', 'self').let('__mo__', 'managed_object')
c.loop(0, "True", havoc={'retrieved_attributes': ('accumulator', 'opaque')})
c.raises(None)
c.trace("attribute-reported-only-if-supported-undeprecated-applicable", t_reported_only_if_visible)
c.scope('trace.attribute-reported', 'C16', 'C05')
c.trace("reads-only", lambda ev, outcome, exc: True if not any(
    e[0] in ('db.add', 'db.delete', 'db.commit') or (e[0] == 'db.mutate' and e[5]) for e in ev)
    else "the attribute reader writes to the store")
c.returns(('accumulator', 'opaque'))
c.notes.append("multivalued attribute collections of the stored object: 0..3 / 0..2 symbolic instances (bounded)")
c.split_by = [('protocol-version', 6), ('managed-class', c_attributes.N_STORED_CLASSES)]

for hname, pcls, op, extra in [
        ("_process_get_attributes", PL + "get_attributes.GetAttributesRequestPayload", 'GET_ATTRIBUTES',
         {'_attribute_names': ('list', TEXT, (0, 1, 2))}),
        ("_process_get_attribute_list", PL + "get_attribute_list.GetAttributeListRequestPayload",
         'GET_ATTRIBUTE_LIST', {})]:
    c = contract(E + hname).props('C03', 'C08', 'C13', 'C16', 'C05')
    f = {'_unique_identifier': ('lazyopt', TEXT)}
    f.update(extra)
    c.args(self=ENGINE, payload=('obj', pcls, f))
    c.let('__self__', 'self').let('__payload__', 'payload')
    c.raises(KMIP_ERRORS)
    c.trace("no-effect-before-raise", t_no_effect_before_raise)
    c.trace("access-controlled", make_access_predicate([op]))
    c.trace("reads-only", lambda ev, outcome, exc: True if not any(
        e[0] in ('db.add', 'db.delete', 'db.commit') or (e[0] == 'db.mutate' and e[5]) for e in ev)
        else "a read-only operation writes to the store")
contract(E + "_process_get_attribute_list").loop(0, "True", havoc={'attribute_names': ('accumulator', 'opaque')})

for qn, fields in [(PL + "get_attributes.GetAttributesResponsePayload.__init__",
                    ("unique_identifier", "attributes")),
                   (PL + "get_attribute_list.GetAttributeListResponsePayload.__init__",
                    ("unique_identifier", "attribute_names"))]:
    c = contract(qn).props('C05', 'C13')
    c.args(self='opaque', **{fields[0]: 'opaque', fields[1]: 'opaque'})
    c.ensures("self._%s == %s" % (fields[1], fields[1]), name="content-as-given-in-order")
    c.ensures("self._unique_identifier == unique_identifier", name="identifier-as-given")
    c.modifies("self._unique_identifier", "self._" + fields[1])
    c.trust("response payload constructor: type-checks and stores the given identifier and list "
            "(its codec is covered by C01); abstracted as holding the given values")
