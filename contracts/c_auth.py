"""C17 - no request is evaluated before the client's identity is established."""
from vf.contracts import contract, spec_module
from vf import models_rt

A = "kmip.services.server.auth."
S = "kmip.services.server.session.KmipSession."
models_rt.UF_KINDS['common_names'] = ('slist', 'str')
CERT = 'opaque'

# ---- x509 helpers: third-party parsing is assumed (cryptography.x509)
c = contract(A + "utils.get_certificate_from_connection").props('C17')
c.args(connection='opaque')
c.returns(('oneof', 'none', 'opaque'))
c.may_raise_anything()
c.trust("cryptography.x509.load_der_x509_certificate / ssl.getpeercert: returns a certificate object "
        "or None, may raise")

c = contract(A + "utils.get_extended_key_usage_from_certificate").props('C17')
c.args(certificate=CERT)
c.returns(('oneof', 'none', 'opaque'))
c.may_raise_anything()
c.trust("cryptography.x509 extension lookup: the extendedKeyUsage value or None")

c = contract(A + "utils.get_common_names_from_certificate").props('C17')
c.args(certificate=CERT)
c.ensures("result == uf('common_names', certificate)")
c.may_raise_anything()
c.trust("cryptography.x509 subject lookup: the list of common names is a function of the certificate")

c = contract(A + "utils.get_client_identity_from_certificate").props('C17')
c.args(certificate=CERT)
c.may_raise_anything()       # only from the x509 call, before anything is decided
c.raises('exceptions.PermissionDenied')
c.ensures("len(uf('common_names', certificate)) == 1", name="exactly-one-common-name")
c.ensures("result == uf('common_names', certificate)[0]", name="identity-is-that-name")

# ---- SLUGS
c = contract(A + "slugs.SLUGSConnector.authenticate").props('C17')
c.args(self=('ctor', A + 'slugs.SLUGSConnector', {'url': ('oneof', 'none', 'str')}),
       connection_certificate=CERT, connection_info='opaque', request_credentials='opaque')
c.allow_external()
c.may_raise_anything()
c.ensures("result[0] == uf('common_names', connection_certificate)[0]", name="user-is-certificate-cn")
c.ensures("len(uf('common_names', connection_certificate)) == 1", name="exactly-one-common-name")
c.trace("both-lookups-answered",
        lambda ev, outcome, exc: True if outcome != 'return'
        or len([e for e in ev if e[0] == 'external' and 'requests' in e[1] and 'get' in e[1]]) >= 2
        else "returned an identity without querying users and groups")
c.returns(('tuple', 'str', 'opaque'))


def t_groups_are_the_answer(ev, outcome, exc, path, I):
    """The group list that accompanies the identity is the one the group look-up answered: the
    value returned is what `.get('groups')` of the decoded second answer gave - never a made-up
    default when the answer could not be decoded (that must fail the authentication)."""
    if outcome != 'return':
        return True
    res = I.ghost_globals.get('__result__')
    ext = [e for e in ev if e[0] == 'external']
    gets = [e for e in ext if e[1].endswith(".get()") and 'json()' in e[1]]
    groups = res[1] if isinstance(res, tuple) and len(res) == 2 else None
    if not gets or groups is not gets[-1][4]:
        return "the groups returned with the identity are not the group look-up's decoded answer"
    return True


c.trace("groups-are-what-the-group-lookup-answered", t_groups_are_the_answer)

# ---- the session's authenticate(): plugins in order, certificate CN only if no plugin is enabled
REQUEST = ('obj', 'kmip.core.messages.messages.RequestMessage',
           {'request_header': ('obj', 'kmip.core.messages.messages.RequestHeader',
                               {'authentication': ('oneof', 'none',
                                                   ('obj', 'kmip.core.messages.contents.Authentication',
                                                    {'_credentials': 'opaque'})),
                                'protocol_version': 'opaque'})})
AUTH_BLOCK = ('tuple', 'str', ('sdict', 'str'))
SESSION_AUTH = ('obj', 'kmip.services.server.session.KmipSession',
                {'_auth_settings': ('list', AUTH_BLOCK, (0, 1, 2, 3)), '_logger': 'logger',
                 '_address': 'opaque', '_session_time': 'opaque'})


def _auth_trace(ev, outcome, exc):
    if outcome != 'return':
        return True
    slugs_ok = [e for e in ev if e[0] == 'return' and e[1].endswith('SLUGSConnector.authenticate')]
    cn_ok = [e for e in ev if e[0] == 'return' and e[1].endswith('get_client_identity_from_certificate')]
    slugs_tried = [e for e in ev if e[0] == 'call' and e[1].endswith('SLUGSConnector.authenticate')]
    if slugs_ok:
        return True
    if cn_ok and not slugs_tried:
        return True
    return "identity returned although no plugin vouched for the user and a plugin was enabled"


c = contract(S + "authenticate").props('C17')
c.args(self=SESSION_AUTH, certificate=CERT, request=REQUEST)
c.raises('exceptions.PermissionDenied')
c.trace("identity-only-from-a-vouching-source", _auth_trace)
c.ensures("type_is(result, tuple) and len(result) == 2", name="identity-is-a-pair")
c.returns(('tuple', 'str', 'opaque'))
c.notes.append("bounded: 0..3 authentication blocks, each block fully symbolic")


# ---- the same function for ANY number of authentication blocks (loop invariant with a ghost)
SESSION_AUTH_ANY = ('obj', 'kmip.services.server.session.KmipSession',
                    {'_auth_settings': ('slist', AUTH_BLOCK), '_logger': 'logger',
                     '_address': 'opaque', '_session_time': 'opaque'})


def _auth_trace_any(ev, outcome, exc, path, I):
    """An identity is returned either by a plugin that vouched for the user, or from the certificate
    alone - and then no plugin was enabled in ANY block (ghost `enabled_seen` of the loop: the
    disjunction over all blocks scanned, tied to the function's own flag by the invariant)."""
    if outcome != 'return':
        return True
    slugs_ok = [e for e in ev if e[0] == 'return' and e[1].endswith('SLUGSConnector.authenticate')]
    cn_ok = [e for e in ev if e[0] == 'return' and e[1].endswith('get_client_identity_from_certificate')]
    if slugs_ok:
        return True
    if not cn_ok:
        return "identity returned without a vouching plugin and without reading the certificate"
    gh = path.ghost.get('loop_ghosts', {}).get(0)
    if gh is None:
        return "certificate identity returned from inside the plugin scan"
    seen = I.truth(gh['enabled_seen'])
    import z3
    if not (seen is False or (not isinstance(seen, bool) and path.is_valid(z3.Not(seen)))):
        return "certificate identity returned although a plugin may have been enabled"
    return True


c = contract(S + "authenticate", variant="any-number-of-plugins").props('C17')
c.args(self=SESSION_AUTH_ANY, certificate=CERT, request=REQUEST)
c.loop(0, ["plugin_enabled == enabled_seen"],
       ghost_init={'enabled_seen': 'False'},
       ghost_step={'enabled_seen': "enabled_seen or (plugin_name.startswith('auth:slugs') and "
                                   "plugin_config.get('enabled') == 'True')"},
       havoc={'client_identity': 'opaque'})
c.raises('exceptions.PermissionDenied')
c.trace("identity-only-from-a-vouching-source", _auth_trace_any)
c.ensures("type_is(result, tuple) and len(result) == 2", name="identity-is-a-pair")
c.returns(('tuple', 'str', 'opaque'))
