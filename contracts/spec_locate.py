"""Specification of Locate (C14), written from the property statement:

  "Locate returns exactly the objects the requester is permitted to locate that match every
   attribute filter in the request (name, state, object type, algorithm, length, usage-mask
   bits, policy name, object group, application-specific information, certificate type,
   identifier, sensitive flag, initial date exact or as a range), ordered newest first.  Offset
   and maximum items select the corresponding slice of that same ordered list."

All functions are in the Python fragment pyvc evaluates symbolically (and natively in replays).
`mo` is a stored object (columns as attributes), `a` a filter attribute of the request
(`a.attribute_name.value`, `a.attribute_value`)."""
from kmip.core import enums

# which stored classes carry which of the filterable attributes (KMIP: an attribute an object
# does not have cannot match a filter on it)
_KEYS = (enums.ObjectType.SYMMETRIC_KEY, enums.ObjectType.PUBLIC_KEY, enums.ObjectType.PRIVATE_KEY,
         enums.ObjectType.SPLIT_KEY)
_ALL = _KEYS + (enums.ObjectType.CERTIFICATE, enums.ObjectType.SECRET_DATA, enums.ObjectType.OPAQUE_DATA)
HAS = {
    'Unique Identifier': _ALL, 'Name': _ALL, 'Object Type': _ALL, 'Operation Policy Name': _ALL,
    'Initial Date': _ALL, 'Object Group': _ALL, 'Application Specific Information': _ALL, 'Sensitive': _ALL,
    'Cryptographic Algorithm': _KEYS, 'Cryptographic Length': _KEYS,
    'Certificate Type': (enums.ObjectType.CERTIFICATE,),
    'Cryptographic Usage Mask': _KEYS + (enums.ObjectType.CERTIFICATE, enums.ObjectType.SECRET_DATA),
    'State': _KEYS + (enums.ObjectType.CERTIFICATE, enums.ObjectType.SECRET_DATA),
}
FILTER_NAMES = tuple(sorted(HAS))
DATE = 'Initial Date'


def is_date(a):
    return a.attribute_name.value == DATE


def mask_subset(mask, held):
    """every bit of the requested mask is one of the object's usage masks"""
    ok = True
    for m in enums.CryptographicUsageMask:
        ok = conj(ok, implies((mask // m.value) % 2 == 1, m in held))
    return ok


def matches_but_mask(mo, a):
    """matches() for every filter except the usage mask, whose bit-by-bit scan is a loop of its own
    (judged member by member in the contract)."""
    if a.attribute_name.value == 'Cryptographic Usage Mask':
        return mo.object_type in HAS['Cryptographic Usage Mask']
    return matches(mo, a)


def matches(mo, a):
    """Does the stored object satisfy the (non-date) filter attribute a?  For the date filter this
    only says whether the object has the attribute at all; the value test is date_ok."""
    name = a.attribute_name.value
    v = a.attribute_value
    if mo.object_type not in HAS[name]:
        return False
    if name == 'Name':
        return v.name_type.value == enums.NameType.UNINTERPRETED_TEXT_STRING and \
            exists_in(mo.names, lambda n: n == v.name_value.value)
    if name == 'Object Group':
        return exists_in(mo.object_groups, lambda g: g.object_group == v.value)
    if name == 'Application Specific Information':
        return exists_in(mo.app_specific_info, lambda i: i.application_namespace == v.application_namespace and
                      i.application_data == v.application_data)
    if name == 'State':
        return mo.state == v.value
    if name == 'Object Type':
        return mo.object_type == v.value
    if name == 'Cryptographic Algorithm':
        return mo.cryptographic_algorithm == v.value
    if name == 'Cryptographic Length':
        return mo.cryptographic_length == v.value
    if name == 'Unique Identifier':
        return str(mo.unique_identifier) == v.value
    if name == 'Operation Policy Name':
        return mo.operation_policy_name == v.value
    if name == 'Cryptographic Usage Mask':
        return mask_subset(v.value, mo.cryptographic_usage_masks)
    if name == 'Certificate Type':
        return mo.certificate_type == v.value
    if name == 'Sensitive':
        return mo.sensitive == v.value
    return True         # Initial Date: judged by date_ok once all date filters are known


def date_ok(obj_date, nd, d1, d2):
    """One date filter is an exact match, two are an inclusive range (in either order)."""
    if nd == 0:
        return True
    if nd == 1:
        return obj_date == d1
    return min(d1, d2) <= obj_date and obj_date <= max(d1, d2)


def date_state(obj_date, nd, d1, d2):
    """The bookkeeping dictionary of the handler after nd (0..2) date filters d1, d2."""
    if nd == 0:
        return {}
    if nd == 1:
        return {"value": obj_date, "start": d1}
    return {"value": obj_date, "start": min(d1, d2), "end": max(d1, d2)}


def step_nd(nd, a):
    return nd + 1 if is_date(a) else nd


def step_d1(nd, d1, a):
    return a.attribute_value.value if is_date(a) and nd == 0 else d1


def step_d2(nd, d2, a):
    return a.attribute_value.value if is_date(a) and nd == 1 else d2
