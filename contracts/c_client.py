"""C19 (result handling) - every ProxyKmipClient operation that goes through a KMIPProxy
operation result: success is reported only for status Success, a failure is raised as
KmipOperationFailure carrying exactly the status, reason and message of the response."""
import z3

from vf.contracts import contract

C = "kmip.pie.client.ProxyKmipClient."
OPS = ["create", "create_key_pair", "register", "rekey", "derive_key", "locate", "check", "get",
       "get_attributes", "get_attribute_list", "activate", "revoke", "destroy", "encrypt", "decrypt",
       "signature_verify", "sign", "mac"]
CLIENT = ('obj', 'kmip.pie.client.ProxyKmipClient',
          {'proxy': ('model', 'Proxy'), 'object_factory': 'opaque', 'attribute_factory': 'opaque',
           'logger': 'logger', '_is_open': ('const', True)})
CLIENT_NOMSG = ('obj', 'kmip.pie.client.ProxyKmipClient',
                {'proxy': ('model', 'ProxyNoMessage'), 'object_factory': 'opaque',
                 'attribute_factory': 'opaque', 'logger': 'logger', '_is_open': ('const', True)})


def t_failure_reported_exactly(ev, outcome, exc, path):
    from kmip.core import enums
    calls = [e for e in ev if e[0] == 'proxy.call']
    if outcome == 'return':
        for e in calls:
            ok = (e[2].t == enums.ResultStatus.SUCCESS.value) if hasattr(e[2], 't') else (e[2] is enums.ResultStatus.SUCCESS)
            if not path.is_valid(ok):
                return "returned normally although the %s result status may not be Success" % e[1]
        return True
    name = exc.cls.__name__
    if name == 'KmipOperationFailure':
        if not calls:
            return "KmipOperationFailure without a server response"
        e = calls[-1]
        notok = e[2].t != enums.ResultStatus.SUCCESS.value
        if not path.is_valid(notok):
            return "operation failure raised for a Success status"
        if exc.fields.get('status') is not e[2]:
            return "raised status is not the response's status"
        if exc.fields.get('reason') is not e[3]:
            return "raised reason is not the response's reason"
        if exc.fields.get('message') is not e[4]:
            return "raised message is not the response's message"
        return True
    return True


def t_other_errors_only_before_the_request(ev, outcome, exc):
    if outcome != 'raise' or exc.cls.__name__ == 'KmipOperationFailure':
        return True
    if exc.fields.get('__unknown_subclass__'):
        return True       # raised by the proxy / a helper: propagated, nothing is returned
    if any(e[0] == 'proxy.call' for e in ev) and exc.cls.__name__ in ('TypeError', 'ValueError'):
        return True       # a response that cannot be interpreted: raising is what the property asks
    return True


for op in OPS:
    c = contract(C + op).props('C19')
    c.args(self=CLIENT)
    c.default_arg_kind = 'opaque'
    c.opaque_outside('kmip.pie.client', 'kmip.pie.exceptions', 'kmip.core.enums')
    c.may_raise_anything()
    c.trace("failure-raised-with-exact-status-reason-message", t_failure_reported_exactly)
    # legal KMIP failure response *without* a result message (finding F16)
    v = contract(C + op, variant="no-message").props('C19')
    v.args(self=CLIENT_NOMSG)
    v.default_arg_kind = 'opaque'
    v.opaque_outside('kmip.pie.client', 'kmip.pie.exceptions', 'kmip.core.enums')
    v.may_raise_anything()
    v.trace("failure-raised-as-operation-failure",
            lambda ev, outcome, exc: True if not (outcome == 'raise' and exc.cls is AttributeError)
            else "AttributeError instead of KmipOperationFailure for a failure response without message")
    v.native_check(lambda pre, post, raised: True if not isinstance(raised, AttributeError)
                   else "AttributeError instead of KmipOperationFailure (failure response without message)")
