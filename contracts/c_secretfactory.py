"""C05 / C13 - kmip.core.factories.secrets.SecretFactory.create, the last step of Get: the core
secret returned to the client is built from the dictionary KmipEngine._build_core_object fills from
the stored object's columns.  The request handlers use an abstraction of this step ("a new secret
of the class belonging to the object type, holding the given dictionary, never raises"); here that
abstraction is PROVED of the real factory and the real core constructors, for every dictionary of
the shape _build_core_object produces: the class is right, every field is the dictionary's entry,
and nothing is raised.  Lemma drivers below are ordinary functions of this module (interpreted
symbolically like repository code); what they call is the real factory."""
import sys

from kmip.core import enums as _enums
from vf.contracts import contract, spec_module


def create_key(factory, object_type, algorithm, length, key_format, value, wrapping):
    return factory.create(object_type, {
        'cryptographic_algorithm': algorithm, 'cryptographic_length': length, 'key_format_type': key_format,
        'key_value': value, 'key_wrapping_data': wrapping})


def create_wrapped_key(factory, object_type, algorithm, length, key_format, value, wrapping_method, eki_uid,
                       eki_mode, mski_uid, mski_hash, mac_signature, iv_counter_nonce, encoding_option):
    return factory.create(object_type, {
        'cryptographic_algorithm': algorithm, 'cryptographic_length': length, 'key_format_type': key_format,
        'key_value': value,
        'key_wrapping_data': {
            'wrapping_method': wrapping_method,
            'encryption_key_information': {'unique_identifier': eki_uid,
                                           'cryptographic_parameters': {'block_cipher_mode': eki_mode}},
            'mac_signature_key_information': {'unique_identifier': mski_uid,
                                              'cryptographic_parameters': {'hashing_algorithm': mski_hash}},
            'mac_signature': mac_signature, 'iv_counter_nonce': iv_counter_nonce,
            'encoding_option': encoding_option}})


def create_split_key(factory, algorithm, length, key_format, value, parts, identifier, threshold, method, prime):
    from kmip.core import enums
    return factory.create(enums.ObjectType.SPLIT_KEY, {
        "cryptographic_algorithm": algorithm, "cryptographic_length": length, "key_format_type": key_format,
        "key_value": value, "key_wrapping_data": None, "split_key_parts": parts,
        "key_part_identifier": identifier, "split_key_threshold": threshold, "split_key_method": method,
        "prime_field_size": prime})


def create_secret_data(factory, value, data_type):
    from kmip.core import enums
    return factory.create(enums.ObjectType.SECRET_DATA, {
        'key_format_type': enums.KeyFormatType.OPAQUE, 'key_value': value, 'secret_data_type': data_type})


def create_opaque(factory, opaque_type, value):
    from kmip.core import enums
    return factory.create(enums.ObjectType.OPAQUE_DATA, {'opaque_data_type': opaque_type, 'opaque_data_value': value})


def create_certificate(factory, certificate_type, value):
    from kmip.core import enums
    return factory.create(enums.ObjectType.CERTIFICATE, {'certificate_type': certificate_type,
                                                         'certificate_value': value})


spec_module(sys.modules[__name__])
L = "contracts.c_secretfactory."
# the handler contracts use KeyWrappingData's constructor through a short trusted contract; the
# lemmas below run its real body instead
contract("kmip.core.objects.KeyWrappingData.__init__", variant="real-body").inlined()
FACTORY = ('ctor', 'kmip.core.factories.secrets.SecretFactory', {})
SECRET = ('tainted_bytes', 'secret')
E = lambda n: ('enum', 'kmip.core.enums.' + n)      # noqa: E731
KEY_TYPES = ('oneof', ('const', 'SYMMETRIC_KEY'), ('const', 'PUBLIC_KEY'), ('const', 'PRIVATE_KEY'))
CLASS_OF = {'SYMMETRIC_KEY': 'SymmetricKey', 'PUBLIC_KEY': 'PublicKey', 'PRIVATE_KEY': 'PrivateKey'}

KEY_POSTS = [
    ("type(result).__name__ == CLASS_OF[object_type.name]", "class-belongs-to-the-object-type"),
    ("result.key_block.key_value.key_material.value == value", "key-bytes-are-the-stored-value"),
    ("result.key_block.key_format_type.value == key_format", "key-format-is-the-stored-one"),
    ("result.key_block.cryptographic_algorithm.value == algorithm", "algorithm-is-the-stored-one"),
    ("result.key_block.cryptographic_length.value == length", "length-is-the-stored-one"),
    ("result.key_block.key_compression_type is None", "no-compression-invented"),
]
for ot in ('SYMMETRIC_KEY', 'PUBLIC_KEY', 'PRIVATE_KEY'):
    c = contract(L + "create_key", variant=ot).props('C05', 'C13')
    c.args(factory=FACTORY, object_type=('const', getattr(_enums.ObjectType, ot)),
           algorithm=E('CryptographicAlgorithm'), length='int32nat', key_format=E('KeyFormatType'), value=SECRET,
           wrapping=('oneof', ('const', None), ('const', {})))
    c.raises(None)
    for src, name in KEY_POSTS:
        c.ensures(src, name=name)
    c.ensures("result.key_block.key_wrapping_data is None", name="an-unwrapped-key-gets-no-wrapping-data")

    c = contract(L + "create_wrapped_key", variant=ot).props('C05', 'C13')
    c.use_variant("real-body")
    c.args(factory=FACTORY, object_type=('const', getattr(_enums.ObjectType, ot)),
           algorithm=E('CryptographicAlgorithm'), length='int32nat', key_format=E('KeyFormatType'), value=SECRET,
           wrapping_method=E('WrappingMethod'), eki_uid='nonempty_str', eki_mode=('opt', E('BlockCipherMode')),
           mski_uid='nonempty_str', mski_hash=('opt', E('HashingAlgorithm')),
           mac_signature=('opt', 'bytes'), iv_counter_nonce=('opt', 'bytes'),
           encoding_option=('opt', E('EncodingOption')))
    c.raises(None)
    for src, name in KEY_POSTS:
        c.ensures(src, name=name)
    c.ensures("result.key_block.key_wrapping_data.wrapping_method == wrapping_method", name="wrapping-method-kept")
    c.ensures("result.key_block.key_wrapping_data.encryption_key_information.unique_identifier == eki_uid",
              name="wrapping-key-identifier-kept")
    c.ensures("result.key_block.key_wrapping_data.encryption_key_information.cryptographic_parameters"
              ".block_cipher_mode == eki_mode", name="wrapping-cipher-mode-kept")
    c.ensures("result.key_block.key_wrapping_data.mac_signature_key_information.unique_identifier == mski_uid",
              name="mac-key-identifier-kept")
    c.ensures("result.key_block.key_wrapping_data.mac_signature_key_information.cryptographic_parameters"
              ".hashing_algorithm == mski_hash", name="mac-hash-kept")
    c.ensures("result.key_block.key_wrapping_data.encoding_option == encoding_option", name="encoding-option-kept")

c = contract(L + "create_split_key").props('C05', 'C13')
c.args(factory=FACTORY, algorithm=E('CryptographicAlgorithm'), length='int32nat', key_format=E('KeyFormatType'),
       value=SECRET, parts='int32nat', identifier='int32nat', threshold='int32nat', method=E('SplitKeyMethod'),
       prime=('opt', 'nat'))
c.raises(None)
c.ensures("type(result).__name__ == 'SplitKey'", name="class-belongs-to-the-object-type")
c.ensures("result.key_block.key_value.key_material.value == value", name="key-bytes-are-the-stored-value")
c.ensures("result.key_block.key_format_type.value == key_format and "
          "result.key_block.cryptographic_algorithm.value == algorithm and "
          "result.key_block.cryptographic_length.value == length", name="key-block-fields-are-the-stored-ones")
c.ensures("result.split_key_parts == parts and result.key_part_identifier == identifier and "
          "result.split_key_threshold == threshold and result.split_key_method == method and "
          "result.prime_field_size == prime", name="split-key-fields-are-the-stored-ones")

c = contract(L + "create_secret_data").props('C05', 'C13')
c.args(factory=FACTORY, value=SECRET, data_type=E('SecretDataType'))
c.raises(None)
c.ensures("type(result).__name__ == 'SecretData'", name="class-belongs-to-the-object-type")
c.ensures("result.key_block.key_value.key_material.value == value", name="secret-bytes-are-the-stored-value")
c.ensures("result.secret_data_type.value == data_type", name="data-type-is-the-stored-one")

c = contract(L + "create_opaque").props('C05', 'C13')
c.args(factory=FACTORY, opaque_type=E('OpaqueDataType'), value=SECRET)
c.raises(None)
c.ensures("type(result).__name__ == 'OpaqueObject'", name="class-belongs-to-the-object-type")
c.ensures("result.opaque_data_value.value == value", name="opaque-bytes-are-the-stored-value")
c.ensures("result.opaque_data_type.value == opaque_type", name="opaque-type-is-the-stored-one")

c = contract(L + "create_certificate").props('C05', 'C13')
c.args(factory=FACTORY, certificate_type=E('CertificateType'), value='bytes')
c.raises(None)
c.ensures("type(result).__name__ == 'Certificate'", name="class-belongs-to-the-object-type")
c.ensures("result.certificate_value.value == value", name="certificate-bytes-are-the-stored-value")
c.ensures("result.certificate_type.value == certificate_type", name="certificate-type-is-the-stored-one")
