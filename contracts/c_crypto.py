"""kmip.services.server.crypto.engine.CryptographyEngine (C06): plumbing contracts.

The `cryptography` library is a trusted external: every call into it is an uninterpreted
constructor recorded with its arguments.  What is decided is which library objects are built
from which arguments and what is returned - written from the property text ("encryption results
equal those of an independent use of the same cipher with the stated parameters", "authenticated
modes reject any change", "Decrypt inverts Encrypt"): both directions build the *same* cipher
term (algorithm class of the table applied to the key, mode class of the table applied to the
IV [and tag]), feed exactly the (padded) input, and finish the operation (finalize), which is
where the library verifies the authentication tag."""
from vf.contracts import contract

CE = "kmip.services.server.crypto.engine.CryptographyEngine."
ENGINE = ('ctor', 'kmip.services.server.crypto.engine.CryptographyEngine', {})
ALG = ('enum', 'kmip.core.enums.CryptographicAlgorithm')
MODE = ('oneof', 'none', ('enum', 'kmip.core.enums.BlockCipherMode'))
PAD = ('oneof', 'none', ('enum', 'kmip.core.enums.PaddingMethod'))
OB = ('oneof', 'none', 'bytes')
KEY = ('tainted_bytes', 'secret')


def _ext(ev):
    return [e for e in ev if e[0] == 'external']


def make_cipher_predicate(direction):
    """direction: 'encryptor' | 'decryptor'"""
    def pred(ev, outcome, exc, path, I):
        if outcome != 'return':
            return True
        eng = I.ghost_globals['__self__']
        alg = I.resolve_enum(I.ghost_globals['__alg__'])
        mode = I.ghost_globals['__mode__']
        mode = I.resolve_enum(mode) if mode is not None else None
        key = I.ghost_globals['__key__']
        data = I.ghost_globals['__data__']
        ext = _ext(ev)
        ciphers = [e for e in ext if e[1].endswith('.Cipher')]
        if len(ciphers) != 1:
            return "%d Cipher objects built" % len(ciphers)
        ci = ciphers[0]
        a_obj, m_obj = (list(ci[2]) + [None, None])[:2]
        want_alg = eng.fields['_symmetric_key_algorithms'].get(alg)
        a_call = [e for e in ext if e[4] is a_obj]
        if want_alg is None or not a_call or not a_call[0][1].endswith(want_alg.__name__) \
                or not a_call[0][2] or a_call[0][2][0] is not key:
            return "the cipher is not the table's algorithm for %s applied to the given key" % alg.name
        from kmip.core import enums
        if alg is enums.CryptographicAlgorithm.RC4:
            if m_obj is not None:
                return "RC4 used with a block cipher mode"
        else:
            want_mode = eng.fields['_modes'].get(mode)
            m_call = [e for e in ext if e[4] is m_obj]
            if want_mode is None or not m_call or not m_call[0][1].endswith(want_mode.__name__):
                return "the mode object is not the table's mode for %s" % (mode.name if mode else None)
        ops = [e for e in ext if ('.%s()' % direction) in e[1]]
        upd = [i for i, e in enumerate(ops) if e[1].endswith('.update()')]
        fin = [i for i, e in enumerate(ops) if e[1].endswith('.finalize()')]
        if len(upd) != 1 or len(fin) != 1 or fin[0] < upd[0]:
            return ("the %s is not driven as update(data) followed by finalize() (finalize is where an "
                    "authenticated mode verifies the tag)" % direction)
        other = 'decryptor' if direction == 'encryptor' else 'encryptor'
        if any(('.%s()' % other) in e[1] for e in ext):
            return "the cipher is used in the %s direction" % other
        # IV / nonce: the one given, else a fresh os.urandom value that is also returned
        iv = I.ghost_globals['__iv__']
        if alg is not enums.CryptographicAlgorithm.RC4 and m_call and m_call[0][2]:
            used = m_call[0][2][0]
            rnd = [e for e in ext if e[1].endswith('urandom')]
            if iv is not None:
                if used is not iv:
                    return "the mode is not initialised with the IV / nonce given"
            elif direction == 'encryptor':
                if not rnd or used is not rnd[-1][4]:
                    return "no IV given and the mode is not initialised with a fresh random one"
                res = I.ghost_globals.get('__result__')
                if not isinstance(res, dict) or res.get('iv_nonce') is not used:
                    return "the generated IV / nonce is not returned with the cipher text"
        # padding exactly for the block modes that need it
        padded = any(('.padder()' if direction == 'encryptor' else '.unpadder()') in e[1] for e in ext)
        needs = mode in (enums.BlockCipherMode.CBC, enums.BlockCipherMode.ECB)
        if padded != needs:
            return "padding is %s for mode %s" % ("applied" if padded else "not applied", mode.name if mode else None)
        if not needs and ops[upd[0]][2][1] is not data:
            return "the data handed to the cipher is not the given data"
        aad = I.ghost_globals['__aad__']
        aads = [e for e in ops if e[1].endswith('.authenticate_additional_data()')]
        if (aad is None) != (not aads) or (aads and aads[0][2][1] is not aad):
            return "the additional authenticated data handed to the cipher is not the given one"
        return True
    return pred


for fname, direction, dataname in [("_encrypt_symmetric", 'encryptor', 'plain_text'),
                                   ("_decrypt_symmetric", 'decryptor', 'cipher_text')]:
    c = contract(CE + fname).props('C06')
    kinds = dict(self=ENGINE, encryption_key=KEY, cipher_mode=MODE, padding_method=PAD, iv_nonce=OB,
                 auth_additional_data=OB)
    kinds['encryption_algorithm' if fname == "_encrypt_symmetric" else 'decryption_algorithm'] = ALG
    kinds['decryption_key' if fname == "_decrypt_symmetric" else 'encryption_key'] = KEY
    if fname == "_decrypt_symmetric":
        kinds.pop('encryption_key')
        kinds['auth_tag'] = OB
    else:
        kinds['auth_tag_length'] = ('oneof', 'none', 'nat')
    kinds[dataname] = 'bytes'
    c.args(**kinds)
    c.let('__self__', 'self').let('__alg__', 'encryption_algorithm' if fname == "_encrypt_symmetric"
                                  else 'decryption_algorithm')
    c.let('__mode__', 'cipher_mode').let('__key__', 'encryption_key' if fname == "_encrypt_symmetric"
                                         else 'decryption_key')
    c.let('__data__', dataname).let('__aad__', 'auth_additional_data').let('__iv__', 'iv_nonce')
    c.max_paths = 30000
    c.allow_external()
    c.raises(('exceptions.InvalidField', 'exceptions.CryptographicFailure'))
    c.may_raise_anything()
    c.trace("same-cipher-term-fed-and-finalized", make_cipher_predicate(direction))
