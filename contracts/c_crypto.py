"""kmip.services.server.crypto.engine.CryptographyEngine (C06): plumbing contracts.

The `cryptography` library is a trusted external: every call into it is an uninterpreted
constructor recorded with its arguments.  What is decided is which library objects are built
from which arguments and what is returned - written from the property text ("encryption results
equal those of an independent use of the same cipher with the stated parameters", "authenticated
modes reject any change", "Decrypt inverts Encrypt"): both directions build the *same* cipher
term (algorithm class of the table applied to the key, mode class of the table applied to the
IV [and tag]), feed exactly the (padded) input, and finish the operation (finalize), which is
where the library verifies the authentication tag."""
from vf.contracts import contract

CE = "kmip.services.server.crypto.engine.CryptographyEngine."
ENGINE = ('ctor', 'kmip.services.server.crypto.engine.CryptographyEngine', {})
ALG = ('enum', 'kmip.core.enums.CryptographicAlgorithm')
MODE = ('oneof', 'none', ('enum', 'kmip.core.enums.BlockCipherMode'))
PAD = ('oneof', 'none', ('enum', 'kmip.core.enums.PaddingMethod'))
OB = ('oneof', 'none', 'bytes')
KEY = ('tainted_bytes', 'secret')


def _ext(ev):
    return [e for e in ev if e[0] == 'external']


def make_cipher_predicate(direction):
    """direction: 'encryptor' | 'decryptor'"""
    def pred(ev, outcome, exc, path, I):
        if outcome != 'return':
            return True
        eng = I.ghost_globals['__self__']
        alg = I.resolve_enum(I.ghost_globals['__alg__'])
        mode = I.ghost_globals['__mode__']
        mode = I.resolve_enum(mode) if mode is not None else None
        key = I.ghost_globals['__key__']
        data = I.ghost_globals['__data__']
        ext = _ext(ev)
        ciphers = [e for e in ext if e[1].endswith('.Cipher')]
        if len(ciphers) != 1:
            return "%d Cipher objects built" % len(ciphers)
        ci = ciphers[0]
        a_obj, m_obj = (list(ci[2]) + [None, None])[:2]
        want_alg = eng.fields['_symmetric_key_algorithms'].get(alg)
        a_call = [e for e in ext if e[4] is a_obj]
        if want_alg is None or not a_call or not a_call[0][1].endswith(want_alg.__name__) \
                or not a_call[0][2] or a_call[0][2][0] is not key:
            return "the cipher is not the table's algorithm for %s applied to the given key" % alg.name
        from kmip.core import enums
        if alg is enums.CryptographicAlgorithm.RC4:
            if m_obj is not None:
                return "RC4 used with a block cipher mode"
        else:
            want_mode = eng.fields['_modes'].get(mode)
            m_call = [e for e in ext if e[4] is m_obj]
            if want_mode is None or not m_call or not m_call[0][1].endswith(want_mode.__name__):
                return "the mode object is not the table's mode for %s" % (mode.name if mode else None)
        ops = [e for e in ext if ('.%s()' % direction) in e[1]]
        upd = [i for i, e in enumerate(ops) if e[1].endswith('.update()')]
        fin = [i for i, e in enumerate(ops) if e[1].endswith('.finalize()')]
        if len(upd) != 1 or len(fin) != 1 or fin[0] < upd[0]:
            return ("the %s is not driven as update(data) followed by finalize() (finalize is where an "
                    "authenticated mode verifies the tag)" % direction)
        other = 'decryptor' if direction == 'encryptor' else 'encryptor'
        if any(('.%s()' % other) in e[1] for e in ext):
            return "the cipher is used in the %s direction" % other
        # IV / nonce: the one given, else a fresh os.urandom value that is also returned
        iv = I.ghost_globals['__iv__']
        if alg is not enums.CryptographicAlgorithm.RC4 and m_call and m_call[0][2]:
            used = m_call[0][2][0]
            rnd = [e for e in ext if e[1].endswith('urandom')]
            if iv is not None:
                if used is not iv:
                    return "the mode is not initialised with the IV / nonce given"
            elif direction == 'encryptor':
                if not rnd or used is not rnd[-1][4]:
                    return "no IV given and the mode is not initialised with a fresh random one"
                res = I.ghost_globals.get('__result__')
                if not isinstance(res, dict) or res.get('iv_nonce') is not used:
                    return "the generated IV / nonce is not returned with the cipher text"
        # padding exactly for the block modes that need it
        padded = any(('.padder()' if direction == 'encryptor' else '.unpadder()') in e[1] for e in ext)
        needs = mode in (enums.BlockCipherMode.CBC, enums.BlockCipherMode.ECB)
        if padded != needs:
            return "padding is %s for mode %s" % ("applied" if padded else "not applied", mode.name if mode else None)
        if not needs and ops[upd[0]][2][1] is not data:
            return "the data handed to the cipher is not the given data"
        aad = I.ghost_globals['__aad__']
        aads = [e for e in ops if e[1].endswith('.authenticate_additional_data()')]
        if (aad is None) != (not aads) or (aads and aads[0][2][1] is not aad):
            return "the additional authenticated data handed to the cipher is not the given one"
        return True
    return pred


for fname, direction, dataname in [("_encrypt_symmetric", 'encryptor', 'plain_text'),
                                   ("_decrypt_symmetric", 'decryptor', 'cipher_text')]:
    c = contract(CE + fname).props('C06')
    kinds = dict(self=ENGINE, encryption_key=KEY, cipher_mode=MODE, padding_method=PAD, iv_nonce=OB,
                 auth_additional_data=OB)
    kinds['encryption_algorithm' if fname == "_encrypt_symmetric" else 'decryption_algorithm'] = ALG
    kinds['decryption_key' if fname == "_decrypt_symmetric" else 'encryption_key'] = KEY
    if fname == "_decrypt_symmetric":
        kinds.pop('encryption_key')
        kinds['auth_tag'] = OB
    else:
        kinds['auth_tag_length'] = ('oneof', 'none', 'nat')
    kinds[dataname] = 'bytes'
    c.args(**kinds)
    c.let('__self__', 'self').let('__alg__', 'encryption_algorithm' if fname == "_encrypt_symmetric"
                                  else 'decryption_algorithm')
    c.let('__mode__', 'cipher_mode').let('__key__', 'encryption_key' if fname == "_encrypt_symmetric"
                                         else 'decryption_key')
    c.let('__data__', dataname).let('__aad__', 'auth_additional_data').let('__iv__', 'iv_nonce')
    c.max_paths = 30000
    c.allow_external()
    c.raises(('exceptions.InvalidField', 'exceptions.CryptographicFailure'))
    c.may_raise_anything()
    c.trace("same-cipher-term-fed-and-finalized", make_cipher_predicate(direction))


# ---------------------------------------------------------------- wrap_key, create_symmetric_key, mac
def t_wrap(ev, outcome, exc, path, I):
    """RFC 3394 wrap: aes_key_wrap(wrapping key, key material) - in that order - and its result is
    what is returned."""
    if outcome != 'return':
        return True
    calls = [e for e in _ext(ev) if e[1].endswith('aes_key_wrap')]
    if len(calls) != 1:
        return "%d key wrap calls" % len(calls)
    a = calls[0][2]
    if len(a) < 2 or a[0] is not I.ghost_globals['__key__'] or a[1] is not I.ghost_globals['__data__']:
        return "aes_key_wrap is not called as (wrapping key, key material)"
    if I.ghost_globals.get('__result__') is not calls[0][4]:
        return "the value returned is not the result of the key wrap"
    return True


c = contract(CE + "wrap_key").props('C06')
c.args(self=ENGINE, key_material=KEY, wrapping_method=('enum', 'kmip.core.enums.WrappingMethod'),
       key_wrap_algorithm=MODE, encryption_key=KEY)
c.let('__key__', 'encryption_key').let('__data__', 'key_material')
c.allow_external()
c.raises(('exceptions.InvalidField', 'exceptions.CryptographicFailure'))
c.trace("rfc3394-wrap-of-the-material-under-the-wrapping-key", t_wrap)


def t_fresh_key(ev, outcome, exc, path, I):
    """Generated key material is a fresh os.urandom value of exactly length // 8 bytes."""
    if outcome != 'return':
        return True
    from vf.sym import int_term
    rnd = [e for e in _ext(ev) if e[1].endswith('urandom')]
    res = I.ghost_globals.get('__result__')
    if len(rnd) != 1 or not isinstance(res, dict) or res.get('value') is not rnd[0][4]:
        return "the key returned is not the value of one fresh os.urandom call"
    n = rnd[0][2][0]
    ln = I.ghost_globals['__length__']
    from vf.sym import Opaque
    iv = getattr(n, 'fields', {}).get('int_value', n)
    if isinstance(iv, Opaque):
        return "the number of random bytes requested is not computed from the length"
    t = int_term(iv) * 8 == int_term(ln)
    if not (t is True or path.is_valid(t)):
        return "the number of random bytes is not length / 8"
    return True


c = contract(CE + "create_symmetric_key").props('C06')
c.args(self=ENGINE, algorithm=ALG, length='nat')
c.let('__length__', 'length')
c.allow_external()
c.raises(('exceptions.InvalidField', 'exceptions.CryptographicFailure'))
c.trace("fresh-key-of-the-requested-length", t_fresh_key)


def t_mac(ev, outcome, exc, path, I):
    """HMAC(key, table hash) for hash algorithms, CMAC(table cipher(key)) for block ciphers; fed
    exactly the data; the value returned is the finalize() result."""
    if outcome != 'return':
        return True
    eng = I.ghost_globals['__self__']
    alg = I.resolve_enum(I.ghost_globals['__alg__'])
    key, data = I.ghost_globals['__key__'], I.ghost_globals['__data__']
    ext = _ext(ev)
    hm = [e for e in ext if e[1].endswith('.HMAC')]
    cm = [e for e in ext if e[1].endswith('.CMAC')]
    hashes = eng.fields['_hash_algorithms']
    ciphers = eng.fields['_symmetric_key_algorithms']
    if alg in hashes:
        if len(hm) != 1 or cm:
            return "a hash algorithm is not computed as one HMAC"
        h = [e for e in ext if e[4] is (hm[0][2][1] if len(hm[0][2]) > 1 else None)]
        if hm[0][2][0] is not key or not h or not h[0][1].endswith(hashes[alg].__name__):
            return "HMAC is not keyed with the given key over the table's hash for %s" % alg.name
        obj = hm[0]
    elif alg in ciphers:
        if len(cm) != 1 or hm:
            return "a cipher algorithm is not computed as one CMAC"
        a = [e for e in ext if e[4] is cm[0][2][0]]
        if not a or not a[0][1].endswith(ciphers[alg].__name__) or a[0][2][0] is not key:
            return "CMAC is not built from the table's cipher for %s applied to the given key" % alg.name
        obj = cm[0]
    else:
        return "a MAC is returned for an algorithm that is neither a hash nor a cipher of the tables"
    def owner(e):
        return getattr(e[2][0], 'fields', {}).get('__owner__') if e[2] else None
    upd = [e for e in ext if e[1].endswith('.update()') and owner(e) is obj[4]]
    fin = [e for e in ext if e[1].endswith('.finalize()') and owner(e) is obj[4]]
    if len(upd) != 1 or upd[0][2][1] is not data or len(fin) != 1:
        return "the MAC object is not fed exactly the given data and finalized once"
    if I.ghost_globals.get('__result__') is not fin[0][4]:
        return "the value returned is not the finalize() result"
    return True


c = contract(CE + "mac").props('C06')
c.args(self=ENGINE, algorithm=ALG, key=KEY, data='bytes')
c.let('__self__', 'self').let('__alg__', 'algorithm').let('__key__', 'key').let('__data__', 'data')
c.allow_external()
c.raises(('exceptions.InvalidField', 'exceptions.CryptographicFailure'))
c.trace("hmac-or-cmac-of-the-data-under-the-key", t_mac)


# ---------------------------------------------------------------- sign
def t_sign(ev, outcome, exc, path, I):
    """The signature returned is key.sign(data, padding, hash) with the key loaded from the given
    signing key bytes and the hash of the tables (digital signature algorithm pair, or the hash
    named explicitly)."""
    if outcome != 'return':
        return True
    ext = _ext(ev)
    loads = [e for e in ext if e[1].endswith('load_pem_private_key') or e[1].endswith('load_der_private_key')]
    signs = [e for e in ext if e[1].endswith('.sign()')]
    if len(signs) != 1 or not loads:
        return "the signature is not produced by one sign() call on a loaded private key"
    owner = getattr(signs[0][2][0], 'fields', {}).get('__owner__')
    if not any(owner is e[4] for e in loads) or not all(e[2] and e[2][0] is I.ghost_globals['__key__'] for e in loads):
        import os
        if os.environ.get('DBG_SIGN'):
            print("LOADS", [(e[1], e[2], e[4]) for e in loads], "OWNER", owner, "KEY", I.ghost_globals['__key__'])
        return "the signing key object is not loaded from the given key bytes"
    if signs[0][2][1] is not I.ghost_globals['__data__']:
        return "the data signed is not the given data"
    if I.ghost_globals.get('__result__') is not signs[0][4]:
        return "the value returned is not the signature"
    return True


c = contract(CE + "sign").props('C06', 'C13')
c.args(self=ENGINE, digital_signature_algorithm=('oneof', 'none', ('enum', 'kmip.core.enums.DigitalSignatureAlgorithm')),
       crypto_alg=('oneof', 'none', ALG), hash_algorithm=('oneof', 'none', ('enum', 'kmip.core.enums.HashingAlgorithm')),
       padding=PAD, signing_key=KEY, data='bytes')
c.let('__key__', 'signing_key').let('__data__', 'data')
c.allow_external()
c.raises(('exceptions.InvalidField', 'exceptions.CryptographicFailure'))
c.trace("signature-of-the-data-under-the-given-key", t_sign)
c.scope('trace.signature', 'C06')
c.max_paths = 30000


# ---------------------------------------------------------------- the error-mapping wrapper (C13)
c = contract("kmip.services.server.crypto.engine._report_library_errors.wrapper").props('C13', 'C06')
c.args(self='opaque')
c.closure(function=('opaque_facts', 'wrapped-function', []))
c.allow_external()
c.raises('exceptions.KmipError')
c.notes.append("for ANY wrapped function: whatever it raises leaves the wrapper as a KmipError")


# C20: whatever the wrapper does with a failure of the wrapped function (map it, log it), neither the
# positional nor the keyword arguments - keys, plain text, derivation data - reach a log record of
# level INFO or above or the text of the error it raises
from contracts.c_taint import t_no_secret_in_logs_or_errors      # noqa: E402
SECRET = ('tainted_bytes', 'secret')
c = contract("kmip.services.server.crypto.engine._report_library_errors.wrapper", variant="taint").props('C20')
c.args(self=('obj', 'kmip.services.server.crypto.engine.CryptographyEngine', {'logger': 'logger'}),
       args=('tuple', ('enum', 'kmip.core.enums.CryptographicAlgorithm'), SECRET, SECRET),
       kwargs=('dict', {'key_material': SECRET, 'derivation_data': SECRET, 'iv_nonce': ('oneof', 'none', 'bytes')}))
c.closure(function=('opaque_facts', 'wrapped-function', []))
c.allow_external()
c.raises('exceptions.KmipError')
c.trace("no-secret-in-logs-or-error-text", t_no_secret_in_logs_or_errors)


# ---------------------------------------------------------------- raises-only-KMIP-errors for the rest (C13)
c = contract(CE + "verify_signature").props('C13')
c.args(self=ENGINE, signing_key='bytes', message='bytes', signature='bytes', padding_method=PAD,
       signing_algorithm=('oneof', 'none', ALG),
       hashing_algorithm=('oneof', 'none', ('enum', 'kmip.core.enums.HashingAlgorithm')),
       digital_signature_algorithm=('oneof', 'none', ('enum', 'kmip.core.enums.DigitalSignatureAlgorithm')))
c.allow_external()
c.raises(('exceptions.InvalidField', 'exceptions.CryptographicFailure'))
c.max_paths = 30000

c = contract(CE + "create_asymmetric_key_pair").props('C13')
c.args(self=ENGINE, algorithm=ALG, length='int')
c.allow_external()
c.raises(('exceptions.InvalidField', 'exceptions.CryptographicFailure'))


# ---------------------------------------------------------------- derive_key (KDF parameter plumbing)
def t_kdf(ev, outcome, exc, path, I):
    """Each key derivation function is built with the table's hash, the requested output length
    and the request's salt / iteration count / derivation data in the parameter of that name, and is
    run on the key material; the value returned is its output."""
    if outcome != 'return':
        return True
    from kmip.core import enums
    g = I.ghost_globals
    method = I.resolve_enum(g['__method__'])
    ext = _ext(ev)

    def one(suffix):
        c = [e for e in ext if e[1].endswith(suffix)]
        return c[0] if len(c) == 1 else None

    def owner(e):
        return getattr(e[2][0], 'fields', {}).get('__owner__') if e[2] else None
    if method is enums.DerivationMethod.ENCRYPT:
        return True          # delegates to encrypt(), whose plumbing is _encrypt_symmetric's contract
    if method is enums.DerivationMethod.HASH:
        h = one('.Hash')
        upd = [e for e in ext if e[1].endswith('.update()') and h and owner(e) is h[4]]
        fin = [e for e in ext if e[1].endswith('.finalize()') and h and owner(e) is h[4]]
        if not h or len(upd) != 1 or len(fin) != 1 or g.get('__result__') is not fin[0][4]:
            return "hash derivation is not one Hash fed once and finalized"
        data = upd[0][2][1]
        if data is not g['__data__'] and data is not g['__key__']:
            return "the data hashed is neither the derivation data nor the key material"
        return True
    table = {enums.DerivationMethod.HMAC: ('.HKDF', {'salt': '__salt__', 'info': '__data__'}),
             enums.DerivationMethod.PBKDF2: ('.PBKDF2HMAC', {'salt': '__salt__', 'iterations': '__iter__'}),
             enums.DerivationMethod.NIST800_108_C: ('.KBKDFHMAC', {'fixed': '__data__'})}
    if method not in table:
        return "a value is returned for an unsupported derivation method"
    suffix, params = table[method]
    k = one(suffix)
    if not k:
        return "the derivation function of the requested method is not built exactly once"
    kw = k[3]
    if kw.get('length') is not g['__length__']:
        return "the output length handed to the derivation function is not the requested length"
    for pname, gname in params.items():
        if kw.get(pname) is not g[gname]:
            return "parameter %s of the derivation function is not the request's value" % pname
    der = [e for e in ext if e[1].endswith('.derive()') and owner(e) is k[4]]
    if len(der) != 1 or der[0][2][1] is not g['__key__'] or g.get('__result__') is not der[0][4]:
        return "the function is not run once on the key material / its output is not what is returned"
    return True


c = contract(CE + "derive_key").props('C06', 'C13')
c.args(self=ENGINE, derivation_method=('enum', 'kmip.core.enums.DerivationMethod'), derivation_length='nat',
       derivation_data=OB, key_material=('oneof', 'none', KEY),
       hash_algorithm=('oneof', 'none', ('enum', 'kmip.core.enums.HashingAlgorithm')), salt=OB,
       iteration_count=('oneof', 'none', 'nat'), encryption_algorithm=('oneof', 'none', ALG),
       cipher_mode=MODE, padding_method=PAD, iv_nonce=OB)
c.let('__method__', 'derivation_method').let('__length__', 'derivation_length').let('__data__', 'derivation_data')
c.let('__key__', 'key_material').let('__salt__', 'salt').let('__iter__', 'iteration_count')
c.allow_external()
c.raises(('exceptions.InvalidField', 'exceptions.CryptographicFailure'))
c.may_raise_anything()        # library errors: mapped by the wrapper this function is decorated with
c.trace("kdf-built-from-the-requests-parameters", t_kdf)
c.scope('trace.kdf', 'C06')


def t_derivation_is_a_function_of_its_parameters(ev, outcome, exc, path, I):
    """A derived value depends on the stated parameters only: no randomness is drawn while deriving,
    except when the caller itself passed no IV at all (None) to the ENCRYPT method - an empty IV is
    an IV the caller stated, and the request handler always states one."""
    iv = I.ghost_globals.get('__iv__')
    for e in ev:
        if e[0] == 'call' and e[1].endswith(('._encrypt_symmetric', '.encrypt', '_report_library_errors.wrapper')) \
                and len(e) > 2:
            given = e[2]
            if 'iv_nonce' not in given:
                kw = given.get('kwargs')
                given = kw if isinstance(kw, dict) else {}
            if 'iv_nonce' not in given:
                return "the cipher is called without the IV being identifiable (positional call?)"
            if given.get('iv_nonce') is not iv:
                return ("the cipher is not given the IV the caller stated (an empty IV replaced by none makes the "
                        "cipher draw a random one: the derived value is no longer a function of the parameters)")
    rnd = [e for e in _ext(ev) if e[1].endswith('urandom')]
    if rnd and iv is not None:
        return "randomness is drawn while deriving a key although the caller stated an IV (possibly empty)"
    return True


c.let('__iv__', 'iv_nonce')
c.trace("derived-value-is-a-function-of-the-stated-parameters", t_derivation_is_a_function_of_its_parameters)
c.scope('trace.derived-value', 'C06')
c.max_paths = 40000
c.split_by = [('oneof:derivation_data', 2), ('oneof:key_material', 2), ('oneof:salt', 2), ('oneof:iv_nonce', 2)]


def t_verify(ev, outcome, exc, path, I):
    """SignatureVerify: the public key is loaded from the given key bytes, verify() is given exactly
    the signature and the message, and the answer is True only if verify() returned normally."""
    if outcome != 'return':
        return True
    ext = _ext(ev)
    loads = [e for e in ext if e[1].endswith('load_der_public_key') or e[1].endswith('load_pem_public_key')]
    ver = [e for e in ext if e[1].endswith('.verify()')]
    if len(ver) != 1 or not loads:
        return "the answer is not based on one verify() call on a loaded public key"
    owner = getattr(ver[0][2][0], 'fields', {}).get('__owner__')
    if not any(owner is e[4] for e in loads) or not all(e[2] and e[2][0] is I.ghost_globals['__key__'] for e in loads):
        return "the verification key is not loaded from the given key bytes"
    if ver[0][2][1] is not I.ghost_globals['__sig__'] or ver[0][2][2] is not I.ghost_globals['__msg__']:
        return "verify() is not given exactly the signature and the message of the request"
    res = I.ghost_globals.get('__result__')
    raised = any(e[0] == 'raise' for e in ev[ev.index(ver[0]):])
    if res is True and raised:
        return "valid is reported although verify() raised"
    if res is not True and res is not False:
        return "the answer is not a boolean constant"
    return True


c = contract(CE + "verify_signature")
c.props('C06')
c.let('__key__', 'signing_key').let('__sig__', 'signature').let('__msg__', 'message')
c.trace("verify-of-the-requests-signature-and-message-under-the-given-key", t_verify)
c.scope('trace.verify', 'C06')
