"""C15 - attribute setters and deleters of the engine: a successful call changes exactly the
addressed attribute instance to exactly the requested value (or removes exactly it) and nothing
else; an unsuccessful call changes nothing.  Multivalued attributes are concrete-spine lists of
0..3 symbolic elements (bounded in list length)."""
from vf.contracts import contract, spec_module
from contracts.c_engine import ENGINE, E
from contracts import spec_attr

spec_module(spec_attr)

ASI = ('obj', 'kmip.pie.objects.ApplicationSpecificInformation',
       {'_application_namespace': 'str', '_application_data': 'str'})
OG = ('obj', 'kmip.pie.objects.ObjectGroup', {'_object_group': 'str'})
LISTS = {'names': ('list', 'str', (0, 1, 2, 3)), 'app_specific_info': ('list', ASI, (0, 1, 2)),
         'object_groups': ('list', OG, (0, 1, 2))}
MO = ('managed', None, LISTS)
LIST_OF = {'Name': 'names', 'Application Specific Information': 'app_specific_info',
           'Object Group': 'object_groups'}


def mo_for(attribute_name):
    """Stored object whose multivalued collections are concrete-spine lists: the collection the
    attribute name addresses has 0..3 (0..2) symbolic instances, the two others one instance each
    (their content is symbolic; they only have to be shown untouched)."""
    lists = {}
    for n, f in LIST_OF.items():
        ek, lens = LISTS[f][1], LISTS[f][2]
        lists[f] = ('list', ek, lens if n == attribute_name else (1,))
    return ('managed', None, lists)
MULTI = ('oneof', ('const', 'Name'), ('const', 'Application Specific Information'), ('const', 'Object Group'))
TEXT = ('obj', 'kmip.core.primitives.TextString', {'value': 'str'})
NAME_VALUE = ('obj', 'kmip.core.attributes.Name', {'name_value': TEXT})
# ApplicationSpecificInformation.read refuses an encoding without namespace or data (decoder invariant)
ASI_VALUE = ('obj', 'kmip.core.attributes.ApplicationSpecificInformation',
             {'_application_namespace': TEXT, '_application_data': TEXT})
# the value a client sends for (Name, Application Specific Information, Object Group/other)
VALUE = ('obj', 'kmip.core.primitives.Base',
         {'name_value': TEXT, 'value': 'str', 'application_namespace': 'str', 'application_data': 'str'})

c = contract(E + "_set_attribute_on_managed_object_by_index").props('C15', 'C08')
c.args(self=ENGINE, managed_object=MO, attribute_name=MULTI, attribute_value=VALUE, attribute_index='int')
c.requires("attribute_index >= 0")
c.requires("attribute_index < len(managed_object.names) if attribute_name == 'Name' else "
           "(attribute_index < len(managed_object.app_specific_info) "
           "if attribute_name == 'Application Specific Information' else "
           "attribute_index < len(managed_object.object_groups))", name="index-addresses-an-instance")
c.ensures("attribute_name != 'Name' or same_items(managed_object.names, "
          "list_replace(old(managed_object.names), attribute_index, attribute_value.name_value.value))",
          name="name-instance-replaced-exactly")
c.ensures("attribute_name == 'Name' or same_items(managed_object.names, old(managed_object.names))",
          name="other-names-untouched")
c.ensures("attribute_name != 'Object Group' or "
          "managed_object.object_groups[attribute_index].object_group == attribute_value.value",
          name="group-instance-set")
c.ensures("attribute_name != 'Application Specific Information' or "
          "(managed_object.app_specific_info[attribute_index].application_namespace == attribute_value.application_namespace"
          " and managed_object.app_specific_info[attribute_index].application_data == attribute_value.application_data)",
          name="asi-instance-set")
c.ensures("same_items(managed_object.object_groups, old(managed_object.object_groups)) and "
          "same_items(managed_object.app_specific_info, old(managed_object.app_specific_info))",
          name="no-instance-added-or-removed")
c.modifies("managed_object.names", "managed_object.app_specific_info.*", "managed_object.object_groups.*")
c.frame_on_raise = True
c.bounded_note = "collections of 0..3 / 0..2 symbolic instances"

# ---------------------------------------------------------------- delete one attribute instance
OTHER_NAMES = ('oneof', ('const', 'Cryptographic Usage Mask'), ('const', 'State'),
               ('const', 'Unique Identifier'), ('const', 'Operation Policy Name'), ('const', 'Sensitive'),
               ('const', 'Contact Information'), ('const', 'Cryptographic Parameters'), ('const', 'Link'),
               ('const', 'Custom Attribute'), ('const', 'Usage Limits'))
IDX = ('oneof', 'none', 'int')
# the (name, index, value) triple as the handler builds it: the value, when present, is the decoded
# attribute whose tag gave the name, so its class is determined by the name
ATTR = ('oneof',
        ('tuple', ('const', 'Name'), IDX, ('oneof', 'none', NAME_VALUE, TEXT)),
        ('tuple', ('const', 'Application Specific Information'), IDX, ('oneof', 'none', ASI_VALUE)),
        ('tuple', ('const', 'Object Group'), IDX, ('oneof', 'none', TEXT)),
        ('tuple', OTHER_NAMES, IDX, ('oneof', 'none', TEXT)))


def attr_list_expr(which):
    return ("(managed_object.names if attribute[0] == 'Name' else (managed_object.app_specific_info "
            "if attribute[0] == 'Application Specific Information' else managed_object.object_groups))")


c = contract(E + "_delete_attribute_from_managed_object").props('C15', 'C08')
c.args(self=ENGINE, managed_object=('dep', lambda a: mo_for(a['attribute'][0])), attribute=ATTR)
c.raises(('exceptions.ItemNotFound', 'exceptions.PermissionDenied', 'exceptions.InvalidField'))
c.ensures("attribute[0] in ('Name', 'Application Specific Information', 'Object Group')",
          name="only-client-deletable-attributes")
c.ensures("attribute[2] is not None or attribute[1] is None or "
          "(0 <= attribute[1] and attribute[1] < len(old(" + attr_list_expr(0) + ")) and same_items(" +
          attr_list_expr(0) + ", list_remove_at(old(" + attr_list_expr(0) + "), attribute[1])))",
          name="by-index-removes-exactly-that-instance")
c.ensures("attribute[2] is not None or attribute[1] is not None or len(" + attr_list_expr(0) + ") == 0",
          name="reference-form-removes-all-instances")
c.ensures("attribute[2] is None or removed_first(" + attr_list_expr(0) + ", old(" + attr_list_expr(0) + "), "
          "lambda inst: instance_matches(attribute[0], attribute[2], inst))",
          name="by-value-removes-exactly-the-first-matching-instance")
c.ensures("(attribute[0] == 'Name' or same_items(managed_object.names, old(managed_object.names))) and "
          "(attribute[0] == 'Application Specific Information' or same_items(managed_object.app_specific_info, "
          "old(managed_object.app_specific_info))) and (attribute[0] == 'Object Group' or "
          "same_items(managed_object.object_groups, old(managed_object.object_groups)))",
          name="other-attributes-untouched")
c.modifies("managed_object.names", "managed_object.app_specific_info", "managed_object.object_groups")
c.frame_on_raise = True
c.max_paths = 30000
c.bounded_note = "collections of 0..3 / 0..2 symbolic instances"

# ================================================================== request handlers (C15, C03, C08, C09)
# The attribute values a decoded request can carry are derived, on every run, from the real
# attribute-value factory (the decoders create the value object with it before reading the
# encoding): class per tag / attribute type, with a symbolic payload of the primitive's type.
from contracts.c_engine import KMIP_ERRORS, UID      # noqa: E402
from contracts.handler_common import (t_no_effect_before_raise, t_single_transaction,   # noqa: E402
                                      make_access_predicate)

PL = "kmip.core.messages.payloads."
from vf import dbmodel as _dbmodel       # noqa: E402
N_STORED_CLASSES = len(_dbmodel.stored_classes())
BOUND_NOTE = ("multivalued attribute collections of the stored object are lists with 0..3 (names) / 0..2 "
              "(application specific information, object groups) fully symbolic instances")
INT = ('obj', 'kmip.core.primitives.Integer', {'value': 'int'})


def _cls_path(cls):
    return cls.__module__ + '.' + cls.__qualname__


def value_kind(inst, tag):
    """Kind of a decoded attribute value object of the class the factory chose."""
    from kmip.core import primitives, attributes
    cls = type(inst)
    f = {'tag': ('const', tag)}
    if isinstance(inst, attributes.Name):
        f['name_value'] = TEXT
    elif isinstance(inst, attributes.ApplicationSpecificInformation):
        f['_application_namespace'] = TEXT
        f['_application_data'] = TEXT
    elif isinstance(inst, primitives.Enumeration):
        f['value'] = ('enum', _cls_path(inst.enum))
    elif isinstance(inst, primitives.Boolean):
        f['value'] = 'bool'
    elif isinstance(inst, (primitives.TextString,)):
        f['value'] = 'str'
    elif isinstance(inst, primitives.ByteString):
        f['value'] = 'bytes'
    elif isinstance(inst, primitives.Interval):
        f['value'] = 'nat'
    elif isinstance(inst, (primitives.Integer, primitives.LongInteger, primitives.BigInteger)):
        f['value'] = 'int'
    # other structures: only their tag is known (any field access is an AttributeError, as natively)
    return ('obj', _cls_path(cls), f)


def decodable_by_tag():
    """{attribute name: kind} for every tag New/CurrentAttribute.read accepts (KMIP 2.0)."""
    from kmip.core import enums
    from kmip.core.factories.attribute_values import AttributeValueFactory
    fac = AttributeValueFactory()
    out = {}
    for tag in enums.Tags:
        if not enums.is_attribute(tag, kmip_version=enums.KMIPVersion.KMIP_2_0):
            continue
        try:
            inst = fac.create_attribute_value_by_enum(tag, None)
            name = enums.convert_attribute_tag_to_name(tag)
        except Exception:
            continue        # the decoder fails for this tag: no request carries it
        if inst is None:
            continue
        out[name] = value_kind(inst, tag)
    return out


def decodable_by_name():
    """{attribute name: kind} for every attribute name objects.Attribute.read accepts (KMIP 1.x)."""
    from kmip.core import enums
    from kmip.core.factories.attribute_values import AttributeValueFactory
    fac = AttributeValueFactory()
    out = {}
    for t in enums.AttributeType:
        try:
            inst = fac.create_attribute_value(t, None)
        except Exception:
            continue
        if inst is None:
            continue
        out[t.value] = value_kind(inst, enums.Tags.ATTRIBUTE_VALUE)
    return out


BY_TAG = decodable_by_tag()
BY_NAME = decodable_by_name()
ALL_RULE_NAMES = None


def rule_table_names():
    from kmip.services.server import policy
    from kmip.core.messages import contents
    return list(policy.AttributePolicy(contents.ProtocolVersion(2, 0))._attribute_rule_sets.keys())


def rule_table_multivalued(name):
    from kmip.services.server import policy
    from kmip.core.messages import contents
    return policy.AttributePolicy(contents.ProtocolVersion(2, 0))._attribute_rule_sets[name].multiple_instances_permitted


ANY_VALUE_2_0 = ('oneof',) + tuple(BY_TAG[n] for n in sorted(BY_TAG))
CURRENT = lambda k: ('obj', 'kmip.core.objects.CurrentAttribute', {'_attribute': k})      # noqa: E731
NEW = lambda k: ('obj', 'kmip.core.objects.NewAttribute', {'_attribute': k})                # noqa: E731
# attribute names a client may write into a 1.x request or a 2.0 attribute reference: every name of
# the rule table, a custom name, a name the table does not know, and a non-canonical spelling
FREE_NAMES = ('oneof',) + tuple(('const', n) for n in rule_table_names()) + \
    (('const', 'x-custom'), ('const', 'No Such Attribute'), ('const', 'name'))
REFERENCE = ('obj', 'kmip.core.objects.AttributeReference',
             {'_vendor_identification': ('opt', TEXT),
              '_attribute_name': ('obj', 'kmip.core.primitives.TextString', {'value': FREE_NAMES})})

PROTECTED_COLUMNS = ('unique_identifier', '_object_type', 'object_type', 'state', '_owner',
                     'operation_policy_name', 'cryptographic_usage_masks', '_cryptographic_usage_masks',
                     'cryptographic_algorithm', 'cryptographic_length', 'initial_date', 'value',
                     'key_format_type', 'certificate_type')
COLLECTION_OF = {'Name': 'names', 'Application Specific Information': 'app_specific_info',
                 'Object Group': 'object_groups'}
ELEMENT_FIELDS = {'app_specific_info': ('_application_namespace', '_application_data'),
                  'object_groups': ('_object_group',)}


def t_protected(ev, outcome, exc):
    """The attributes the property names as unchangeable are never written on a stored object."""
    for e in ev:
        if e[0] == 'db.mutate' and e[5] and e[2] in PROTECTED_COLUMNS:
            return "the handler writes the protected column %s of a stored %s" % (e[2], e[6])
    return True


def _loaded(ev):
    return [e[3] for e in ev if e[0] == 'db.load']


def addressed_name(I):
    return I.ghost_globals.get('__addressed__')


def make_exact_predicate(name_of):
    """Success changes only the collection / column the request addresses, on the one object the
    access-controlled lookup returned.  name_of(I, path) -> attribute name addressed."""
    def pred(ev, outcome, exc, path, I):
        if outcome != 'return':
            return True
        loaded = _loaded(ev)
        if len(loaded) != 1:
            return "%d stored objects loaded by one attribute operation" % len(loaded)
        mo = loaded[0]
        name = name_of(I, path)
        col = COLLECTION_OF.get(name, {'Sensitive': 'sensitive'}.get(name))
        for e in ev:
            if e[0] != 'db.mutate' or not e[5]:
                continue
            oid, f = e[1], e[2]
            if oid == id(mo):
                if f != col:
                    return "success on attribute %r also writes column %s" % (name, f)
            else:
                owner = None
                for lst in ('app_specific_info', 'object_groups'):
                    for x in mo.meta.get('initial_list_content', {}).get(lst, []):
                        if id(x) == oid:
                            owner = lst
                if owner is None or owner != col:
                    return "success on attribute %r writes another stored row (%s.%s)" % (name, e[6], f)
        return True
    return pred


def _is_v2(eng):
    from kmip.core.messages import contents
    v = eng.fields.get('_protocol_version')
    return None if v is None else v >= contents.ProtocolVersion(2, 0)


def _f(o, *names):
    """Follow concrete fields of request objects (None when absent)."""
    for n in names:
        if o is None:
            return None
        o = o.fields.get(n) if hasattr(o, 'fields') else None
    return o


def _valid(path, I, v):
    t = I.truth(v)
    return t is True or (t is not False and path.is_valid(t))


def _spec(I, src, loc):
    return I.eval_spec(src, loc, spec_attr.__dict__, None, None)


def _others_untouched(mo, col):
    for f, init in mo.meta.get('initial_list_content', {}).items():
        if f == col or f not in COLLECTION_OF.values():
            continue
        cur = mo.fields.get(f)
        if not isinstance(cur, list) or len(cur) != len(init) or any(a is not b for a, b in zip(cur, init)):
            return "collection %s changed although the request addresses %s" % (f, col)
        for x in init:
            if hasattr(x, 'meta') and any(x.fields.get(k) is not v
                                          for k, v in x.meta.get('initial_fields', {}).items()):
                return "an instance of %s changed although the request addresses %s" % (f, col)
    return True


def _removed_at(I, path, final, init, idx):
    """final == init without position idx, 0 <= idx < len(init)  (idx: int | SInt)"""
    import z3
    from vf.sym import SInt
    if not isinstance(idx, SInt):
        return 0 <= idx < len(init) and _valid(path, I, _spec(I, "same_items(a, b)",
                                                            {'a': final, 'b': init[:idx] + init[idx + 1:]}))
    alts = []
    for k in range(len(init)):
        s = I.truth(_spec(I, "same_items(a, b)", {'a': final, 'b': init[:k] + init[k + 1:]}))
        if s is False:
            continue
        alts.append(idx.t == k if s is True else z3.And(idx.t == k, s))
    return bool(alts) and path.is_valid(z3.Or(*alts) if len(alts) > 1 else alts[0])


# ---------------------------------------------------------------- DeleteAttribute
DEL_PAYLOAD = ('payload', PL + 'delete_attribute.DeleteAttributeRequestPayload', {
    '_unique_identifier': ('lazyopt', TEXT),
    '_attribute_name': ('lazy', ('opt', ('obj', 'kmip.core.primitives.TextString', {'value': FREE_NAMES}))),
    '_attribute_index': ('lazy', ('opt', INT)),
    '_current_attribute': ('lazy', ('opt', CURRENT(ANY_VALUE_2_0))),
    '_attribute_reference': ('lazy', ('opt', REFERENCE)),
})


def delete_request(I):
    """(name, index, value) the request addresses, by protocol version (None: not determined)."""
    from kmip.core import enums
    eng, p = I.ghost_globals['__self__'], I.ghost_globals['__payload__']
    v2 = _is_v2(eng)
    if v2 is None:
        return None
    if v2:
        cur = _f(p, '_current_attribute', '_attribute')
        if cur is not None:
            return (enums.convert_attribute_tag_to_name(cur.fields['tag']), None, cur)
        return (_f(p, '_attribute_reference', '_attribute_name', 'value'), None, None)
    idx = _f(p, '_attribute_index', 'value')
    return (_f(p, '_attribute_name', 'value'), 0 if idx is None else idx, None)


def t_delete_exact(ev, outcome, exc, path, I):
    if outcome != 'return':
        return True
    loaded = _loaded(ev)
    if len(loaded) != 1:
        return "%d stored objects loaded" % len(loaded)
    mo = loaded[0]
    req = delete_request(I)
    if req is None:
        return "DeleteAttribute succeeds without looking at the protocol version"
    name, idx, val = req
    col = COLLECTION_OF.get(name)
    if col is None:
        return "DeleteAttribute succeeds on %r, which is not a client-deletable stored attribute" % (name,)
    init = mo.meta.get('initial_list_content', {}).get(col)
    final = mo.fields.get(col)
    if init is None or not isinstance(final, list):
        return "success without touching the addressed collection"
    if val is not None:
        ok = _valid(path, I, _spec(I, "removed_first(final, init, lambda inst: instance_matches(name, val, inst))",
                                   {'final': final, 'init': init, 'name': name, 'val': val}))
        what = "the first instance equal to the current attribute"
    elif idx is not None:
        ok = _removed_at(I, path, final, init, idx)
        what = "the instance at the requested index"
    else:
        ok = len(final) == 0
        what = "every instance (attribute reference form)"
    if not ok:
        return "DeleteAttribute(%s) succeeds without removing exactly %s" % (name, what)
    return _others_untouched(mo, col)


# inside the attribute handlers the helpers are executed (their bodies, not their contracts), so
# that the store events of the real statements are what the handler predicates judge
for _h in ("_set_attributes_on_managed_object", "_delete_attribute_from_managed_object",
           "_set_attribute_on_managed_object_by_index", "_set_attribute_on_managed_object",
           "_get_attributes_from_managed_object"):
    contract(E + _h, variant="attribute-operation").inlined()

for hname, pkind, op in [("_process_delete_attribute", DEL_PAYLOAD, 'DELETE_ATTRIBUTE')]:
    c = contract(E + hname).props('C15', 'C03', 'C08', 'C09', 'C13')
    c.args(self=ENGINE, payload=pkind)
    c.let('__self__', 'self').let('__payload__', 'payload')
    c.columns(**LISTS)
    c.use_variant("attribute-operation")
    c.raises(KMIP_ERRORS)
    c.scope('raises.unexpected', 'C13')
    c.trace("protected-attributes-never-written", t_protected)
    c.trace("no-effect-before-raise", t_no_effect_before_raise)
    c.trace("single-transaction", t_single_transaction)
    c.trace("access-controlled", make_access_predicate([op]))
    c.max_paths = 20000
    c.split_by = [('protocol-version', 6), ('managed-class', N_STORED_CLASSES)]
    c.bounded_note = BOUND_NOTE
contract(E + "_process_delete_attribute").trace("removes-exactly-what-is-addressed", t_delete_exact)
contract(E + "_process_delete_attribute").scope('trace.removes-exactly', 'C15')
contract(E + "_process_delete_attribute").scope('trace.protected', 'C15')

c = contract("kmip.core.factories.attribute_values.AttributeValueFactory._create_cryptographic_usage_mask")
c.props('C15', 'C13')
c.args(self='opaque', flags='opaque')
c.returns(('obj', 'kmip.core.attributes.CryptographicUsageMask', {'value': 'int'}))
c.trust("response-building helper outside the property's anchors: ORs the flag values of the stored mask "
        "list into one integer attribute; assumed to return without touching the stored object")


# ---------------------------------------------------------------- SetAttribute / ModifyAttribute
def _shadow(x):
    """Initial state of a stored row (relationship instance) as a separate object."""
    from vf.pyvc import Obj
    if not hasattr(x, 'meta'):
        return x
    return Obj(x.cls, dict(x.meta.get('initial_fields', x.fields)), 'initial')


def _conj(ts):
    import z3
    ts = [t for t in ts if t is not True]
    if any(t is False for t in ts):
        return False
    if not ts:
        return True
    return z3.And(*ts) if len(ts) > 1 else ts[0]


def _neg(t):
    import z3
    return (not t) if isinstance(t, bool) else z3.Not(t)


def _replaced(I, path, mo, name, selector, new):
    """Exactly one instance of the addressed collection, the selected one, now carries the new
    value; every other instance and the order are as before.
    selector: ('index', int|SInt) or ('match', current attribute value)."""
    import z3
    from vf.sym import SInt
    col = COLLECTION_OF[name]
    init = mo.meta.get('initial_list_content', {}).get(col)
    final = mo.fields.get(col)
    if init is None or not isinstance(final, list):
        return "success without touching the addressed collection"
    if len(final) != len(init):
        return "ModifyAttribute changes the number of instances"
    shadows = [_shadow(x) for x in init]
    if selector[0] == 'match':
        hits = [I.truth(_spec(I, "instance_matches(name, val, inst)", {'name': name, 'val': selector[1], 'inst': s}))
                for s in shadows]
    alts = []
    for k in range(len(init)):
        if selector[0] == 'index':
            idx = selector[1]
            sel = (idx.t == k) if isinstance(idx, SInt) else (idx == k)
        else:
            sel = _conj([hits[k]] + [_neg(h) for h in hits[:k]])
        if sel is False:
            continue
        eff = []
        if col == 'names':
            eff.append(I.truth(_spec(I, "same_items(a, b)",
                                     {'a': final, 'b': init[:k] + [_spec(I, "name_text(v)", {'v': new})] + init[k + 1:]})))
        else:
            if any(a is not b for a, b in zip(final, init)):
                return "ModifyAttribute replaces stored rows instead of updating the addressed one"
            eff.append(I.truth(_spec(I, "instance_matches(name, val, inst)",
                                     {'name': name, 'val': new, 'inst': final[k]})))
            for j, x in enumerate(init):
                if j != k and any(x.fields.get(f) is not v for f, v in x.meta.get('initial_fields', {}).items()):
                    eff.append(False)
        alts.append(_conj([sel] + eff))
    alts = [a for a in alts if a is not False]
    if any(a is True for a in alts):
        return True
    if not alts or not path.is_valid(z3.Or(*alts) if len(alts) > 1 else alts[0]):
        return "ModifyAttribute(%s) succeeds without setting exactly the addressed instance to the new value" % name
    return True


def _single_set(I, path, mo, name, new):
    col = {'Sensitive': 'sensitive'}.get(name)
    if col is None:
        return "success on %r, an attribute the server cannot store through this operation" % (name,)
    from vf import models as M
    if not _valid(path, I, M.equals(I, mo.fields.get(col), new.fields.get('value'))):
        return "%s is not the requested value after a successful call" % name
    return True


def set_request(I):
    from kmip.core import enums
    p = I.ghost_globals['__payload__']
    new = _f(p, '_new_attribute', '_attribute')
    if new is None:
        return None
    return enums.convert_attribute_tag_to_name(new.fields['tag']), new


def t_set_exact(ev, outcome, exc, path, I):
    if outcome != 'return':
        return True
    loaded = _loaded(ev)
    if len(loaded) != 1:
        return "%d stored objects loaded" % len(loaded)
    req = set_request(I)
    if req is None:
        return "SetAttribute succeeds without reading the new attribute"
    name, new = req
    if name in COLLECTION_OF:
        return "SetAttribute succeeds on the multivalued attribute %s" % name
    r = _single_set(I, path, loaded[0], name, new)
    return r if r is not True else _others_untouched(loaded[0], None)


def modify_request(I):
    """(name, selector, new value) by protocol version."""
    from kmip.core import enums
    eng, p = I.ghost_globals['__self__'], I.ghost_globals['__payload__']
    v2 = _is_v2(eng)
    if v2 is None:
        return None
    if v2:
        new = _f(p, '_new_attribute', '_attribute')
        cur = _f(p, '_current_attribute', '_attribute')
        if new is None:
            return None
        return enums.convert_attribute_tag_to_name(new.fields['tag']), ('match', cur), new
    a = _f(p, '_attribute')
    idx = _f(a, 'attribute_index', 'value')
    return _f(a, 'attribute_name', 'value'), ('index', 0 if idx is None else idx), _f(a, 'attribute_value')


def t_modify_exact(ev, outcome, exc, path, I):
    if outcome != 'return':
        return True
    loaded = _loaded(ev)
    if len(loaded) != 1:
        return "%d stored objects loaded" % len(loaded)
    mo = loaded[0]
    req = modify_request(I)
    if req is None:
        return "ModifyAttribute succeeds without looking at the protocol version or the new value"
    name, selector, new = req
    if name in COLLECTION_OF:
        if selector[0] == 'match' and selector[1] is None:
            return "ModifyAttribute succeeds on a multivalued attribute without a current attribute"
        r = _replaced(I, path, mo, name, selector, new)
        return r if r is not True else _others_untouched(mo, COLLECTION_OF[name])
    r = _single_set(I, path, mo, name, new)
    return r if r is not True else _others_untouched(mo, None)


SET_PAYLOAD = ('payload', PL + 'set_attribute.SetAttributeRequestPayload', {
    '_unique_identifier': ('lazyopt', TEXT),
    '_new_attribute': ('lazy', NEW(ANY_VALUE_2_0)),      # the decoder refuses a payload without it
})


def _attribute_1x(name, vkind):
    return ('obj', 'kmip.core.objects.Attribute', {
        'attribute_name': ('obj', 'kmip.core.objects.Attribute.AttributeName', {'value': ('const', name)}),
        'attribute_index': ('lazy', ('opt', ('obj', 'kmip.core.objects.Attribute.AttributeIndex', {'value': 'int'}))),
        'attribute_value': vkind})


def custom_value_kind():
    from kmip.core import enums
    from kmip.core.factories.attribute_values import AttributeValueFactory
    try:
        return value_kind(AttributeValueFactory().create_attribute_value('x-custom', None),
                          enums.Tags.ATTRIBUTE_VALUE)
    except Exception:
        return None


def current_for(I, payload):
    """Current attribute of a 2.0 ModifyAttribute request: absent, a value of the same attribute as
    the new one, or a value of another attribute (the decoder does not relate the two): one
    representative per shape of value - structure, text, boolean, enumeration, integer."""
    from kmip.core import enums
    new = I.resolve_opt(I.getattr(I.resolve_opt(I.getattr(payload, '_new_attribute')), '_attribute'))
    same = enums.convert_attribute_tag_to_name(new.fields['tag'])
    others = [n for n in ('Name', 'Object Group', 'Sensitive', 'State', 'Cryptographic Length',
                          'Application Specific Information') if n != same and n in BY_TAG]
    return ('opt', CURRENT(('oneof', BY_TAG[same]) + tuple(BY_TAG[n] for n in others)))


_custom = custom_value_kind()
ANY_ATTRIBUTE_1X = ('oneof',) + tuple(_attribute_1x(n, BY_NAME[n]) for n in sorted(BY_NAME)) + \
    ((_attribute_1x('x-custom', _custom),) if _custom else ()) + \
    (_attribute_1x('name', BY_NAME['Name']),)        # Attribute.read canonicalises only the class lookup
MOD_PAYLOAD = ('payload', PL + 'modify_attribute.ModifyAttributeRequestPayload', {
    '_unique_identifier': ('lazyopt', TEXT),
    '_attribute': ('lazy', ANY_ATTRIBUTE_1X),            # required by the 1.x decoder
    '_current_attribute': ('lazy', lambda I, payload: current_for(I, payload)),
    '_new_attribute': ('lazy', NEW(ANY_VALUE_2_0)),      # required by the 2.0 decoder
})

for hname, pkind, op, pred, pname in [
        ("_process_set_attribute", SET_PAYLOAD, 'SET_ATTRIBUTE', t_set_exact, "sets-exactly-what-is-addressed"),
        ("_process_modify_attribute", MOD_PAYLOAD, 'MODIFY_ATTRIBUTE', t_modify_exact,
         "modifies-exactly-what-is-addressed")]:
    c = contract(E + hname).props('C15', 'C03', 'C08', 'C09', 'C13')
    c.args(self=ENGINE, payload=pkind)
    c.let('__self__', 'self').let('__payload__', 'payload')
    c.columns(**LISTS)
    c.use_variant("attribute-operation")
    c.raises(KMIP_ERRORS)
    c.scope('raises.unexpected', 'C13')
    c.trace("protected-attributes-never-written", t_protected)
    c.trace("no-effect-before-raise", t_no_effect_before_raise)
    c.trace("single-transaction", t_single_transaction)
    c.trace("access-controlled", make_access_predicate([op]))
    c.trace(pname, pred)
    c.scope('trace.' + pname.split('-')[0], 'C15')
    c.scope('trace.protected', 'C15')
    c.max_paths = 20000
    c.split_by = [('protocol-version', 6), ('managed-class', N_STORED_CLASSES)]
    c.bounded_note = BOUND_NOTE


# ---------------------------------------------------------------- _set_attribute_on_managed_object
def AVAL(k):
    return ('obj', 'kmip.core.primitives.Base', {'value': k})


MASKS = ('oneof', ('const', 0), ('const', 1), ('const', 12), ('const', 0x00400000), ('const', 0x007FFFFF))
SET_PAIRS = ('oneof',
             ('tuple', ('const', 'Name'), ('list', NAME_VALUE, (0, 1, 2))),
             ('tuple', ('const', 'Application Specific Information'), ('list', ASI_VALUE, (0, 1, 2))),
             ('tuple', ('const', 'Object Group'), ('list', TEXT, (0, 1, 2))),
             ('tuple', ('const', 'Cryptographic Parameters'), ('list', TEXT, (0, 1))),
             ('tuple', ('const', 'Cryptographic Algorithm'), AVAL(('enum', 'kmip.core.enums.CryptographicAlgorithm'))),
             ('tuple', ('const', 'Cryptographic Length'), AVAL('int')),
             ('tuple', ('const', 'Cryptographic Usage Mask'), AVAL(MASKS)),
             ('tuple', ('const', 'Operation Policy Name'), AVAL('str')),
             ('tuple', ('const', 'Sensitive'), AVAL('bool')),
             ('tuple', ('const', 'State'), AVAL(('enum', 'kmip.core.enums.State'))),
             ('tuple', ('const', 'Contact Information'), AVAL('str')),
             ('tuple', ('const', 'Activation Date'), AVAL('nat')))
# every other name of the rule table (all of them end in InvalidField "unsupported"): the value is
# whatever the decoder produced, a list of them for the multivalued ones
_COVERED = set(p[1][1] for p in SET_PAIRS[1:])
SET_PAIRS = SET_PAIRS + tuple(
    ('tuple', ('const', n), ('list', 'opaque', (0, 1)) if rule_table_multivalued(n) else AVAL('opaque'))
    for n in sorted(set(rule_table_names()) - _COVERED))


def t_new_rows_only(ev, outcome, exc, path, I):
    """Rows added to a relationship collection are rows constructed by this call: a stored row
    shared with another object would make a later change of it change that object too."""
    if any(e[0] == 'db.query' for e in ev):
        return "the attribute setter queries the store (rows could be shared between objects)"
    mo = I.ghost_globals.get('__mo__')
    for col in ('app_specific_info', 'object_groups'):
        cur = mo.fields.get(col)
        init = mo.meta.get('initial_list_content', {}).get(col, [])
        if isinstance(cur, list):
            for x in cur:
                if not any(x is y for y in init) and (not hasattr(x, 'meta') or x.meta.get('attached')
                                                      or x.meta.get('owner')):
                    return "a row already in the store is attached to the object's %s" % col
    return True


c = contract(E + "_set_attribute_on_managed_object").props('C15', 'C13', 'C03')
c.scope('raises.unexpected', 'C13')
c.args(self=ENGINE, managed_object=('dep', lambda a: mo_for(a['attribute'][0])), attribute=SET_PAIRS)
c.let('__mo__', 'managed_object')
# every call site checks applicability first (directly, or through _get_attributes_from_managed_object)
c.requires("self._attribute_policy.is_attribute_applicable_to_object_type(attribute[0], managed_object._object_type)",
           name="attribute-applies-to-the-object-type")
c.raises(('exceptions.InvalidField',))
c.ensures("attribute[0] != 'Name' or same_items(managed_object.names, "
          "list(old(managed_object.names)) + [x.name_value.value for x in attribute[1]])",
          name="names-appended-in-order")
c.ensures("attribute[0] != 'Object Group' or (len(managed_object.object_groups) == "
          "len(old(managed_object.object_groups)) + len(attribute[1]) and "
          "same_items(managed_object.object_groups[:len(old(managed_object.object_groups))], "
          "old(managed_object.object_groups)) and "
          "all([managed_object.object_groups[len(old(managed_object.object_groups)) + i].object_group == "
          "attribute[1][i].value for i in range(len(attribute[1]))]))", name="groups-appended-in-order")
c.ensures("attribute[0] != 'Application Specific Information' or (len(managed_object.app_specific_info) == "
          "len(old(managed_object.app_specific_info)) + len(attribute[1]) and "
          "same_items(managed_object.app_specific_info[:len(old(managed_object.app_specific_info))], "
          "old(managed_object.app_specific_info)) and "
          "all([instance_matches(attribute[0], attribute[1][i], managed_object.app_specific_info["
          "len(old(managed_object.app_specific_info)) + i]) for i in range(len(attribute[1]))]))",
          name="info-appended-in-order")
c.ensures("(attribute[0] == 'Name' or same_items(managed_object.names, old(managed_object.names))) and "
          "(attribute[0] == 'Application Specific Information' or same_items(managed_object.app_specific_info, "
          "old(managed_object.app_specific_info))) and (attribute[0] == 'Object Group' or "
          "same_items(managed_object.object_groups, old(managed_object.object_groups)))",
          name="other-collections-untouched")
c.ensures("attribute[0] != 'Sensitive' or managed_object.sensitive == attribute[1].value",
          name="sensitive-is-the-requested-value")
c.ensures("attribute[0] in ('Name', 'Application Specific Information', 'Object Group', "
          "'Cryptographic Algorithm', 'Cryptographic Length', 'Cryptographic Usage Mask', "
          "'Operation Policy Name', 'Sensitive')", name="success-only-for-storable-attributes")
c.trace("new-rows-only", t_new_rows_only)
# C03 reads only the no-sharing clause off this contract (a stored row shared between objects of
# different owners would let an authorised change of one object change the other)
c.scope('trace.new-rows', 'C15', 'C03')
c.scope('post.', 'C15')
c.scope('frame', 'C15')
c.scope('cover', 'C15', 'C13')
c.modifies("managed_object.names", "managed_object.app_specific_info", "managed_object.object_groups",
           "managed_object.cryptographic_algorithm", "managed_object.cryptographic_length",
           "managed_object.cryptographic_usage_masks", "managed_object.operation_policy_name",
           "managed_object.sensitive")
c.bounded_note = ("collections and value lists of 0..2 symbolic instances; five sample usage masks "
                  "(the mask loop is unrolled over the enumeration)")
c.max_paths = 20000
c.split_by = [('oneof:attribute', len(SET_PAIRS) - 1)]

# ---------------------------------------------------------------- the attribute rule table
AP = "kmip.services.server.policy.AttributePolicy."


def _versions():
    from kmip.core.messages import contents
    return ('oneof',) + tuple(('const', contents.ProtocolVersion(a, b))
                              for a, b in [(1, 0), (1, 1), (1, 2), (1, 3), (1, 4), (2, 0)])


POLICY = ('ctor', 'kmip.services.server.policy.AttributePolicy', {'version': _versions()})
TABLE_NAMES = ('oneof',) + tuple(('const', n) for n in sorted(set(rule_table_names()) | set(spec_attr.PROTECTED)))
for fname in ("is_attribute_modifiable_by_client", "is_attribute_deletable_by_client"):
    c = contract(AP + fname).props('C15')
    c.args(self=POLICY, attribute=TABLE_NAMES)
    c.ensures("not result or attribute not in PROTECTED", name="protected-attributes-are-not-client-writable")
    c.returns('bool')
    c.inlined()        # call sites run the two-line body on the concrete table


# ---------------------------------------------------------------- SetAttribute without any bound
# SetAttribute (KMIP 2.0) only ever succeeds on single-valued attributes; with the multivalued
# collections of the stored object left as lists of unknown length (no instance is enumerated) the
# same clauses are proved without the bound the other attribute contracts carry.
c = contract(E + "_process_set_attribute", variant="any-collections").props('C15', 'C08', 'C09', 'C13')
c.args(self=ENGINE, payload=SET_PAYLOAD)
c.let('__self__', 'self').let('__payload__', 'payload')
c.use_variant("attribute-operation")
c.raises(KMIP_ERRORS)
c.scope('raises.unexpected', 'C13')
c.trace("protected-attributes-never-written", t_protected)
c.trace("no-effect-before-raise", t_no_effect_before_raise)
c.trace("single-transaction", t_single_transaction)
c.trace("access-controlled", make_access_predicate(['SET_ATTRIBUTE']))
c.trace("sets-exactly-what-is-addressed", t_set_exact)
c.scope('trace.sets', 'C15')
c.scope('trace.protected', 'C15')
c.max_paths = 20000
c.split_by = [('protocol-version', 6), ('managed-class', N_STORED_CLASSES)]

# ModifyAttribute / DeleteAttribute addressed at any attribute OTHER than the three stored
# multivalued ones: again no instance of a collection is enumerated, so these run without a bound.
_MULTI = set(COLLECTION_OF)
_SINGLE_1X = ('oneof',) + tuple(_attribute_1x(n, BY_NAME[n]) for n in sorted(BY_NAME) if n not in _MULTI) + \
    ((_attribute_1x('x-custom', _custom),) if _custom else ())
_SINGLE_2_0 = ('oneof',) + tuple(BY_TAG[n] for n in sorted(BY_TAG) if n not in _MULTI)
_SINGLE_NAMES = ('oneof',) + tuple(k for k in FREE_NAMES[1:] if k[1] not in _MULTI)


def _current_single(I, payload):
    from kmip.core import enums
    new = I.resolve_opt(I.getattr(I.resolve_opt(I.getattr(payload, '_new_attribute')), '_attribute'))
    same = enums.convert_attribute_tag_to_name(new.fields['tag'])
    return ('opt', CURRENT(('oneof', BY_TAG[same], BY_TAG['State'] if same != 'State' else BY_TAG['Sensitive'])))


MOD_SINGLE = ('payload', PL + 'modify_attribute.ModifyAttributeRequestPayload', {
    '_unique_identifier': ('lazyopt', TEXT), '_attribute': ('lazy', _SINGLE_1X),
    '_current_attribute': ('lazy', lambda I, payload: _current_single(I, payload)),
    '_new_attribute': ('lazy', NEW(_SINGLE_2_0))})
DEL_SINGLE = ('payload', PL + 'delete_attribute.DeleteAttributeRequestPayload', {
    '_unique_identifier': ('lazyopt', TEXT),
    '_attribute_name': ('lazy', ('opt', ('obj', 'kmip.core.primitives.TextString', {'value': _SINGLE_NAMES}))),
    '_attribute_index': ('lazy', ('opt', INT)),
    '_current_attribute': ('lazy', ('opt', CURRENT(_SINGLE_2_0))),
    '_attribute_reference': ('lazy', ('opt', ('obj', 'kmip.core.objects.AttributeReference',
                                             {'_vendor_identification': ('opt', TEXT),
                                              '_attribute_name': ('obj', 'kmip.core.primitives.TextString',
                                                                  {'value': _SINGLE_NAMES})})))})
for hname, pkind, op, pred, pname in [
        ("_process_modify_attribute", MOD_SINGLE, 'MODIFY_ATTRIBUTE', t_modify_exact, "modifies-exactly-what-is-addressed"),
        ("_process_delete_attribute", DEL_SINGLE, 'DELETE_ATTRIBUTE', t_delete_exact, "removes-exactly-what-is-addressed")]:
    c = contract(E + hname, variant="single-valued-any-collections").props('C15', 'C08', 'C09', 'C13')
    c.args(self=ENGINE, payload=pkind)
    c.let('__self__', 'self').let('__payload__', 'payload')
    c.use_variant("attribute-operation")
    c.raises(KMIP_ERRORS)
    c.scope('raises.unexpected', 'C13')
    c.trace("protected-attributes-never-written", t_protected)
    c.trace("no-effect-before-raise", t_no_effect_before_raise)
    c.trace("single-transaction", t_single_transaction)
    c.trace("access-controlled", make_access_predicate([op]))
    c.trace(pname, pred)
    c.scope('trace.' + pname.split('-')[0], 'C15')
    c.scope('trace.protected', 'C15')
    c.max_paths = 20000
    c.split_by = [('protocol-version', 6), ('managed-class', N_STORED_CLASSES)]

_c = contract(E + "_process_delete_attribute", variant="single-valued-any-collections")
_c.never_returns = True        # nothing but the three stored multivalued attributes can be deleted
_c.trace("single-valued-attributes-cannot-be-deleted",
         lambda ev, outcome, exc: True if outcome != 'return'
         else "DeleteAttribute succeeded on an attribute that is not one of the deletable multivalued ones")
_c.scope('trace.single-valued', 'C15')
