import json
props=[json.loads(l) for l in open('/verif/properties.jsonl')]
claimed = json.load(open('/verif/manifest_claims.json'))
checks=[]
na=[]
for p in props:
    pid=p['id']
    if pid in claimed:
        c=claimed[pid]
        checks.append({"property_id":pid,"quick_cmd":"./check %s --tier quick"%pid,"thorough_cmd":"./check %s --tier thorough"%pid,
          "evidence_file":"/verif/evidence/%s.json"%pid,"replay_cmd_template":"./check %s --replay {path}"%pid,
          "engine":c.get("engine","pyvc"),
          "level_claimed":{"category":c["level"],"text":c["text"],"design_ref":c.get("design_ref","DESIGN.md §6 "+pid)},
          "level_note":c["note"],"technique":c["technique"]})
    else:
        na.append({"property_id":pid,"reason":"check not built yet in this round (see DESIGN.md §9 build order); not claimed until its obligations are discharged on the pinned tree"})
m={"version":1,"setup_cmd":"./setup.sh",
 "hooks":{"guard":"PYKMIP_VERIF","enable":"no hook exists: contracts are sidecar files under /verif/contracts, the repository source is read, never edited",
          "baseline_off_cmd":"cd /repo && /venv/bin/python -m pytest -q -p no:cacheprovider --timeout=900","source_commits":[],"add_only":True},
 "engines":[{"name":"pyvc","path":"vf/pyvc.py","serves_properties":sorted(claimed),"kind_free_text":"symbolic executor / VC generator over the ast of the real functions, z3 + cvc5 back ends, sidecar contracts"},
            {"name":"ttlvsym","path":"vf/ttlvsym.py","serves_properties":["C01","C02","C16"],"kind_free_text":"parametric executor for TTLV structure classes over contract stubs of the primitives"}],
 "checks":checks,"not_applicable":na,
 "notes":"Contract-based deductive verification; see DESIGN.md. Exit codes of ./check: 0 held, 1 violation, 2 undecided, 3 checker error."}
json.dump(m,open('/verif/MANIFEST.json','w'),indent=1)
print(len(checks),'claimed',len(na),'n/a')
