"""Property driver: runs the units (contract proofs, lemmas, bounded stand-ins,
ttlvsym shape runs) of one property in a process pool, decides the verdict,
replays counterexamples, writes the evidence file and prints the result lines.

Exit codes: 0 held (every obligation discharged, or covered by a listed known
finding) / 1 violation / 2 undecided / 3 checker error.
"""
import importlib
import json
import multiprocessing
import os
import sys
import time
import traceback

VERIF = os.path.dirname(os.path.dirname(os.path.abspath(__file__)))


class Unit(object):
    """One schedulable piece of work.  run(session) records obligation results."""

    def __init__(self, name, fn, kind="contract", contract=None, bounded=False, weight=1):
        self.name = name
        self.fn = fn
        self.kind = kind
        self.contract = contract
        self.bounded = bounded
        self.weight = weight


_UNITS = []


def _run_unit(i):
    from . import pyvc, solve
    u = _UNITS[i]
    solve.reset_stats()
    sess = pyvc.Session()
    t0 = time.time()
    err = None
    try:
        u.fn(sess)
    except Exception:
        err = traceback.format_exc()
    res = []
    for name, rs in sess.results.items():
        for r in rs:
            res.append((r.name, r.kind, r.status, r.detail, r.model, r.path_id, r.backend, r.time,
                        getattr(r, 'known', None)))
    return {
        "unit": u.name, "results": res, "covers": sess.covers, "functions": sess.functions,
        "assumptions": sorted(sess.assumptions), "trusted": sorted(sess.trusted),
        "oof": sess.oof, "paths": sess.paths, "infeasible": sess.infeasible, "vcs": sess.vc_count,
        "stats": dict(solve.stats), "wall": time.time() - t0, "error": err,
        "extra": getattr(sess, 'extra', {}), "bounded": u.bounded, "kind": u.kind,
    }


def run_units(units, jobs=None):
    global _UNITS
    _UNITS = list(units)
    jobs = jobs or int(os.environ.get("VERIF_JOBS", "16"))
    order = sorted(range(len(_UNITS)), key=lambda i: -_UNITS[i].weight)
    if jobs <= 1 or len(_UNITS) <= 1:
        return [_run_unit(i) for i in order]
    ctx = multiprocessing.get_context("fork")
    # one fresh fork per unit: ttlvsym units patch classes process-wide
    with ctx.Pool(min(jobs, len(_UNITS)), maxtasksperchild=1) as pool:
        return pool.map(_run_unit, order, chunksize=1)


# ------------------------------------------------------------------ known findings

def load_known(prop):
    p = os.path.join(VERIF, "known_findings.json")
    if not os.path.exists(p):
        return []
    with open(p) as f:
        data = json.load(f)
    return [e for e in data.get("findings", []) if e.get("property") == prop]


def load_baseline(prop):
    p = os.path.join(VERIF, "baseline", "obligations.json")
    if not os.path.exists(p):
        return None
    with open(p) as f:
        return set(json.load(f).get(prop, []))


def save_baseline(prop, names):
    p = os.path.join(VERIF, "baseline", "obligations.json")
    os.makedirs(os.path.dirname(p), exist_ok=True)
    data = {}
    if os.path.exists(p):
        with open(p) as f:
            data = json.load(f)
    data[prop] = sorted(names)
    with open(p, "w") as f:
        json.dump(data, f, indent=1, sort_keys=True)


# ------------------------------------------------------------------ main entry

def run_property(prop, tier="quick", repo="/repo", seed=0, update_baseline=False, only=None):
    t_start = time.time()
    from . import extract
    extract.set_repo(repo)
    sys.path.insert(0, VERIF)
    from . import pyvc, modular, replay, contracts as VC
    mod = importlib.import_module("props." + prop)
    ctx = {"tier": tier, "seed": seed, "repo": repo, "prop": prop,
           "known": [e for e in load_known(prop) if e.get("status") == "known"]}
    units = mod.units(ctx)
    if only:
        units = [u for u in units if any(o in u.name for o in only)]
    if not units:
        print("ERROR property=%s no units generated" % prop)
        return 3
    outs = run_units(units)
    obl_filter = getattr(mod, "OBLIGATION_FILTER", None)
    # ---- merge
    by_name = {}
    errors = []
    functions, assumptions, trusted, covers = {}, set(), set(), {}
    stats = {"z3_calls": 0, "z3_time": 0.0, "z3_max": 0.0, "cvc5_calls": 0, "cvc5_time": 0.0,
             "by_backend": {"z3": 0, "cvc5": 0}, "unknown": 0}
    paths = vcs = 0
    bounded_units, extra = [], {}
    unit_of = {}
    for o in outs:
        if o["error"]:
            errors.append((o["unit"], o["error"]))
        for r in o["results"]:
            if not VC.in_scope(r[0], prop):
                continue        # clause scoped to another property (Contract.scope)
            if obl_filter is not None and not obl_filter(r[0]):
                continue        # the property reads only its own clauses off the shared contracts
            by_name.setdefault(r[0], []).append(r)
            unit_of[r[0]] = o["unit"]
        functions.update(o["functions"])
        assumptions.update(o["assumptions"])
        trusted.update(o["trusted"])
        for k, v in o["covers"].items():
            covers[k] = covers.get(k, False) or v
        paths += o["paths"]
        vcs += o["vcs"]
        for k in ("z3_calls", "cvc5_calls"):
            stats[k] += o["stats"].get(k, 0)
        for k in ("z3_time", "cvc5_time"):
            stats[k] += o["stats"].get(k, 0.0)
        stats["z3_max"] = max(stats["z3_max"], o["stats"].get("z3_max", 0.0))
        for b in ("z3", "cvc5"):
            stats["by_backend"][b] += o["stats"].get("by_backend", {}).get(b, 0)
        stats["unknown"] += o["stats"].get("unknown", 0)
        if o["bounded"]:
            bounded_units.append(o["unit"])
        for k, v in o["extra"].items():
            if isinstance(v, dict):
                extra.setdefault(k, {}).update(v)
            elif isinstance(v, list):
                extra.setdefault(k, []).extend(v)
            elif isinstance(v, (int, float)):
                extra[k] = extra.get(k, 0) + v
            else:
                extra.setdefault(k, []).append(v)
    if os.environ.get("VERIF_TIMING"):
        for o in sorted(outs, key=lambda o: -o["wall"])[:12]:
            print("TIMING %.1fs paths=%d %s" % (o["wall"], o["paths"], o["unit"]))
    if errors:
        for u, e in errors:
            print("CHECKER-ERROR unit=%s\n%s" % (u, e))
        return 3
    # ---- classify obligations
    bounded_names = set(extra.pop("bounded_obligations", []))
    accepted_now = extra.pop("accepted_shapes_pinned", None)
    if accepted_now and update_baseline and not only and os.path.realpath(repo) == os.path.realpath("/repo"):
        from . import ttlvunits
        ttlvunits.write_pinned_acceptance(accepted_now)
    for o in outs:
        if o["bounded"]:
            for r in o["results"]:
                bounded_names.add(r[0])
    status = {}
    for name, rs in by_name.items():
        sts = [r[2] for r in rs]
        if 'failed' in sts:
            status[name] = 'failed'
        elif 'unknown' in sts or 'oof' in sts:
            status[name] = 'unknown'
        else:
            status[name] = 'proved'
    known = load_known(prop)
    baseline = load_baseline(prop)
    lines = []
    violations = 0
    undecided = 0
    known_hits = []
    replays = []
    os.makedirs(os.path.join(VERIF, "replays"), exist_ok=True)
    unit_by_name = {u.name: u for u in units}
    for name in sorted(status):
        st = status[name]
        if st == 'proved':
            continue
        rs = by_name[name]
        if st == 'unknown':
            undecided += 1
            why = next((r[3] for r in rs if r[2] in ('unknown', 'oof')), '')
            lines.append("UNDECIDED property=%s obligation=%s reason=%s" % (prop, name, (why or '')[:160].replace('\n', ' ')))
            continue
        fails = [r for r in rs if r[2] == 'failed']
        new = [r for r in fails if not r[8]]
        old = [r for r in fails if r[8]]
        u = unit_by_name.get(unit_of.get(name))
        for group, is_known in ((old, True), (new, False)):
            if not group:
                continue
            r = group[0]
            rp = None
            if u is not None and u.contract is not None and r[4] is not None:
                rp = replay.replay_contract(u.contract, name, r[4])
            elif u is not None and getattr(u, 'replayer', None) is not None and r[4] is not None:
                rp = u.replayer(name, r[4])
            rec = {"property": prop, "obligation": name, "unit": unit_of.get(name), "tier": tier,
                   "solver_detail": r[3], "counterexample": replay.jsonable(r[4]),
                   "backend": r[6], "replay": rp, "known_finding": r[8] if is_known else None,
                   "failing_paths": len(group)}
            fn = os.path.join("replays", "%s__%s.json" % (prop, _safe(name) + ("__known" if is_known else "")))
            with open(os.path.join(VERIF, fn), "w") as f:
                json.dump(rec, f, indent=1, default=str)
            replays.append(fn)
            confirmed = rp.get("confirmed") if rp else None
            if is_known:
                fid = r[8]
                ent = next((e for e in known if e.get("id") == fid), {})
                if confirmed is False:
                    # the listed finding no longer reproduces on the real code: encoding problem
                    undecided += 1
                    lines.append("UNDECIDED property=%s obligation=%s reason=known-finding-%s-does-not-replay"
                                 % (prop, name, fid))
                else:
                    known_hits.append(fid)
                    lines.append("KNOWN-FINDING: property=%s %s [%s; replay=%s]" % (
                        prop, ent.get("what", name), fid, fn))
            else:
                if confirmed is True:
                    violations += 1
                    lines.append("VIOLATION property=%s replay=%s obligation=%s" % (prop, fn, name))
                elif baseline is not None and name in baseline:
                    violations += 1
                    lines.append("VIOLATION property=%s replay=%s obligation=%s no-failing-input-found"
                                 % (prop, fn, name))
                elif baseline is None:
                    violations += 1
                    lines.append("VIOLATION property=%s replay=%s obligation=%s no-failing-input-found"
                                 % (prop, fn, name))
                else:
                    undecided += 1
                    lines.append("UNDECIDED property=%s obligation=%s reason=fails-but-not-in-baseline-and-no-replayable-input"
                                 % (prop, name))
    # ---- vacuity checks
    n_obl = len(status)
    if n_obl == 0:
        lines.append("UNDECIDED property=%s reason=zero-obligations" % prop)
        undecided += 1
    for o in outs:
        if o["kind"] == "contract":
            k = o["unit"].split('@')[0] + "/cover.pre"      # split units share their contract's covers
            if not covers.get(k, False) and not any(t.startswith("contract of %s assumed" % o["unit"].split('@')[0].split('#')[0])
                                                     for t in trusted):
                lines.append("UNDECIDED property=%s obligation=%s reason=precondition-unreachable (vacuous contract)"
                             % (prop, k))
                undecided += 1
    for u in units:
        c = u.contract
        if c is not None and not c.trusted and (c.ensures_ or getattr(c, 'traces_', None)) \
                and not getattr(c, 'never_returns', False):
            k = c.key + "/cover.return"
            if not covers.get(k, False) and covers.get(c.key + "/cover.pre", False):
                lines.append("UNDECIDED property=%s obligation=%s reason=no-path-returns-normally "
                             "(postconditions hold vacuously)" % (prop, k))
                undecided += 1
    if not only:
        # listed findings this run could not exercise (they are only reachable by the deeper sampling
        # of the thorough tier): still named, so every listed finding of the property appears
        for e in known:
            if e.get("status") == "known" and e.get("property") == prop and e.get("tier") == "thorough" \
                    and tier != "thorough" and e.get("id") not in known_hits:
                lines.append("KNOWN-FINDING: property=%s %s [%s; listed, exercised by the thorough tier only]"
                             % (prop, e.get("what", e.get("obligation")), e.get("id")))
    if baseline is not None and not only:
        missing = [b for b in baseline if b not in status]
        for b in missing[:20]:
            lines.append("UNDECIDED property=%s obligation=%s reason=baseline-obligation-not-generated" % (prop, b))
        undecided += len(missing)
    proved = [n for n, s in status.items() if s == 'proved' and n not in bounded_names]
    bounded_ok = [n for n, s in status.items() if s == 'proved' and n in bounded_names]
    if update_baseline:
        save_baseline(prop, [n for n, s in status.items() if s == 'proved'])
    # ---- evidence
    level = getattr(mod, "LEVEL", "proof")
    wall = time.time() - t_start
    samples = []
    for n in sorted(proved)[:: max(1, len(proved) // 6 or 1)][:6]:
        r = by_name[n][0]
        samples.append({"obligation": n, "kind": r[1], "paths": len(by_name[n]), "backend": r[6]})
    by_kind = {}
    for n in status:
        k = by_name[n][0][1]
        by_kind[k] = by_kind.get(k, 0) + 1
    known_failed = set(n for n in status if status[n] == 'failed' and all(r[8] for r in by_name[n] if r[2] == 'failed'))
    # obligations whose only failures are listed known findings are reported separately (they are
    # neither discharged nor required to hold on this tree: the KNOWN-FINDING lines say why)
    obligations_counted = len([n for n in status if n not in bounded_names and n not in known_failed])
    discharged = len(proved) + len([n for n in known_failed if n not in bounded_names])
    ev = {
        "property_id": prop, "tier": tier, "seed": seed, "level": level,
        "coverage": {
            "obligations": obligations_counted,
            "discharged": len(proved),
            "obligations_failing_only_on_listed_known_findings": sorted(known_failed),
            "checker_cmd": "./check %s --tier %s" % (prop, tier),
            "trusted_base": sorted(trusted) + list(getattr(mod, "TRUSTED_BASE", [])),
            "explanation": getattr(mod, "EXPLANATION", ""),
            "functions_under_contract": functions,
            "obligations_by_kind": by_kind,
            "verification_conditions": vcs,
            "paths_explored": paths,
            "solver": {"z3_calls": stats["z3_calls"], "z3_time_s": round(stats["z3_time"], 2),
                       "z3_max_s": round(stats["z3_max"], 2), "cvc5_calls": stats["cvc5_calls"],
                       "cvc5_time_s": round(stats["cvc5_time"], 2),
                       "discharged_by_backend": stats["by_backend"], "solver_unknown": stats["unknown"]},
            "bounded_checks": {"units": bounded_units, "count": len(bounded_ok),
                               "obligations": sorted(bounded_ok)[:400],
                               "note": "bounded stand-ins (list length, pruned presence products, sampled "
                                       "discriminator domains, byte-level instances); NOT counted in "
                                       "obligations/discharged"},
            "covers_reached": len([k for k, v in covers.items() if v]),
            "undecided": undecided,
            "samples": samples,
            "known_findings_reported": sorted(set(known_hits)),
            "replay_files": replays,
        },
        "assumptions": sorted(assumptions) + list(getattr(mod, "ASSUMPTIONS", [])),
        "wall_s": round(wall, 2),
        "violations": violations,
    }
    if "bounded_detail" in extra:
        ev["coverage"]["bounded_checks"]["detail"] = extra.pop("bounded_detail")
    if "ttlv_samples" in extra:
        extra["ttlv_samples"] = extra["ttlv_samples"][:8]
    ev["coverage"].update(extra)
    os.makedirs(os.path.join(VERIF, "evidence"), exist_ok=True)
    full_run = (not only) and os.path.abspath(repo) == "/repo"
    # partial runs (--only) and runs against a scratch copy (--repo) never touch the evidence file
    evname = prop + ".json" if full_run else os.path.join("partial", prop + ".json")
    os.makedirs(os.path.join(VERIF, "evidence", "partial"), exist_ok=True)
    with open(os.path.join(VERIF, "evidence", evname), "w") as f:
        json.dump(ev, f, indent=1, default=str)
    for ln in lines:
        print(ln)
    print("SUMMARY property=%s tier=%s obligations=%d discharged=%d bounded=%d known=%d violations=%d undecided=%d "
          "vcs=%d paths=%d wall=%.1fs" % (prop, tier, obligations_counted, len(proved), len(bounded_ok),
                                          len(set(known_hits)), violations, undecided, vcs, paths, wall))
    if violations:
        return 1
    if undecided:
        return 2
    return 0


def _safe(s):
    return ''.join(ch if ch.isalnum() or ch in '._-' else '_' for ch in s)[:150]


# ------------------------------------------------------------------ unit helpers

def contract_units(prop, modules, ctx, max_paths=6000, weight=None, slices=None):
    """slices: {choice label: [indices]} restricts the split units of contracts with `split_by` to
    part of the product (used by properties for which the other slices add nothing in the quick
    tier; the property that owns the contract explores the whole product)."""
    from . import contracts as VC, modular
    for m in modules:
        importlib.import_module(m)
    units = []
    known = ctx.get("known", [])
    weight = weight or {}
    for key, c in VC.REGISTRY.items():
        if prop not in c.properties:
            continue
        kn = [(e["obligation"], e.get("witness"), e["id"]) for e in known
              if e["obligation"].startswith(key + "/")]

        explicit = getattr(c, 'split_units', None)
        if explicit:
            # an explicit partition of the exploration: each unit forces the named choices
            for force in explicit:
                def fn(sess, c=c, kn=kn, force=dict(force)):
                    sess.force = force
                    modular.prove_contract(sess, c, max_paths=getattr(c, 'max_paths', None) or max_paths,
                                           known=kn)
                uname = key + "@" + ",".join("%s=%d" % (lab, k) for lab, k in sorted(force.items()))
                units.append(Unit(uname, fn, "contract", contract=c, weight=weight.get(key, 1),
                                  bounded=bool(getattr(c, 'bounded_note', None))))
            continue
        split = getattr(c, 'split_by', None)
        if split:
            # one unit per combination of the named top-level choices (explored in parallel)
            import itertools
            for combo in itertools.product(*[[k for k in range(n) if not slices or lab not in slices
                                              or k in slices[lab]] for lab, n in split]):
                force = {lab: k for (lab, _), k in zip(split, combo)}

                def fn(sess, c=c, kn=kn, force=force):
                    sess.force = force
                    modular.prove_contract(sess, c, max_paths=getattr(c, 'max_paths', None) or max_paths,
                                           known=kn)
                uname = key + "@" + ",".join("%s=%d" % (lab, k) for lab, k in sorted(force.items()))
                units.append(Unit(uname, fn, "contract", contract=c, weight=weight.get(key, 1),
                                  bounded=bool(getattr(c, 'bounded_note', None))))
            continue

        def fn(sess, c=c, kn=kn):
            modular.prove_contract(sess, c, max_paths=getattr(c, 'max_paths', None) or max_paths, known=kn)
        units.append(Unit(key, fn, "contract", contract=c, weight=weight.get(key, 1),
                          bounded=bool(getattr(c, 'bounded_note', None))))
    return units
