"""Native (concrete) implementations of the spec built-ins, used when spec
functions run natively (replay harness, bounded stand-ins).  The symbolic
counterparts live in vf/models_rt.py under the same names."""


def be(n, v):
    return (v % (256 ** n)).to_bytes(n, 'big')


def be_int(b):
    return int.from_bytes(bytes(b), 'big')


def zeros(n):
    return bytes(max(n, 0))


def implies(a, b):
    return (not a) or bool(b)


def iff(a, b):
    return bool(a) == bool(b)


def conj(*a):
    return all(a)


def disj(*a):
    return any(a)


def ite(c, a, b):
    return a if c else b


def text_bytes(s):
    return bytes(ord(c) for c in s)


def bytes_text(b):
    return ''.join(chr(x) for x in b)


def forall_elems(s, lo, hi):
    els = list(s) if isinstance(s, (bytes, bytearray)) else [ord(c) for c in s]
    return all(lo <= e <= hi for e in els)


def is_member(cls, v):
    return any(m.value == v for m in cls)


def member_of(cls, v):
    return cls(v)


def type_is(v, t):
    return type(v) is t


def exists_in(coll, f):
    return coll is not None and any(f(x) for x in coll)


def list_replace(lst, i, v):
    lst = list(lst)
    return lst[:i] + [v] + lst[i + 1:]


def list_remove_at(lst, i):
    lst = list(lst)
    return lst[:i] + lst[i + 1:]


def same_items(a, b):
    a, b = list(a), list(b)
    return len(a) == len(b) and all(x is y or x == y for x, y in zip(a, b))


def removed_first(new, old, pred):
    old = list(old)
    for k, x in enumerate(old):
        if pred(x):
            return same_items(new, old[:k] + old[k + 1:])
    return False


def keys_of(d):
    return set(d.keys())
