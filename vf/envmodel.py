"""Environment models: external objects with ghost state whose methods are models
(contracts of dependencies assumed, listed in the evidence).

A model class is an ordinary Python class; its methods take (I, args, kw) with
args[0] the instance (an Obj of that class) and carry `_pyvc_model = True`.
"""
import z3

from .sym import (SInt, SBool, SSeq, SEnum, SOpt, Opaque, Obj, ExcVal, OutOfFragment, IntSeq, fresh,
                  seq_of, seq_lower, int_term, lower_int, taint_of)


def model(f):
    f._pyvc_model = True
    return f


def _pyvc():
    from . import pyvc
    return pyvc


class Connection(object):
    """TLS socket.  Ghost field `remaining`: the bytes the peer will still deliver.
    Assumed contract of recv(n), n > 0: returns None (would block / no data), b'' (peer
    closed), or a non-empty chunk of at most n bytes which is a prefix of `remaining`
    (any chunking).  sendall(b) appends to the ghost `sent` list and does not raise unless
    `may_fail_send`."""

    @model
    def recv(I, args, kw):
        self, n = args[0], args[1]
        P = I.path
        P.session.assumptions.add("socket.recv(n): returns None, b'' or a non-empty prefix chunk of at "
                                  "most n bytes of the peer's remaining stream (assumed)")
        rem = seq_of(self.fields['remaining'])
        nt = int_term(n)
        if not P.is_valid(nt > 0):
            if not P.branch(nt > 0):
                raise OutOfFragment("recv with non-positive size")
        k = P.choose(3, "recv")
        if k == 1:
            P.event('recv', 'none')
            return None
        if k == 2:
            P.event('recv', 'closed')
            return b''
        total = rem.length()
        tt = total if not isinstance(total, int) else z3.IntVal(total)
        ln = fresh("chunk")
        P.assume(z3.And(ln >= 1, ln <= nt, ln <= tt))
        from . import models as M
        chunk = M.slice_(I, rem, 0, lower_int(ln), None)
        rest = M.slice_(I, rem, lower_int(ln), None, None)
        self.fields['remaining'] = rest
        P.event('recv', 'chunk')
        return chunk

    @model
    def sendall(I, args, kw):
        self, data = args[0], args[1]
        self.fields.setdefault('sent', []).append(data)
        I.path.event('send', taint_of(data))
        return None

    @model
    def shared_ciphers(I, args, kw):
        return Opaque('list', 'shared_ciphers')

    @model
    def cipher(I, args, kw):
        return Opaque('object', 'cipher')


MODELS = {"Connection": Connection}


def make(name, I, label):
    if name == "Connection":
        o = Obj(Connection, {}, label)
        t = fresh(label + ".remaining", IntSeq)
        o.fields['remaining'] = SSeq('bytes', [('s', t)])
        o.fields['sent'] = []
        o.meta['initial_fields'] = dict(o.fields)
        return o
    raise OutOfFragment("unknown environment model %s" % name)
