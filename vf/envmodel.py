"""Environment models: external objects with ghost state whose methods are models
(contracts of dependencies assumed, listed in the evidence).

A model class is an ordinary Python class; its methods take (I, args, kw) with
args[0] the instance (an Obj of that class) and carry `_pyvc_model = True`.
"""
import z3

from .sym import (SInt, SBool, SSeq, SEnum, SOpt, Opaque, Obj, ExcVal, OutOfFragment, IntSeq, fresh,
                  seq_of, seq_lower, int_term, lower_int, taint_of)


def model(f):
    f._pyvc_model = True
    return f


def _pyvc():
    from . import pyvc
    return pyvc


class Connection(object):
    """TLS socket.  Ghost field `remaining`: the bytes the peer will still deliver.
    Assumed contract of recv(n), n > 0: returns None (would block / no data), b'' (peer
    closed), or a non-empty chunk of at most n bytes which is a prefix of `remaining`
    (any chunking).  sendall(b) appends to the ghost `sent` list and does not raise unless
    `may_fail_send`."""

    @model
    def recv(I, args, kw):
        self, n = args[0], args[1]
        P = I.path
        P.session.assumptions.add("socket.recv(n): returns None, b'' or a non-empty prefix chunk of at "
                                  "most n bytes of the peer's remaining stream (assumed)")
        rem = seq_of(self.fields['remaining'])
        nt = int_term(n)
        if not P.is_valid(nt > 0):
            if not P.branch(nt > 0):
                raise OutOfFragment("recv with non-positive size")
        k = P.choose(3, "recv")
        if k == 1:
            P.event('recv', 'none')
            return None
        if k == 2:
            P.event('recv', 'closed')
            return b''
        total = rem.length()
        tt = total if not isinstance(total, int) else z3.IntVal(total)
        ln = fresh("chunk")
        P.assume(z3.And(ln >= 1, ln <= nt, ln <= tt))
        from . import models as M
        chunk = M.slice_(I, rem, 0, lower_int(ln), None)
        rest = M.slice_(I, rem, lower_int(ln), None, None)
        self.fields['remaining'] = rest
        P.event('recv', 'chunk')
        return chunk

    @model
    def sendall(I, args, kw):
        self, data = args[0], args[1]
        self.fields.setdefault('sent', []).append(data)
        I.path.event('send', taint_of(data), data)
        return None

    @model
    def shared_ciphers(I, args, kw):
        k = I.path.choose(3, "ciphers")
        if k == 0:
            return None
        return [] if k == 1 else [Opaque('object', 'cipher-tuple')]

    @model
    def cipher(I, args, kw):
        return Opaque('object', 'cipher')


    @model
    def do_handshake(I, args, kw):
        if I.path.choose(2, "handshake") == 1:
            I.path.event('raise', 'HandshakeFailure')
            e = ExcVal(Exception, (Opaque('str', 'handshake failure'),))
            e.fields['__unknown_subclass__'] = True
            raise _pyvc().Raised(e)
        return None

    @model
    def shutdown(I, args, kw):
        return None

    @model
    def close(I, args, kw):
        return None


class Engine(object):
    """The engine as seen by the session (assumed here; proved in the engine contracts):
    process_request(request, identity) returns (response, max size | None, protocol version)
    or raises; build_error_response(version, reason, message) returns a response, never raises."""
    default_protocol_version = None

    @model
    def process_request(I, args, kw):
        self, request, identity = args[0], args[1], args[2]
        P = I.path
        P.event('engine.process_request', id(request), id(identity))
        k = P.choose(3, "engine")
        if k == 1:
            import kmip.core.exceptions as E
            e = ExcVal(E.KmipError, (Opaque('str', 'kmip error text'),))
            e.fields['reason'] = Opaque('object', 'reason')
            e.fields['__unknown_subclass__'] = True
            raise _pyvc().Raised(e)
        if k == 2:
            e = ExcVal(Exception, (Opaque('str', 'unexpected'),))
            e.fields['__unknown_subclass__'] = True
            raise _pyvc().Raised(e)
        resp = Obj(Response, {'kind': 'engine-response'}, 'response')
        m = fresh("max_response_size")
        P.assume(m >= 0)
        nomax = fresh("no_max", z3.BoolSort())
        P.event('engine.max', nomax, m)
        return (resp, SOpt(nomax, SInt(m)), Opaque('object', 'protocol_version'))

    @model
    def build_error_response(I, args, kw):
        self, version, reason, message = args[0], args[1], args[2], args[3]
        I.path.event('engine.error_response', reason, id(version))
        r = Obj(Response, {'kind': 'error', 'reason': reason, 'message': message}, 'error-response')
        if isinstance(version, Opaque) and 'partial' in version.facts:
            # precondition of build_error_response: a completely decoded protocol version
            r.fields['bad_version'] = True
            I.path.event('engine.error_response.partial_version')
        return r


def _engine_other(I, obj, name):
    """any other attribute of the engine the session touches: recorded (the session's contract allows
    none - everything but the two entry points above runs outside the engine's lock)"""
    I.path.event('engine.other', name)

    def call(I2, args, kw):
        I2.path.event('engine.other.call', name)
        return Opaque('object', 'engine.' + name + '()')
    call._pyvc_model = True
    return _pyvc().BoundMethod(obj, _drop_self(call))


Engine._pyvc_dynamic = _engine_other


class Response(object):
    """ResponseMessage built by the engine: write() appends its encoding (any bytes) to the
    stream and is assumed not to raise (C01/C02 cover the codec)."""

    @model
    def write(I, args, kw):
        self, stream = args[0], args[1]
        P = I.path
        if self.fields.get('bad_version'):
            # a header carrying a half-decoded protocol version cannot be encoded
            raise _pyvc().Raised(ExcVal(ValueError, ("Invalid struct missing the protocol version number",)))
        P.session.assumptions.add("ResponseMessage.write does not raise for responses built by the engine "
                                  "from a completely decoded protocol version")
        t = fresh("encoding", IntSeq)
        P.assume(z3.Length(t) >= 8)
        if self.fields.get('kind') == 'error':
            P.session.assumptions.add("an error response built by build_error_response encodes to at "
                                      "most 4096 bytes (one batch item with a fixed message)")
            P.assume(z3.Length(t) <= 4096)
        cur = stream.fields.get('buffer', b'')
        from .sym import seq_concat
        stream.fields['buffer'] = seq_concat(cur, SSeq('bytes', [('s', t)], frozenset(['wire'])))
        P.event('response.write', self.fields.get('kind'), self.fields.get('reason'), t)
        self.fields['encoded_as'] = t.get_id()
        return None


class OperationResult(object):
    """Result object returned by KMIPProxy operations: status always present; reason and
    message present (C02: the server sends them whenever the status is not Success).  Any other
    attribute is an uninterpreted payload field."""

    def _pyvc_dynamic(I, obj, name):
        r = Opaque('object', 'result.' + name)
        obj.fields[name] = r
        return r


class _Val(object):
    pass


# KMIPProxy operations that answer with a plain dictionary instead of a result object
DICT_RESULT_OPS = ('rekey', 'derive_key', 'check', 'encrypt', 'decrypt', 'sign', 'signature_verify')


class Proxy(object):
    """KMIPProxy as seen by ProxyKmipClient: every operation returns an OperationResult (or
    raises, e.g. on a connection error)."""

    def _pyvc_dynamic(I, obj, name):
        def call(I2, args, kw):
            P = I2.path
            if P.choose(2, "proxy-raises") == 1:
                e = ExcVal(Exception, (Opaque('str', 'proxy error'),))
                e.fields['__unknown_subclass__'] = True
                P.event('proxy.raise', name)
                raise _pyvc().Raised(e)
            from kmip.core import enums
            from .modular import make_symbolic
            res = Obj(OperationResult, {}, 'result')
            st = make_symbolic(I2, ('enum', enums.ResultStatus), 'status')
            res.fields['result_status'] = Obj(_Val, {'value': st})
            with_msg = obj.fields.get('__messages__', True)
            rs = make_symbolic(I2, ('enum', enums.ResultReason), 'reason')
            res.fields['result_reason'] = Obj(_Val, {'value': rs})
            msg = make_symbolic(I2, 'str', 'message')
            res.fields['result_message'] = Obj(_Val, {'value': msg}) if with_msg else None
            P.event('proxy.call', name, st, rs, msg if with_msg else None)
            if name in DICT_RESULT_OPS:
                return {'result_status': st, 'result_reason': rs,
                        'result_message': msg if with_msg else None}
            return res
        call._pyvc_model = True
        return _pyvc().BoundMethod(obj, _drop_self(call))


def _drop_self(f):
    def g(I, args, kw):
        return f(I, args[1:], kw)
    g._pyvc_model = True
    return g


class Crypto(object):
    """CryptographyEngine as seen by the request handlers: every method returns an uninterpreted
    value tainted `secret` (or raises InvalidField / CryptographicFailure); the call and its
    arguments are recorded as a ('crypto', method, args, kwargs) event."""

    def _pyvc_dynamic(I, obj, name):
        def call(I2, args, kw):
            P = I2.path
            P.event('crypto', name, tuple(args), dict(kw))
            if name == 'derive_key':
                # assumed contract of the engine/library: a negative output length is not a KMIP
                # error but an OverflowError from the key derivation function
                from .sym import int_term as _it, is_symbolic as _sym
                dl = I2.resolve_opt(kw.get('derivation_length'))
                if dl is not None and not isinstance(dl, Opaque):
                    neg = (_it(dl) < 0) if _sym(dl) else (dl < 0)
                    if (neg is True) or (not isinstance(neg, bool) and P.branch(neg)):
                        P.event('raise', 'OverflowError')
                        raise _pyvc().Raised(ExcVal(OverflowError, ("can't convert negative int to unsigned",)))
            k = P.choose(3, "crypto-outcome")
            if k:
                import kmip.core.exceptions as E
                cls = E.InvalidField if k == 1 else E.CryptographicFailure
                e = ExcVal(cls, (Opaque('str', 'crypto failure', facts={'nonempty'}),))
                from .modular import _exc_fields
                _exc_fields(I2, e, cls)
                P.event('raise', cls.__name__)
                raise _pyvc().Raised(e)
            sec = frozenset(['secret'])

            def tb(n):
                return SSeq('bytes', [('s', fresh("crypto_" + n, IntSeq))], sec)

            def optb(n):
                return SOpt(fresh("no_" + n, z3.BoolSort()), tb(n))
            if name == 'encrypt':
                return {'cipher_text': tb('cipher_text'), 'iv_nonce': optb('iv_nonce'), 'auth_tag': optb('auth_tag')}
            if name in ('decrypt', 'sign', 'mac', 'derive_key', 'wrap_key'):
                return tb(name)
            if name == 'verify_signature':
                return SBool(fresh("signature_valid", z3.BoolSort()))
            if name == 'create_symmetric_key':
                from kmip.core import enums
                key = tb('key')
                if len(args) > 1 and not isinstance(args[1], Opaque):
                    # contract of CryptographyEngine.create_symmetric_key (C06): length // 8 fresh bytes
                    from .sym import int_term as _it
                    P.assume(z3.Length(key.chunks[0][1]) * 8 == _it(args[1]))
                return {'value': key, 'format': enums.KeyFormatType.RAW}
            if name == 'create_asymmetric_key_pair':
                from kmip.core import enums
                return ({'value': tb('public'), 'format': enums.KeyFormatType.PKCS_1, 'public_exponent': 65537},
                        {'value': tb('private'), 'format': enums.KeyFormatType.PKCS_8, 'public_exponent': 65537})
            return Opaque('object', 'crypto.' + name, taint=sec)
        call._pyvc_model = True
        return _pyvc().BoundMethod(obj, _drop_self(call))


class Config(object):
    """configparser.ConfigParser as seen by ConfigHelper: get(section, option) returns the option's
    text - which may be a password, so it carries the label `secret` - or raises; the text of the
    error may quote the raw value (InterpolationSyntaxError does: "'%' must be followed by ...,
    found: '<rest of the value>'"), so it carries the label too."""

    @model
    def get(I, args, kw):
        P = I.path
        sec = frozenset(['secret'])
        if P.choose(2, "config-get-raises") == 1:
            e = ExcVal(Exception, (SSeq('str', [('s', fresh("config_error_text", IntSeq))], sec),))
            e.fields['__unknown_subclass__'] = True
            P.event('raise', 'Exception')
            raise _pyvc().Raised(e)
        return SSeq('str', [('s', fresh("config_value", IntSeq))], sec)


MODELS = {"Connection": Connection, "Engine": Engine, "Proxy": Proxy, "Crypto": Crypto, "Config": Config}


def make(name, I, label):
    if name == "Connection":
        o = Obj(Connection, {}, label)
        t = fresh(label + ".remaining", IntSeq)
        o.fields['remaining'] = SSeq('bytes', [('s', t)])
        o.fields['sent'] = []
        o.meta['initial_fields'] = dict(o.fields)
        return o
    if name == "Crypto":
        return Obj(Crypto, {}, label)
    if name == "Config":
        return Obj(Config, {}, label)
    if name in ("Proxy", "ProxyNoMessage"):
        o = Obj(Proxy, {'__messages__': name == "Proxy"}, label)
        return o
    if name == "Engine":
        from kmip.core.messages import contents
        o = Obj(Engine, {'default_protocol_version': contents.ProtocolVersion(2, 0)}, label)
        return o
    raise OutOfFragment("unknown environment model %s" % name)
