"""Iteration over a list of symbolic length (SList): one arbitrary iteration over
an arbitrary *member* of the list, the member being recorded so that spec
quantifiers (`exists_in`) can use it as a witness."""
import z3

from .sym import fresh, lower_int, SInt
from . import models_rt as R


def _pyvc():
    from . import pyvc
    return pyvc


def symbolic_for_list(I, node, env, it, spec, k, qn):
    P = I.path
    base = "%s/inv.%d" % (qn, k)
    idx_name = spec.index or '_i'
    ghosts = {}
    for g, src in spec.ghost_init.items():
        ghosts[g] = I.eval_spec(src, env.locals, env.globals, env.locals.get('__old__'), env.cls_ctx)
    extra0 = dict(ghosts)
    extra0[idx_name] = 0
    R._prove_inv(I, spec, env, extra0, base + ".init")
    R._havoc_loop_state(I, node, env, spec, "L%d" % k)
    i = fresh("i")
    n_t = it.length if not isinstance(it.length, int) else z3.IntVal(it.length)
    P.assume(z3.And(i >= 0, i <= n_t))
    gh = {g: (R._havoc_like(I, v, "g_" + g) if g in spec.ghost_step else v) for g, v in ghosts.items()}
    extra = dict(gh)
    extra[idx_name] = SInt(i)
    R._assume_inv(I, spec, env, extra, spec._havocked | set(gh))
    if P.choose(2, "loop%d" % k) == 0:
        P.assume(i < n_t)
        x = it.elem_factory(I, "m%d" % len(it.members))
        it.members.append(x)
        P.event('loop.item', k, x, id(it))
        I.assign(node.target, x, env)
        snap = R._heap_snapshot(I, env)
        try:
            I.exec_block(node.body, env)
        except _pyvc()._Break:
            I.path.event('loop.break', k)      # the loop is left before its iterable is exhausted
            return
        except _pyvc()._Continue:
            pass
        R._check_frame(I, env, snap, spec.modifies, qn, k)
        extra2 = {}
        for g in gh:
            loc = dict(env.locals)
            loc.update(extra)
            extra2[g] = I.eval_spec(spec.ghost_step[g], loc, env.globals,
                                    env.locals.get('__old__'), env.cls_ctx) if g in spec.ghost_step else gh[g]
        extra2[idx_name] = lower_int(i + 1)
        R._prove_inv(I, spec, env, extra2, base + ".preserved")
        P.event('loop.iteration.end', k)
        raise _pyvc().PathEnd()
    P.assume(i == n_t)
    # the ghost accumulators after the last iteration stay visible to later clauses
    P.ghost.setdefault('loop_ghosts', {})[k] = dict(gh)
    P.event('loop.exit', k, id(it))
    for g, v in gh.items():
        env.locals['__g%d_%s' % (k, g)] = v
