"""Structural facts read from the live classes of the tree under verification (introspection,
no execution of repository code).  Each fact is an obligation of kind `fact`."""
import inspect

from . import pyvc
from .driver import Unit


def _rec(sess, name, ok, detail):
    sess.record(pyvc.ObligationResult(name, "fact", "proved" if ok else "failed", detail,
                                      None if ok else {"fact": name, "detail": detail}, None, "introspection"))


def f_lock(sess, tier):
    from kmip.services.server import engine as E
    K = E.KmipEngine
    pr = inspect.getattr_static(K, 'process_request')
    cells = {}
    if getattr(pr, '__closure__', None):
        cells = dict(zip(pr.__code__.co_freevars, [c.cell_contents for c in pr.__closure__]))
    ok = pr.__qualname__.endswith('_synchronize.<locals>.decorator') and \
        getattr(cells.get('function'), '__name__', None) == 'process_request'
    _rec(sess, "fact:C10/process_request-is-wrapped-by-_synchronize", ok,
         "KmipEngine.process_request is %s wrapping %r" % (pr.__qualname__, cells.get('function')))
    public = [n for n, v in vars(K).items() if inspect.isfunction(v) and not n.startswith('_')]
    allowed = {'process_request', 'build_error_response', 'get_relevant_policy_section', 'is_allowed'}
    extra = sorted(set(public) - allowed)
    _rec(sess, "fact:C10/no-other-public-entry-point", not extra,
         "public methods of KmipEngine: %s; unexpected: %s" % (sorted(public), extra))
    import ast
    from . import extract
    ex = extract.by_qualname("kmip.services.server.engine.KmipEngine.__init__")
    has_lock = any(isinstance(n, ast.Assign) and any(isinstance(t, ast.Attribute) and t.attr == '_lock'
                                                     for t in n.targets)
                   and 'RLock' in ast.unparse(n.value) for n in ast.walk(ex.node))
    _rec(sess, "fact:C10/lock-is-one-rlock-created-in-__init__", has_lock, "self._lock = threading.RLock()")


def f_state_frame(sess, tier):
    """C04/C15 frame: `state`, `_owner`, `unique_identifier`, `operation_policy_name` are assigned
    only in the functions that may assign them (scan of every function of engine.py)."""
    import ast
    from . import extract
    src, tree, mod = extract.module_source("kmip.services.server.engine")
    allowed = {
        'state': {'_process_activate', '_process_revoke', '_process_destroy'},
        '_owner': {'_process_create', '_process_create_key_pair', '_process_register', '_process_derive_key'},
        'unique_identifier': set(),
        '_object_type': set(),
    }
    for attr, fns in allowed.items():
        bad = []
        for fn in ast.walk(tree):
            if not isinstance(fn, ast.FunctionDef):
                continue
            for n in ast.walk(fn):
                targets = []
                if isinstance(n, ast.Assign):
                    targets = n.targets
                elif isinstance(n, (ast.AugAssign, ast.AnnAssign)):
                    targets = [n.target]
                for t in targets:
                    for x in ast.walk(t):
                        if isinstance(x, ast.Attribute) and x.attr == attr and isinstance(x.ctx, ast.Store) \
                                and not (isinstance(x.value, ast.Name) and x.value.id == 'self'):
                            if fn.name not in fns:
                                bad.append("%s (line %d)" % (fn.name, n.lineno))
                if isinstance(n, ast.Call) and isinstance(n.func, ast.Name) and n.func.id == 'setattr' \
                        and len(n.args) >= 2 and isinstance(n.args[1], ast.Constant) and n.args[1].value == attr:
                    bad.append("%s (setattr, line %d)" % (fn.name, n.lineno))
        _rec(sess, "fact:frame/%s-assigned-only-in-%s" % (attr, '+'.join(sorted(fns)) or 'no-function'),
             not bad, "other assignments: %s" % bad)


def f_autoincrement(sess, tier):
    """C07: identifiers come from an AUTOINCREMENT integer primary key on the base table."""
    from kmip.pie import objects
    M = objects.ManagedObject
    ta = getattr(M, '__table_args__', None)
    ok = isinstance(ta, dict) and ta.get('sqlite_autoincrement') is True or \
        (isinstance(ta, tuple) and any(isinstance(x, dict) and x.get('sqlite_autoincrement') is True for x in ta))
    _rec(sess, "fact:C07/managed_objects-uses-sqlite-autoincrement", bool(ok), "__table_args__ = %r" % (ta,))
    col = M.__table__.c.get('uid') if hasattr(M, '__table__') else None
    cols = [c for c in M.__table__.columns if c.primary_key]
    ok2 = len(cols) == 1 and 'INTEGER' in str(cols[0].type).upper() and \
        M.unique_identifier.property.columns[0] is cols[0]
    _rec(sess, "fact:C07/unique_identifier-is-the-integer-primary-key", ok2,
         "primary key columns: %s" % [(c.name, str(c.type)) for c in cols])
    subs = [c for c in (objects.CryptographicObject, objects.Key, objects.SymmetricKey, objects.PublicKey,
                        objects.PrivateKey, objects.SplitKey, objects.Certificate, objects.X509Certificate,
                        objects.SecretData, objects.OpaqueObject)]
    def reaches_base(t, depth=0):
        if t is M.__table__:
            return True
        if depth > 6:
            return False
        return any(reaches_base(fk.column.table, depth + 1) for col in t.columns if col.primary_key
                   for fk in col.foreign_keys)
    bad = [c.__name__ for c in subs if not reaches_base(c.__table__)]
    _rec(sess, "fact:C07/every-stored-class-keys-on-the-base-row", not bad, "classes without FK primary key: %s" % bad)


def f_versions(sess, tier):
    """C16: the supported-version list is exactly 1.0-2.0, newest first."""
    from . import dbmodel
    vs = [(v.major, v.minor) for v in dbmodel.protocol_versions()]
    _rec(sess, "fact:C16/supported-versions-are-the-six-newest-first",
         vs == [(2, 0), (1, 4), (1, 3), (1, 2), (1, 1), (1, 0)], "self._protocol_versions = %r" % (vs,))


def f_crypto_wrapped(sess, tier):
    """C13: the three operations of the cryptography engine that drive the library with
    request-controlled parameters are the error-mapping wrapper (whose contract is proved)."""
    from kmip.services.server.crypto import engine as CE
    K = CE.CryptographyEngine
    for name in ("encrypt", "decrypt", "derive_key"):
        f = inspect.getattr_static(K, name)
        cells = {}
        if getattr(f, '__closure__', None):
            cells = dict(zip(f.__code__.co_freevars, [c.cell_contents for c in f.__closure__]))
        ok = f.__qualname__.endswith('_report_library_errors.<locals>.wrapper') and \
            getattr(cells.get('function'), '__name__', None) == name
        _rec(sess, "fact:C13/CryptographyEngine.%s-reports-library-errors-as-KMIP-errors" % name, ok,
             "CryptographyEngine.%s is %s wrapping %r" % (name, f.__qualname__, cells.get('function')))


def f_tag_blocks(sess, tier):
    from contracts import spec_versions as SV
    msg = SV.consistent_with_enum_sections()
    _rec(sess, "fact:C16/tag-blocks-per-version-agree-with-the-specification-table", msg is None, msg or "ok")


def f_wrappers_truthy(sess, tier):
    """C01/C02: the structure classes test the presence of a field by the truthiness of the wrapper
    object (`if self._field:`) - in write(), in the getters and in validate().  The parametric
    executor relies on it exactly as the code does: a wrapper object is truthy whatever it holds.
    That is a fact about the classes: no TTLV class (primitive, attribute, structure, payload)
    defines __bool__ or __len__.  A class that did would make 'present but empty/zero' read as
    'absent' and silently drop the field."""
    import importlib
    import pkgutil
    import kmip.core
    from kmip.core import primitives
    for m in pkgutil.walk_packages(kmip.core.__path__, 'kmip.core.'):
        try:
            importlib.import_module(m.name)
        except Exception:
            pass
    seen, todo, bad = set(), [primitives.Base], []
    while todo:
        k = todo.pop()
        if k in seen:
            continue
        seen.add(k)
        todo.extend(k.__subclasses__())
        for nm in ('__bool__', '__len__'):
            if nm in vars(k):
                bad.append("%s.%s defines %s" % (k.__module__, k.__qualname__, nm))
    _rec(sess, "fact:C01/ttlv-objects-are-truthy-whatever-they-hold", not bad,
         "%d TTLV classes inspected; %s" % (len(seen), "; ".join(sorted(bad)) or "none defines __bool__ or __len__"))


def mutable_defaults_present():
    """cheap pre-check used by properties whose other units run repository code natively: with a
    shared mutable default those runs contaminate each other (and may not terminate)"""
    class _S(object):
        def __init__(self):
            self.bad = False

        def record(self, r):
            self.bad = self.bad or r.status != 'proved'
    s = _S()
    f_no_mutable_defaults(s, 'quick')
    return s.bad


def f_no_mutable_defaults(sess, tier):
    """The executor evaluates a default argument at every call; Python evaluates it once, when the
    function is defined.  The two agree exactly when no default is a mutable object - otherwise one
    list or dictionary is shared by every call that omits the argument (a decoder appending to it
    contaminates every later message).  Checked over every function of the package under verification."""
    import ast
    import os
    from . import extract
    root = os.path.join(extract.repo(), 'kmip')
    bad, n = [], 0
    for d, _, files in os.walk(root):
        if os.sep + 'tests' in d:
            continue
        for f in files:
            if not f.endswith('.py'):
                continue
            p = os.path.join(d, f)
            try:
                tree = ast.parse(open(p).read())
            except Exception as e:
                bad.append("%s does not parse: %s" % (p, e))
                continue
            for node in ast.walk(tree):
                if isinstance(node, (ast.FunctionDef, ast.AsyncFunctionDef, ast.Lambda)):
                    n += 1
                    for dflt in list(node.args.defaults) + [x for x in node.args.kw_defaults if x is not None]:
                        mutable = isinstance(dflt, (ast.List, ast.Dict, ast.Set, ast.ListComp, ast.DictComp, ast.SetComp)) or \
                            (isinstance(dflt, ast.Call) and getattr(dflt.func, 'id', '') in ('list', 'dict', 'set', 'bytearray'))
                        if mutable:
                            bad.append("%s:%d %s has the mutable default %s" % (
                                os.path.relpath(p, extract.repo()), node.lineno, getattr(node, 'name', '<lambda>'),
                                ast.unparse(dflt)))
    _rec(sess, "fact:C01/no-function-has-a-mutable-default-argument", not bad,
         "%d functions inspected; %s" % (n, "; ".join(bad) or "no mutable default"))


def f_store_durability_untouched(sess, tier):
    """C09 assumes SQLite's transaction atomicity and durability as shipped.  That assumption is only
    as good as the connection settings: a PRAGMA (journal_mode, synchronous, locking_mode, ...) or a
    connection/engine event listener that issues one changes what a commit guarantees.  Checked over
    the whole package: no string containing PRAGMA, no connection- or transaction-level sqlalchemy
    event listener (attribute-level listeners of the mapped classes are not concerned)."""
    import ast
    import os
    from . import extract
    root = os.path.join(extract.repo(), 'kmip')
    bad, n = [], 0
    for d, _, files in os.walk(root):
        if os.sep + 'tests' in d:
            continue
        for f in files:
            if not f.endswith('.py'):
                continue
            p = os.path.join(d, f)
            try:
                tree = ast.parse(open(p).read())
            except Exception as e:
                bad.append("%s does not parse: %s" % (p, e))
                continue
            n += 1
            rel = os.path.relpath(p, extract.repo())
            for node in ast.walk(tree):
                if isinstance(node, ast.Constant) and isinstance(node.value, str) and 'pragma' in node.value.lower() \
                        and not isinstance(getattr(node, '_parent_expr', None), ast.Expr):
                    bad.append("%s:%d issues %r" % (rel, node.lineno, node.value[:60]))
                if isinstance(node, ast.Call) and isinstance(node.func, ast.Attribute) and \
                        node.func.attr in ('listens_for', 'listen') and len(node.args) >= 2 and \
                        isinstance(node.args[1], ast.Constant) and node.args[1].value in (
                            'connect', 'first_connect', 'engine_connect', 'begin', 'checkout', 'checkin',
                            'before_cursor_execute', 'after_cursor_execute', 'commit', 'before_commit', 'after_begin'):
                    bad.append("%s:%d registers a connection-level sqlalchemy listener (%s)" % (
                        rel, node.lineno, ast.unparse(node)[:80]))
    _rec(sess, "fact:C09/connection-settings-of-the-store-are-sqlites-defaults", not bad,
         "%d modules inspected; %s" % (n, "; ".join(bad) or "no PRAGMA, no connection-level listener"))


def f_exact_column_types(sess, tier):
    """C05 reads a stored column back as the value that was written.  The executor models a column as a
    cell that returns what was put in; that is SQLAlchemy/SQLite behaviour for integer, text, blob,
    boolean and the repository's own decorated types, and it is NOT for the floating / fixed-point
    types, which on SQLite pass every value through a double.  Checked over kmip/pie: no Column and no
    TypeDecorator impl is declared with Numeric, Float, REAL, DECIMAL or Double."""
    import ast
    import os
    from . import extract
    LOSSY = {'Numeric', 'Float', 'REAL', 'DECIMAL', 'Double', 'FLOAT', 'NUMERIC', 'DOUBLE', 'DOUBLE_PRECISION'}
    bad, n = [], 0
    for f in ('kmip/pie/objects.py', 'kmip/pie/sqltypes.py'):
        p = os.path.join(extract.repo(), f)
        tree = ast.parse(open(p).read())
        for node in ast.walk(tree):
            tys = []
            if isinstance(node, ast.Call) and (getattr(node.func, 'attr', None) == 'Column' or
                                               getattr(node.func, 'id', None) == 'Column'):
                n += 1
                tys = [a for a in list(node.args) + [k.value for k in node.keywords if k.arg == 'type_']
                       if not (isinstance(a, ast.Constant) and isinstance(a.value, str))]
            elif isinstance(node, ast.Assign) and any(getattr(t, 'id', None) == 'impl' for t in node.targets):
                n += 1
                tys = [node.value]
            for ty in tys:
                for sub in ast.walk(ty):
                    nm = getattr(sub, 'attr', None) or getattr(sub, 'id', None)
                    if nm in LOSSY:
                        bad.append("%s:%d %s" % (f, node.lineno, ast.unparse(node)[:90]))
    _rec(sess, "fact:C05/no-stored-column-is-of-a-floating-or-fixed-point-type", not bad and n > 0,
         "%d column / impl declarations inspected; %s" % (n, "; ".join(bad) or "none is Numeric/Float/REAL/DECIMAL/Double"))


def units(names, ctx):
    table = {"exact_column_types": f_exact_column_types, "store_durability": f_store_durability_untouched, "no_mutable_defaults": f_no_mutable_defaults, "wrappers_truthy": f_wrappers_truthy, "tag_blocks": f_tag_blocks, "crypto_wrapped": f_crypto_wrapped, "lock": f_lock, "state_frame": f_state_frame, "autoincrement": f_autoincrement,
             "versions": f_versions}
    out = []
    for nm in names:
        f = table[nm]
        u = Unit("facts:" + nm, (lambda sess, f=f: f(sess, ctx["tier"])), "fact")
        u.replayer = lambda name, model: {"confirmed": True, "note": "structural fact read from the live "
                                          "classes/source of the tree", "fact": model}
        out.append(u)
    return out
