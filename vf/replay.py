"""Replay of solver counterexamples against the real code (CPython runs the
function from the tree the VCs came from), and lifting of native values into
the evaluator so that the *same clause text* is evaluated on the real outcome.
"""
import copy
import enum
import importlib
import json
import os
import traceback

from . import extract, pyvc, modular
from .contracts import parse_expr
from .sym import Obj, ExcVal


def resolve_class(path):
    return modular._resolve_class(path)


class FakeConnection(object):
    """Native stand-in for the socket model: delivers `remaining` according to a chunking
    strategy: 'all' (as much as asked), 'ones' (one byte at a time), 'one-then-max'."""

    def __init__(self, remaining, strategy='all'):
        self.remaining = bytes(remaining)
        self.strategy = strategy
        self.calls = 0
        self.sent = []

    def recv(self, n):
        self.calls += 1
        if not self.remaining:
            return b''
        k = n
        if self.strategy == 'ones' or (self.strategy == 'one-then-max' and self.calls == 1):
            k = 1
        k = max(1, min(k, n, len(self.remaining)))
        out, self.remaining = self.remaining[:k], self.remaining[k:]
        return out

    def sendall(self, b):
        self.sent.append(bytes(b))

    def shared_ciphers(self):
        return None

    def cipher(self):
        return None


class _V(object):
    def __init__(self, value):
        self.value = value


class FakeResult(object):
    def __init__(self, with_message):
        from kmip.core import enums
        self.result_status = _V(enums.ResultStatus.OPERATION_FAILED)
        self.result_reason = _V(enums.ResultReason.ITEM_NOT_FOUND)
        self.result_message = _V("replayed failure") if with_message else None

    def __getattr__(self, name):
        return None


class FakeProxy(object):
    """Scripted KMIPProxy: every operation answers with a failure result."""

    def __init__(self, with_message=True):
        self._with_message = with_message

    def __getattr__(self, name):
        if name.startswith('__'):
            raise AttributeError(name)
        return lambda *a, **k: FakeResult(self._with_message)


CONNECTION_STRATEGY = ['all']


def build_native(v, memo=None):
    """Counterexample value (from concretize) -> native Python object."""
    if memo is None:
        memo = {}
    if isinstance(v, dict) and v.get('__class__') == 'vf.envmodel.Proxy':
        return FakeProxy(bool(v.get('__messages__', True)))
    if isinstance(v, dict) and v.get('__class__') == 'vf.envmodel.Connection':
        return FakeConnection(v.get('remaining', b''), CONNECTION_STRATEGY[0])
    if isinstance(v, dict) and '__class__' in v:
        if id(v) in memo:
            return memo[id(v)]
        cls = resolve_class(v['__class__'])
        o = cls.__new__(cls)
        if (cls.__module__ or '').startswith('kmip.core'):
            # start from the class's own defaults (fields the model never looked at stay at them)
            try:
                cls.__init__(o)
            except Exception:
                pass
        if cls.__name__ == 'KmipEngine':
            # per-request state the model chooses lazily: default to KMIP 1.4 unless given
            try:
                from kmip.core.messages import contents
                from kmip.services.server import policy as _sp
                pv = contents.ProtocolVersion(1, 4)
                o.__dict__.setdefault('_protocol_version', pv)
                o.__dict__.setdefault('_attribute_policy', _sp.AttributePolicy(pv))
            except Exception:
                pass
        memo[id(v)] = o
        for k, x in v.items():
            if k == '__class__':
                continue
            try:
                object.__setattr__(o, k, build_native(x, memo))
            except Exception:
                o.__dict__[k] = build_native(x, memo)
        return o
    if isinstance(v, dict):
        return {build_native(k, memo): build_native(x, memo) for k, x in v.items()}
    if isinstance(v, list):
        return [build_native(x, memo) for x in v]
    if isinstance(v, tuple):
        return tuple(build_native(x, memo) for x in v)
    if isinstance(v, str) and v == "<opaque logger>":
        import logging
        lg = logging.getLogger("verif.replay")
        lg.disabled = True
        return lg
    return v


def lift(v, memo=None, depth=0):
    """Native Python object -> evaluator value."""
    if memo is None:
        memo = {}
    if v is None or isinstance(v, (bool, int, float, str, bytes, enum.Enum, type)):
        return v
    if id(v) in memo:
        return memo[id(v)]
    if isinstance(v, bytearray):
        return pyvc.MutBytes(bytes(v))
    if isinstance(v, list):
        r = []
        memo[id(v)] = r
        r.extend(lift(x, memo, depth + 1) for x in v)
        return r
    if isinstance(v, tuple):
        return tuple(lift(x, memo, depth + 1) for x in v)
    if isinstance(v, dict):
        r = {}
        memo[id(v)] = r
        for k, x in v.items():
            r[k] = lift(x, memo, depth + 1)
        return r
    if isinstance(v, FakeConnection):
        from . import envmodel
        o = Obj(envmodel.Connection, {'remaining': v.remaining, 'sent': list(v.sent)})
        memo[id(v)] = o
        return o
    if isinstance(v, BaseException):
        e = ExcVal(type(v), tuple(lift(a, memo, depth + 1) for a in v.args))
        for k, x in getattr(v, '__dict__', {}).items():
            e.fields[k] = lift(x, memo, depth + 1)
        return e
    mod = type(v).__module__ or ''
    if mod.startswith('kmip') and hasattr(v, '__dict__') and depth < 12:
        o = Obj(type(v), {})
        memo[id(v)] = o
        for k, x in v.__dict__.items():
            if k.startswith('_sa_'):
                continue
            o.fields[k] = lift(x, memo, depth + 1)
        return o
    return v


def jsonable(v, depth=0):
    if depth > 8:
        return repr(v)
    if v is None or isinstance(v, (bool, int, float, str)):
        return v
    if isinstance(v, (bytes, bytearray)):
        return {"bytes_hex": bytes(v).hex()}
    if isinstance(v, enum.Enum):
        return {"enum": "%s.%s.%s" % (type(v).__module__, type(v).__qualname__, v.name)}
    if isinstance(v, dict):
        return {str(k): jsonable(x, depth + 1) for k, x in v.items()}
    if isinstance(v, (list, tuple, set, frozenset)):
        return [jsonable(x, depth + 1) for x in v]
    if isinstance(v, type):
        return {"class": v.__module__ + '.' + v.__qualname__}
    return repr(v)


def unjson(v):
    if isinstance(v, dict):
        if set(v) == {"bytes_hex"}:
            return bytes.fromhex(v["bytes_hex"])
        if set(v) == {"enum"}:
            mod, cls, name = v["enum"].rsplit('.', 2)
            return getattr(resolve_class(mod + '.' + cls), name)
        if set(v) == {"class"}:
            return resolve_class(v["class"])
        return {k: unjson(x) for k, x in v.items()}
    if isinstance(v, list):
        return [unjson(x) for x in v]
    return v


def replay_contract(c, obligation, cex):
    """Replay under each socket chunking strategy (only matters for contracts whose inputs
    contain the Connection model)."""
    nr = getattr(c, 'native_replay_', None)
    if nr is not None:
        try:
            out = nr(obligation, cex)
        except Exception as e:
            out = {"confirmed": None, "error": "%s: %s" % (type(e).__name__, e),
                   "trace": traceback.format_exc()[-1500:]}
        out.setdefault("function", c.qualname)
        out.setdefault("obligation", obligation)
        return out
    if getattr(c, 'external_kinds_', None):
        # the function under contract reads the environment (file system, clock, parser library);
        # the counterexample fixes what those calls return, which a native run cannot reproduce
        return {"confirmed": None, "function": c.qualname, "obligation": obligation,
                "note": "no native replay: the counterexample fixes the results of environment calls (%s)"
                        % ', '.join(sorted(c.external_kinds_)), "inputs": cex}
    if c.qualname.startswith("kmip.services.server.engine.KmipEngine._process_") and \
            c.qualname.rsplit('.', 1)[-1] not in ("_process_batch", "_process_operation", "_process_template_attribute"):
        from . import engine_replay
        try:
            return engine_replay.replay_handler(c, obligation, cex)
        except Exception as e:
            return {"confirmed": None, "error": "%s: %s" % (type(e).__name__, e),
                    "trace": traceback.format_exc()[-1500:], "function": c.qualname, "obligation": obligation}
    last = None
    uses_conn = 'vf.envmodel.Connection' in repr(cex)
    for strat in (['all', 'one-then-max', 'ones'] if uses_conn else ['all']):
        CONNECTION_STRATEGY[0] = strat
        last = _replay_contract(c, obligation, cex)
        last["socket_chunking"] = strat
        if last.get("confirmed"):
            break
    if uses_conn and not (last or {}).get("confirmed"):
        # the solver's stream may be arbitrary (arithmetic model): also try a well-framed message
        import copy as _copy
        framed = bytes.fromhex("4200780100000008") + bytes(8)
        cex2 = _copy.deepcopy({k: v for k, v in cex.items()})
        _set_remaining(cex2, framed)
        for strat in ['one-then-max', 'ones', 'all']:
            CONNECTION_STRATEGY[0] = strat
            r2 = _replay_contract(c, obligation, cex2)
            r2["socket_chunking"] = strat
            r2["stream_replaced_by_well_framed_message"] = True
            if r2.get("confirmed"):
                last = r2
                break
    CONNECTION_STRATEGY[0] = 'all'
    if not (last or {}).get("confirmed") and '/trace.' in obligation:
        # byte inputs the model left empty say nothing about what a text built from them shows:
        # try again with recognisable sample bytes in their place (still a real run of the real code)
        import copy as _copy

        def inflate(v):
            if isinstance(v, (bytes, bytearray)) and len(v) == 0:
                return bytes.fromhex("c0ffee0badc0de42")
            if isinstance(v, dict):
                return {k: inflate(x) for k, x in v.items()}
            if isinstance(v, list):
                return [inflate(x) for x in v]
            if isinstance(v, tuple):
                return tuple(inflate(x) for x in v)
            return v
        r2 = _replay_contract(c, obligation, inflate(_copy.deepcopy(cex)))
        if r2.get("confirmed"):
            r2["empty_byte_inputs_replaced_by_sample_bytes"] = True
            return r2
    return last


def _set_remaining(v, data):
    if isinstance(v, dict):
        if v.get('__class__') == 'vf.envmodel.Connection':
            v['remaining'] = data
        for x in v.values():
            _set_remaining(x, data)
    elif isinstance(v, (list, tuple)):
        for x in v:
            _set_remaining(x, data)


def _replay_contract(c, obligation, cex):
    """Run the real function on the counterexample and re-evaluate the failed
    clause on the real outcome.  -> dict(confirmed: bool|None, ...)"""
    out = {"function": c.qualname, "contract": c.key, "obligation": obligation,
           "inputs": jsonable({k: v for k, v in cex.items() if not k.startswith('__')})}
    try:
        ex = extract.by_qualname(c.qualname)
        params = modular._param_names(ex.node)
        native = {}
        for p in params:
            if p in cex:
                native[p] = build_native(cex[p])
        ghosts = {k: v for k, v in cex.items() if k not in params and not k.startswith('__')}
        # live callable
        parts = c.qualname.split('.')
        mod = ex.module
        obj = mod
        rest = parts[len(mod.__name__.split('.')):]
        for name in rest[:-1]:
            obj = getattr(obj, name)
        fname = rest[-1]
        if fname.startswith('__') and not fname.endswith('__') and ex.cls is not None:
            fname = '_%s%s' % (ex.cls.__name__.lstrip('_'), fname)
        import inspect
        fn = inspect.getattr_static(obj, fname)
        if isinstance(fn, (staticmethod, classmethod)):
            fn = fn.__func__
        fn = getattr(fn, '__wrapped__', fn)
        pre = copy.deepcopy(native)
        raised = None
        result = None
        try:
            result = fn(**native)
        except BaseException as e:      # the real outcome, whatever it is
            raised = e
        out["outcome"] = ("raised %s: %s" % (type(raised).__name__, str(raised)[:200])
                          if raised is not None else "returned %s" % (repr(result)[:200]))
        kind = obligation.split('/', 1)[1] if '/' in obligation else obligation
        # evaluate clauses on the real outcome with the concrete evaluator
        sess = pyvc.Session()
        path = pyvc.Path(sess, [], "replay")
        I = pyvc.Interp(path, top=c.qualname)
        G = ex.module.__dict__
        lifted_pre = {k: lift(v) for k, v in pre.items()}
        lifted_pre.update({k: v for k, v in ghosts.items()})
        for name, src in c.lets:
            if name not in lifted_pre and src not in ('int', 'nat', 'bytes', 'str', 'bool', 'ascii'):
                lifted_pre[name] = I.eval_spec(src, lifted_pre, G, None, ex.cls)
        I.ghost_globals.update({k: v for k, v in lifted_pre.items() if k not in params})
        pre_ok = True
        for rname, src in c.requires_:
            if not I.cond(I.eval_spec(src, lifted_pre, G, None, ex.cls)):
                pre_ok = False
        out["precondition_holds"] = pre_ok
        srcs = [s for _, s in c.ensures_] + [e for (_, _, e, _) in c.raises_] + [w for (_, w, _, _) in c.raises_]
        old = I.snapshot_old(srcs, lifted_pre, G, ex.cls)
        lifted_post = {k: lift(v) for k, v in native.items()}
        lifted_post.update({k: v for k, v in lifted_pre.items() if k not in lifted_post})
        lifted_post['result'] = lift(result)
        confirmed = None
        if not pre_ok:
            confirmed = False
        elif kind.startswith('post.'):
            ename = kind[len('post.'):]
            if raised is not None:
                confirmed = None
                out["note"] = "real code raised instead of returning"
            else:
                for (n, src) in c.ensures_:
                    if n == ename:
                        confirmed = not I.cond(I.eval_spec(src, lifted_post, G, old, ex.cls))
        elif kind.startswith('raises.unexpected'):
            if raised is None:
                confirmed = False
            else:
                allowed = False
                for (ename, when, ens, rname) in c.raises_:
                    cls = modular.resolve_exc_class(ename, ex.module)
                    if isinstance(raised, cls):
                        allowed = True
                confirmed = not allowed
        elif kind.startswith('raises.') and kind.endswith('.exact'):
            rname = kind[len('raises.'):-len('.exact')]
            if raised is None:
                for (ename, when, ens, rn) in c.raises_:
                    if rn == rname and when is not None:
                        confirmed = bool(I.cond(I.eval_spec(when, lifted_pre, G, old, ex.cls)))
            else:
                confirmed = False
        elif kind.startswith('raises.'):
            rname = kind[len('raises.'):].split('.')[0]
            if raised is not None:
                for (ename, when, ens, rn) in c.raises_:
                    if rn == rname and when is not None:
                        confirmed = not I.cond(I.eval_spec(when, lifted_pre, G, old, ex.cls))
            else:
                confirmed = False
        elif kind == 'frame':
            confirmed = None
        elif kind.startswith('inv.') or kind.startswith('trace.') or kind.startswith('loop.'):
            # an internal obligation: the witness is not a real execution prefix.  Run the real
            # function and look for *any* violated clause of the contract.
            viol = None
            if raised is None:
                for (n, src) in c.ensures_:
                    if not I.cond(I.eval_spec(src, lifted_post, G, old, ex.cls)):
                        viol = "post." + n
                        break
            else:
                allowed = any(isinstance(raised, modular.resolve_exc_class(en, ex.module))
                              for (en, w, e2, rn) in c.raises_)
                if not allowed:
                    viol = "raises.unexpected"
                for chk in getattr(c, 'native_checks_', []):
                    r = chk(pre, native, raised)
                    if r is not True and r is not None:
                        viol = str(r)
            confirmed = True if viol else False
            if raised is not None and isinstance(raised, (AttributeError, TypeError)) and \
                    any(t in str(raised) for t in ("'KmipEngine' object has no attribute", "vf.", "DbSession",
                                                   "SessionFactory")):
                # the abstract engine/store of the counterexample is not a runnable environment:
                # the native run says nothing (a contract-specific native_replay is needed)
                confirmed = None
                out["note"] = "native run stopped in the replay harness, not in the code under contract"
            out["violated_clause"] = viol
        out["confirmed"] = confirmed
    except pyvc.Raised as r:
        out["confirmed"] = None
        out["error"] = "clause evaluation raised %r" % (r.exc,)
    except Exception as e:
        out["confirmed"] = None
        out["error"] = "%s: %s" % (type(e).__name__, e)
        out["trace"] = traceback.format_exc()[-1500:]
    return out
