"""Native replay of counterexamples of the request-handler contracts: a real KmipEngine on a
temporary SQLite file, populated with the stored objects the failing path loaded (class and the
column values the path looked at, from the solver's model), is given the model's payload through
the real handler.  What is judged is the real outcome."""
import os
import shutil
import tempfile
import traceback


def _make_stored(desc):
    from kmip.core import enums
    from kmip.pie import objects as pie
    A = enums.CryptographicAlgorithm
    ctor = {
        'SymmetricKey': lambda: pie.SymmetricKey(A.AES, 128, bytes(16)),
        'PublicKey': lambda: pie.PublicKey(A.RSA, 1024, bytes(64), enums.KeyFormatType.RAW),
        'PrivateKey': lambda: pie.PrivateKey(A.RSA, 1024, bytes(64), enums.KeyFormatType.RAW),
        'SplitKey': lambda: pie.SplitKey(cryptographic_algorithm=A.AES, cryptographic_length=128,
                                         key_value=bytes(16), split_key_parts=3, key_part_identifier=1,
                                         split_key_threshold=2, split_key_method=enums.SplitKeyMethod.XOR),
        'X509Certificate': lambda: pie.X509Certificate(bytes(16)),
        'SecretData': lambda: pie.SecretData(bytes(8), enums.SecretDataType.PASSWORD),
        'OpaqueObject': lambda: pie.OpaqueObject(bytes(8), enums.OpaqueDataType.NONE),
    }
    o = ctor[desc['class']]()
    cols = desc.get('columns', {})
    for k, v in cols.items():
        try:
            if k in ('state', 'sensitive', 'operation_policy_name', 'cryptographic_algorithm',
                     'cryptographic_length', 'initial_date', 'certificate_type', 'key_format_type'):
                if v is not None or k in ('operation_policy_name',):
                    setattr(o, k, v)
            elif k == 'cryptographic_usage_masks' and isinstance(v, dict):
                o.cryptographic_usage_masks = [m for m, present in v.items() if present is not None
                                               and not isinstance(m, str)]
            elif k == 'names' and isinstance(v, list):
                del o.names[:]
                for n in v:
                    o.names.append(n if isinstance(n, str) else 'n')
            elif k == 'object_groups' and isinstance(v, list):
                for g in v:
                    o.object_groups.append(pie.ObjectGroup(object_group=(g or {}).get('_object_group', 'g')
                                                           if isinstance(g, dict) else 'g'))
            elif k == 'app_specific_info' and isinstance(v, list):
                for g in v:
                    g = g if isinstance(g, dict) else {}
                    o.app_specific_info.append(pie.ApplicationSpecificInformation(
                        application_namespace=g.get('_application_namespace', 'ns'),
                        application_data=g.get('_application_data', 'd')))
        except Exception:
            pass
    return o, cols


def _patch_uid(payload, uid):
    """Point the request at the stored object (the model's identifier text is arbitrary)."""
    for f in ('_unique_identifier', 'unique_identifier'):
        cur = getattr(payload, '__dict__', {}).get(f)
        if cur is None:
            continue
        if hasattr(cur, 'value'):
            cur.value = uid
        elif isinstance(cur, str):
            payload.__dict__[f] = uid
    ids = getattr(payload, '__dict__', {}).get('_unique_identifiers')
    if isinstance(ids, list) and ids:
        payload.__dict__['_unique_identifiers'] = [uid for _ in ids]


def replay_handler(c, obligation, cex):
    from . import replay as RP
    from kmip.services.server import engine as EN
    from kmip.core import exceptions
    from kmip.core.messages import contents
    out = {"function": c.qualname, "obligation": obligation, "confirmed": None}
    d = tempfile.mkdtemp(prefix="verif-replay-")
    try:
        from kmip.core import policy as operation_policy
        e = EN.KmipEngine(policies=dict(operation_policy.policies), database_path=os.path.join(d, 'db'))
        import logging
        lg = logging.getLogger("verif.replay.engine")
        lg.disabled = True
        e._logger = lg
        e._data_session = e._data_store_session_factory()
        ident = (cex.get('self') or {}).get('_client_identity') or ['replay-user', None]
        user = ident[0] if isinstance(ident[0], str) and ident[0] else 'replay-user'
        e._client_identity = [user, ident[1] if len(ident) > 1 and ident[1] else None]
        ver = cex.get('__protocol_version__') or (1, 4)
        e._set_protocol_version(contents.ProtocolVersion(*ver))
        ph = (cex.get('self') or {}).get('_id_placeholder')
        uids = []
        for desc in cex.get('__store__', []):
            o, cols = _make_stored(desc)
            o._owner = cols.get('_owner') if isinstance(cols.get('_owner'), str) and cols.get('_owner') else user
            e._data_session.add(o)
            e._data_session.commit()
            uids.append(str(o.unique_identifier))
        out["store"] = [(u, dsc['class'], {k: str(v)[:60] for k, v in dsc.get('columns', {}).items()})
                        for u, dsc in zip(uids, cex.get('__store__', []))]
        e._id_placeholder = uids[0] if (uids and ph is not None) else None
        payload = RP.build_native(cex.get('payload'))
        if uids:
            _patch_uid(payload, uids[0])
        out["protocol_version"] = list(ver)
        out["payload"] = repr(getattr(payload, '__dict__', payload))[:600]
        fname = c.qualname.rsplit('.', 1)[-1]
        raised = None
        try:
            result = getattr(e, fname)(payload)
            out["outcome"] = "returned %s" % type(result).__name__
        except BaseException as ex:
            raised = ex
            out["outcome"] = "raised %s: %s" % (type(ex).__name__, str(ex)[:200])
            out["traceback_tail"] = traceback.format_exc()[-700:]
        kind = obligation.split('/', 1)[1] if '/' in obligation else obligation
        if kind.startswith('raises.unexpected'):
            out["confirmed"] = raised is not None and not isinstance(raised, exceptions.KmipError)
            if out["confirmed"]:
                out["meaning"] = ("the batch loop maps this exception to Operation Failed / General Failure "
                                  "('Operation failed. See the server logs for more information.')")
        else:
            for chk in getattr(c, 'native_checks_', []):
                r = chk(cex, e, payload, raised)
                if r is not True and r is not None:
                    out["confirmed"] = True
                    out["violated"] = str(r)
            if out["confirmed"] is None and raised is not None and not isinstance(raised, exceptions.KmipError):
                out["confirmed"] = True
                out["violated"] = "internal error instead of the behaviour the clause describes"
        return out
    finally:
        shutil.rmtree(d, ignore_errors=True)
