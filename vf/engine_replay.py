"""Native replay of counterexamples of the request-handler contracts: a real KmipEngine on a
temporary SQLite file, populated with the stored objects the failing path loaded (class and the
column values the path looked at, from the solver's model), is given the model's payload through
the real handler.  What is judged is the real outcome."""
import os
import shutil
import tempfile
import traceback


def _make_stored(desc):
    from kmip.core import enums
    from kmip.pie import objects as pie
    A = enums.CryptographicAlgorithm
    ctor = {
        'SymmetricKey': lambda: pie.SymmetricKey(A.AES, 128, bytes(16)),
        'PublicKey': lambda: pie.PublicKey(A.RSA, 1024, bytes(64), enums.KeyFormatType.RAW),
        'PrivateKey': lambda: pie.PrivateKey(A.RSA, 1024, bytes(64), enums.KeyFormatType.RAW),
        'SplitKey': lambda: pie.SplitKey(cryptographic_algorithm=A.AES, cryptographic_length=128,
                                         key_value=bytes(16), split_key_parts=3, key_part_identifier=1,
                                         split_key_threshold=2, split_key_method=enums.SplitKeyMethod.XOR),
        'X509Certificate': lambda: pie.X509Certificate(bytes(16)),
        'SecretData': lambda: pie.SecretData(bytes(8), enums.SecretDataType.PASSWORD),
        'OpaqueObject': lambda: pie.OpaqueObject(bytes(8), enums.OpaqueDataType.NONE),
    }
    o = ctor[desc['class']]()
    cols = desc.get('columns', {})
    for k, v in cols.items():
        try:
            if k in ('cryptographic_algorithm', 'cryptographic_length') and desc['class'] != 'X509Certificate':
                continue        # keep a consistent (algorithm, length, value) triple from the constructor
            if k in ('state', 'sensitive', 'operation_policy_name', 'cryptographic_algorithm',
                     'cryptographic_length', 'initial_date', 'certificate_type', 'key_format_type'):
                if v is not None or k in ('operation_policy_name',):
                    setattr(o, k, v)
            elif k == 'cryptographic_usage_masks' and isinstance(v, dict):
                o.cryptographic_usage_masks = [m for m, present in v.items() if present is not None
                                               and not isinstance(m, str)]
            elif k == 'names' and isinstance(v, list):
                del o.names[:]
                for n in v:
                    o.names.append(n if isinstance(n, str) else 'n')
            elif k == 'object_groups' and isinstance(v, list):
                for g in v:
                    o.object_groups.append(pie.ObjectGroup(object_group=(g or {}).get('_object_group', 'g')
                                                           if isinstance(g, dict) else 'g'))
            elif k == 'app_specific_info' and isinstance(v, list):
                for g in v:
                    g = g if isinstance(g, dict) else {}
                    o.app_specific_info.append(pie.ApplicationSpecificInformation(
                        application_namespace=g.get('_application_namespace', 'ns'),
                        application_data=g.get('_application_data', 'd')))
        except Exception:
            pass
    return o, cols


def _dump_store(path):
    """every row of every table of the SQLite file (committed state), by table name"""
    import sqlite3
    out = {}
    try:
        con = sqlite3.connect(path)
        for (t,) in con.execute("select name from sqlite_master where type='table'").fetchall():
            out[t] = sorted(repr(r) for r in con.execute('select * from "%s"' % t).fetchall())
        con.close()
    except Exception as e:
        out['__error__'] = [str(e)]
    return out


def _patch_uids(payload, uids):
    """Point the request at the stored objects (the model's identifier texts are arbitrary): the
    identifier holders of the payload tree, in traversal order, get the identifiers of the stored
    objects in the order the failing path loaded them."""
    slots = []
    seen = set()

    def walk(o, depth=0):
        if depth > 6 or id(o) in seen or not hasattr(o, '__dict__'):
            return
        seen.add(id(o))
        d = o.__dict__
        for f in ('_unique_identifier', 'unique_identifier'):
            cur = d.get(f)
            if cur is not None and (hasattr(cur, 'value') or isinstance(cur, str)):
                slots.append((o, f))
                break
        ids = d.get('_unique_identifiers')
        if isinstance(ids, list):
            for k in range(len(ids)):
                slots.append((ids, k))
        for k, v in list(d.items()):
            if k in ('_unique_identifier', 'unique_identifier', '_unique_identifiers'):
                continue
            if isinstance(v, list):
                for x in v:
                    walk(x, depth + 1)
            else:
                walk(v, depth + 1)
    walk(payload)
    for n, (holder, key) in enumerate(slots):
        uid = uids[min(n, len(uids) - 1)]
        if isinstance(holder, list):
            if hasattr(holder[key], 'value'):
                holder[key].value = uid
            else:
                holder[key] = uid
        else:
            cur = holder.__dict__[key]
            if hasattr(cur, 'value'):
                cur.value = uid
            else:
                holder.__dict__[key] = uid


def replay_handler(c, obligation, cex):
    out = _replay_handler(c, obligation, cex, False)
    if not out.get('confirmed') and '/trace.' in obligation:
        # the model leaves the outcome of the cryptographic primitives open; the real ones may refuse the
        # model's arbitrary parameters: second run with the primitives answering as the model assumed
        out2 = _replay_handler(c, obligation, cex, True)
        if out2.get('confirmed'):
            out2['cryptography_engine_stubbed'] = 'returns fixed bytes (the outcome the failing path assumed)'
            return out2
    return out


def _replay_handler(c, obligation, cex, stub_crypto):
    from . import replay as RP
    from kmip.services.server import engine as EN
    from kmip.core import exceptions
    from kmip.core.messages import contents
    out = {"function": c.qualname, "obligation": obligation, "confirmed": None}
    d = tempfile.mkdtemp(prefix="verif-replay-")
    try:
        from kmip.core import policy as operation_policy
        e = EN.KmipEngine(policies=dict(operation_policy.policies), database_path=os.path.join(d, 'db'))
        import logging
        lg = logging.getLogger("verif.replay.engine")
        lg.disabled = True
        e._logger = lg
        e._data_session = e._data_store_session_factory()
        if stub_crypto:
            import unittest.mock as _mock
            ce = _mock.MagicMock()
            for nm in ('wrap_key', 'decrypt', 'sign', 'mac', 'derive_key'):
                getattr(ce, nm).return_value = bytes(range(24))
            ce.encrypt.return_value = {'cipher_text': bytes(16), 'iv_nonce': None, 'auth_tag': None}
            ce.verify_signature.return_value = True
            e._cryptography_engine = ce
        ident = (cex.get('self') or {}).get('_client_identity') or ['replay-user', None]
        user = ident[0] if isinstance(ident[0], str) and ident[0] else 'replay-user'
        e._client_identity = [user, ident[1] if len(ident) > 1 and ident[1] else None]
        ver = cex.get('__protocol_version__') or (1, 4)
        e._set_protocol_version(contents.ProtocolVersion(*ver))
        ph = (cex.get('self') or {}).get('_id_placeholder')
        uids = []
        for desc in cex.get('__store__', []):
            o, cols = _make_stored(desc)
            o._owner = cols.get('_owner') if isinstance(cols.get('_owner'), str) and cols.get('_owner') else user
            e._data_session.add(o)
            e._data_session.commit()
            uids.append(str(o.unique_identifier))
        out["store"] = [(u, dsc['class'], {k: str(v)[:60] for k, v in dsc.get('columns', {}).items()})
                        for u, dsc in zip(uids, cex.get('__store__', []))]
        e._id_placeholder = uids[0] if (uids and ph is not None) else None
        payload = RP.build_native(cex.get('payload'))
        if uids:
            _patch_uids(payload, uids)
        out["protocol_version"] = list(ver)
        out["payload"] = repr(getattr(payload, '__dict__', payload))[:600]
        fname = c.qualname.rsplit('.', 1)[-1]
        raised = None
        before = _dump_store(os.path.join(d, 'db'))
        try:
            result = getattr(e, fname)(payload)
            out["outcome"] = "returned %s" % type(result).__name__
        except BaseException as ex:
            raised = ex
            out["outcome"] = "raised %s: %s" % (type(ex).__name__, str(ex)[:200])
            out["traceback_tail"] = traceback.format_exc()[-700:]
        kind = obligation.split('/', 1)[1] if '/' in obligation else obligation
        pending = []
        try:
            sess = e._data_session
            pending = ["new %s" % type(x).__name__ for x in sess.new] + \
                      ["changed %s" % type(x).__name__ for x in sess.dirty if sess.is_modified(x)] + \
                      ["deleted %s" % type(x).__name__ for x in sess.deleted]
        except Exception:
            pass
        after = _dump_store(os.path.join(d, 'db'))
        changed = sorted(t for t in set(before) | set(after) if before.get(t) != after.get(t))
        out["store_tables_changed"] = changed
        out["session_pending"] = pending
        if kind.startswith('trace.no-effect-before-raise') or kind.startswith('trace.get-never-writes') \
                or kind.startswith('trace.reads-only'):
            failing = raised is not None or not kind.startswith('trace.no-effect')
            if failing and (changed or pending):
                out["confirmed"] = True
                out["violated"] = ("the real handler %s and the store differs afterwards: committed tables %s, "
                                   "pending in the shared batch session %s" % (
                                       "raised " + type(raised).__name__ if raised is not None else "returned",
                                       changed, pending))
                return out
        if kind.startswith('raises.unexpected'):
            out["confirmed"] = raised is not None and not isinstance(raised, exceptions.KmipError)
            if out["confirmed"]:
                out["meaning"] = ("the batch loop maps this exception to Operation Failed / General Failure "
                                  "('Operation failed. See the server logs for more information.')")
        else:
            for chk in getattr(c, 'native_checks_', []):
                r = chk(cex, e, payload, raised)
                if r is not True and r is not None:
                    out["confirmed"] = True
                    out["violated"] = str(r)
            if out["confirmed"] is None and raised is not None and not isinstance(raised, exceptions.KmipError):
                out["confirmed"] = True
                out["violated"] = "internal error instead of the behaviour the clause describes"
        return out
    finally:
        shutil.rmtree(d, ignore_errors=True)
