"""Symbolic values for pyvc.

Concrete Python values are represented by themselves (int, bool, None, bytes,
str, enum members, classes, functions, modules, lists/dicts/tuples of values).
Only values that depend on a symbolic input are wrapped:

  SInt(t)          z3 Int            - Python int (unbounded => exact)
  SBool(t)         z3 Bool
  SSeq(kind, ch)   bytes / str       - list of chunks: ('u', [int|IntTerm,..])
                                       or ('s', z3 Seq(Int) term)
  SEnum(cls, t)    member of live enum class `cls`, t = its integer .value
  SOpt(flag, v)    maybe-None: flag (z3 Bool) true => None, else v
  Obj              heap record of a live class (fields dict); identity = id()
  Opaque           value the fragment does not interpret (formatted strings,
                   results of external calls); carries taint labels and facts
"""
import z3

IntSeq = z3.SeqSort(z3.IntSort())
_counter = [0]


def fresh(prefix, sort=None):
    _counter[0] += 1
    name = "%s!%d" % (prefix, _counter[0])
    if sort is None or sort == z3.IntSort():
        return z3.Int(name)
    if sort == z3.BoolSort():
        return z3.Bool(name)
    return z3.Const(name, sort)


def reset_names():
    _counter[0] = 0


class OutOfFragment(Exception):
    """The executor met a construct or operation it does not model."""


class SInt(object):
    __slots__ = ("t", "taint")

    def __init__(self, t, taint=frozenset()):
        self.t = t
        self.taint = taint

    def __repr__(self):
        return "SInt(%s)" % self.t


class SBool(object):
    __slots__ = ("t",)

    def __init__(self, t):
        self.t = t

    def __repr__(self):
        return "SBool(%s)" % self.t


class SEnum(object):
    """Symbolic member of enum class cls.  For int-valued enums t is the member's
    .value; otherwise (members is a list) t is the index into that list."""
    __slots__ = ("cls", "t", "members")

    def __init__(self, cls, t, members=None):
        self.cls = cls
        self.t = t
        self.members = members

    def __repr__(self):
        return "SEnum(%s,%s)" % (self.cls.__name__, self.t)


class SOpt(object):
    """Maybe-None value.  `isnone` is a z3 Bool; `v` the value otherwise."""
    __slots__ = ("isnone", "v")

    def __init__(self, isnone, v):
        self.isnone = isnone
        self.v = v

    def __repr__(self):
        return "SOpt(%s,%r)" % (self.isnone, self.v)


class Opaque(object):
    """Uninterpreted value.  pykind is the Python type it is known to have
    ('str', 'bytes', 'int', 'object', ...) ; facts is a set of strings such as
    'nonempty'; taint a frozenset of labels."""
    __slots__ = ("pykind", "name", "taint", "facts", "fields")

    def __init__(self, pykind="object", name="?", taint=frozenset(),
                 facts=frozenset()):
        self.pykind = pykind
        self.name = name
        self.taint = frozenset(taint)
        self.facts = frozenset(facts)
        self.fields = {}

    def __repr__(self):
        return "Opaque(%s:%s)" % (self.pykind, self.name)


class SDict(object):
    """Dictionary with uninterpreted content (every table at once).  get(k) yields a
    memoised maybe-absent value of kind `vkind`; `empty` is its falsiness."""

    def __init__(self, name, vkind, maker):
        self.name = name
        self.vkind = vkind
        self.maker = maker            # maker(interp, kind, name) -> symbolic value
        self.memo = {}
        self.keys_ = {}
        self.empty = fresh("empty_" + name, z3.BoolSort())
        self.taint = frozenset()
        self.kkind = None             # kind of the keys (set for dictionaries whose keys are iterated)
        self.keyset = None            # string-keyed dictionaries: z3 set of the keys present (vf/symset.py)

    def freeze_initial(self):
        """Called before the first mutation: what was learnt about the dictionary so far is what
        is known of its content on entry (used to rebuild inputs from a counter-model)."""
        if getattr(self, 'initial_memo', None) is None:
            self.initial_memo = (dict(self.memo), dict(self.keys_))

    def enable_keyset(self, path):
        from . import symset
        self.keyset = fresh("keys_" + self.name, symset.StrSet)
        path.assume(self.empty == (self.keyset == symset.EMPTY))

    def __repr__(self):
        return "SDict(%s)" % self.name


class SymKey(object):
    """A symbolic value used as a key of a native dictionary (hashed by identity; look-ups compare
    the wrapped values with the interpreter's ==, see models.dict_find)."""
    __slots__ = ("v",)

    def __init__(self, v):
        self.v = v

    def __repr__(self):
        return "SymKey(%r)" % (self.v,)


def unkey(k):
    return k.v if isinstance(k, SymKey) else k


class Obj(object):
    """Heap object of live class `cls`."""

    def __init__(self, cls, fields=None, label=None):
        self.cls = cls
        self.fields = dict(fields or {})
        self.label = label
        self.meta = {}

    def __repr__(self):
        return "Obj<%s %s>" % (self.cls.__name__, self.label or hex(id(self)))


class ExcVal(object):
    """An exception instance of live class `cls` in the interpreted program."""

    def __init__(self, cls, args=(), fields=None):
        self.cls = cls
        self.args = tuple(args)
        self.fields = dict(fields or {})
        self.taint = frozenset()

    def __repr__(self):
        return "ExcVal(%s)" % self.cls.__name__


# ---------------------------------------------------------------- sequences

def _is_conc_elem(e):
    return isinstance(e, int)


class SSeq(object):
    """bytes or str with symbolic parts.  kind in {'bytes','str'}.
    chunks: ('u', [int|IntTerm, ...])  explicit elements
            ('s', SeqTerm, (lo, hi))   symbolic chunk; every element lies in lo..hi
                                       (a refinement carried instead of a quantifier)"""
    __slots__ = ("kind", "chunks", "taint")

    def __init__(self, kind, chunks, taint=frozenset(), bound=None):
        self.kind = kind
        dflt = bound or ((0, 255) if kind == 'bytes' else (0, 0x10FFFF))
        self.chunks = _norm([c if c[0] == 'u' or len(c) > 2 else ('s', c[1], dflt) for c in chunks])
        self.taint = taint

    @property
    def bound(self):
        bs = [c[2] for c in self.chunks if c[0] == 's']
        if not bs:
            return (0, 255) if self.kind == 'bytes' else (0, 0x10FFFF)
        return (min(b[0] for b in bs), max(b[1] for b in bs))

    def __repr__(self):
        return "SSeq(%s,%s)" % (self.kind, self.chunks)

    def concrete(self):
        return all(c[0] == 'u' and all(_is_conc_elem(e) for e in c[1])
                   for c in self.chunks)

    def to_python(self):
        els = [e for c in self.chunks for e in c[1]]
        if self.kind == 'bytes':
            return bytes(els)
        return ''.join(chr(e) for e in els)

    def length(self):
        n = 0
        terms = []
        for c in self.chunks:
            if c[0] == 'u':
                n += len(c[1])
            else:
                terms.append(z3.Length(c[1]))
        if not terms:
            return n
        t = terms[0]
        for x in terms[1:]:
            t = t + x
        return t + n if n else t

    def to_z3(self):
        parts = []
        for c in self.chunks:
            if c[0] == 'u':
                for e in c[1]:
                    parts.append(z3.Unit(z3.IntVal(e) if _is_conc_elem(e) else e))
            else:
                parts.append(c[1])
        if not parts:
            return z3.Empty(IntSeq)
        if len(parts) == 1:
            return parts[0]
        return z3.Concat(*parts)


def _norm(chunks):
    out = []
    for c in chunks:
        if c[0] == 'u':
            if not c[1]:
                continue
            if out and out[-1][0] == 'u':
                out[-1] = ('u', out[-1][1] + list(c[1]))
            else:
                out.append(('u', list(c[1])))
        else:
            out.append(c)
    return out


def seq_of(v, kind=None):
    """Lift a concrete bytes/str (or SSeq) to SSeq."""
    if isinstance(v, SSeq):
        return v
    if isinstance(v, (bytes, bytearray)):
        return SSeq('bytes', [('u', list(v))])
    if isinstance(v, str):
        return SSeq('str', [('u', [ord(ch) for ch in v])])
    raise OutOfFragment("seq_of(%r)" % (v,))


def seq_lower(s):
    """SSeq -> concrete python value when fully concrete."""
    if isinstance(s, SSeq) and s.concrete():
        return s.to_python()
    return s


def seq_concat(a, b):
    a = seq_of(a)
    b = seq_of(b)
    if a.kind != b.kind:
        raise OutOfFragment("concat of %s and %s" % (a.kind, b.kind))
    return seq_lower(SSeq(a.kind, a.chunks + b.chunks, a.taint | b.taint))


def int_term(v):
    if isinstance(v, SInt):
        return v.t
    if isinstance(v, bool):
        return z3.IntVal(1 if v else 0)
    if isinstance(v, int):
        return z3.IntVal(v)
    if isinstance(v, SBool):
        return z3.If(v.t, z3.IntVal(1), z3.IntVal(0))
    raise OutOfFragment("int_term(%r)" % (v,))


def bool_term(v):
    if isinstance(v, SBool):
        return v.t
    if isinstance(v, bool):
        return z3.BoolVal(v)
    raise OutOfFragment("bool_term(%r)" % (v,))


def lower_int(t, taint=frozenset()):
    """z3 Int term -> python int if it simplifies to a numeral."""
    if isinstance(t, int):
        return t
    s = z3.simplify(t)
    if z3.is_int_value(s):
        return s.as_long()
    return SInt(s, taint)


def lower_bool(t):
    if isinstance(t, bool):
        return t
    s = z3.simplify(t)
    if z3.is_true(s):
        return True
    if z3.is_false(s):
        return False
    return SBool(s)


def is_symbolic(v):
    return isinstance(v, (SInt, SBool, SSeq, SEnum, SOpt, Opaque, Obj, ExcVal, SDict)) or type(v).__name__ == "SSet"


def taint_of(v, _depth=0):
    """Join of taint labels reachable from a value (containers, object fields)."""
    if _depth > 6:
        return frozenset()
    if isinstance(v, (SInt, SSeq, Opaque, ExcVal)):
        t = v.taint
        if isinstance(v, ExcVal):
            for a in v.args:
                t = t | taint_of(a, _depth + 1)
        return t
    if isinstance(v, SOpt):
        return taint_of(v.v, _depth + 1)
    if isinstance(v, Obj):
        t = frozenset(v.meta.get('taint', ()))
        for f in v.fields.values():
            t = t | taint_of(f, _depth + 1)
        return t
    if isinstance(v, (list, tuple, set, frozenset)):
        t = frozenset()
        for x in v:
            t = t | taint_of(x, _depth + 1)
        return t
    if isinstance(v, dict):
        t = frozenset()
        for k, x in v.items():
            t = t | taint_of(k, _depth + 1) | taint_of(x, _depth + 1)
        return t
    return frozenset()


def member_constraint(cls_or_vals, t):
    """t is the value of some member: union of integer intervals."""
    vals = cls_or_vals
    if isinstance(vals, type):
        vals = [m.value for m in vals if isinstance(m.value, int)]
    vals = sorted(set(vals))
    if not vals:
        return z3.BoolVal(False)
    ranges = []
    lo = hi = vals[0]
    for v in vals[1:]:
        if v == hi + 1:
            hi = v
        else:
            ranges.append((lo, hi))
            lo = hi = v
    ranges.append((lo, hi))
    parts = [(t == a) if a == b else z3.And(t >= a, t <= b) for a, b in ranges]
    return z3.Or(*parts) if len(parts) > 1 else parts[0]
