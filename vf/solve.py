"""Solver back ends: z3 (Python API) first, cvc5 (CLI, SMT-LIB dump) for unknowns.

Verdicts: 'unsat' | 'sat' | 'unknown'.  A model is returned for 'sat' from z3
only (cvc5 is used to turn z3's `unknown` into `unsat`, the proving direction).
"""
import os
import subprocess
import tempfile
import time

import z3

Z3_TIMEOUT_MS = int(os.environ.get("VERIF_Z3_TIMEOUT_MS", "20000"))
CVC5_TIMEOUT_S = int(os.environ.get("VERIF_CVC5_TIMEOUT_S", "20"))
CVC5 = "/usr/bin/cvc5"

stats = {"z3_calls": 0, "z3_time": 0.0, "cvc5_calls": 0, "cvc5_time": 0.0,
         "z3_max": 0.0, "by_backend": {"z3": 0, "cvc5": 0}, "unknown": 0}


def reset_stats():
    for k in list(stats):
        if isinstance(stats[k], dict):
            stats[k] = {"z3": 0, "cvc5": 0}
        else:
            stats[k] = 0 if isinstance(stats[k], int) else 0.0


def check(constraints, timeout_ms=None, want_model=False, use_cvc5=True):
    """-> (verdict, model_or_None, backend)"""
    s = z3.Solver()
    s.set("timeout", timeout_ms or Z3_TIMEOUT_MS)
    s.set("random_seed", 0)
    for c in constraints:
        s.add(c)
    t0 = time.time()
    r = s.check()
    dt = time.time() - t0
    stats["z3_calls"] += 1
    stats["z3_time"] += dt
    stats["z3_max"] = max(stats["z3_max"], dt)
    if r == z3.unsat:
        stats["by_backend"]["z3"] += 1
        return "unsat", None, "z3"
    if r == z3.sat:
        stats["by_backend"]["z3"] += 1
        return "sat", (s.model() if want_model else None), "z3"
    if use_cvc5 and os.path.exists(CVC5):
        v = _cvc5(s)
        if v in ("unsat", "sat"):
            stats["by_backend"]["cvc5"] += 1
            # a cvc5 `sat` carries no model we can replay: report as unknown
            # for refutation purposes unless the caller only needs the verdict
            return v, None, "cvc5"
    stats["unknown"] += 1
    return "unknown", None, "z3"


def _cvc5(solver):
    txt = solver.to_smt2()
    if "seq.nth_i" in txt or "seq.nth_u" in txt:
        txt = txt.replace("seq.nth_i", "seq.nth").replace("seq.nth_u", "seq.nth")
    txt = "(set-logic ALL)\n" + txt
    t0 = time.time()
    try:
        with tempfile.NamedTemporaryFile("w", suffix=".smt2", delete=False) as f:
            f.write(txt)
            name = f.name
        try:
            p = subprocess.run([CVC5, "--strings-exp", "--tlimit=%d" % (CVC5_TIMEOUT_S * 1000), name],
                               capture_output=True, text=True, timeout=CVC5_TIMEOUT_S + 5)
            out = p.stdout.strip().splitlines()
            v = out[0].strip() if out else "unknown"
        finally:
            os.unlink(name)
    except Exception:
        v = "unknown"
    stats["cvc5_calls"] += 1
    stats["cvc5_time"] += time.time() - t0
    return v if v in ("sat", "unsat") else "unknown"


import pickle
import select
import signal

HARD_TIMEOUT_S = int(os.environ.get("VERIF_VC_HARD_TIMEOUT_S", "60"))


def check_forked(constraints, concretize=None, hard_timeout=None):
    """Run check() in a forked child so that a solver call that ignores its own
    timeout can be killed.  -> (verdict, counterexample dict | None, backend)"""
    hard_timeout = hard_timeout or HARD_TIMEOUT_S
    r, w = os.pipe()
    t0 = time.time()
    pid = os.fork()
    if pid == 0:
        try:
            os.close(r)
            verdict, model, backend = check(constraints, want_model=True)
            cex = None
            if verdict == 'sat' and model is not None and concretize is not None:
                cex = concretize(model)
            data = pickle.dumps((verdict, cex, backend, dict(stats)))
            with os.fdopen(w, 'wb') as f:
                f.write(data)
        except BaseException:
            pass
        finally:
            os._exit(0)
    os.close(w)
    buf = b''
    deadline = t0 + hard_timeout
    try:
        while True:
            left = deadline - time.time()
            if left <= 0:
                break
            rd, _, _ = select.select([r], [], [], left)
            if not rd:
                break
            chunk = os.read(r, 1 << 16)
            if not chunk:
                break
            buf += chunk
    finally:
        os.close(r)
    try:
        done, _ = os.waitpid(pid, os.WNOHANG)
        if done == 0:
            os.kill(pid, signal.SIGKILL)
            os.waitpid(pid, 0)
    except OSError:
        pass
    dt = time.time() - t0
    stats["z3_calls"] += 1
    stats["z3_time"] += dt
    stats["z3_max"] = max(stats["z3_max"], dt)
    if not buf:
        stats["unknown"] += 1
        return "unknown", None, "z3-killed"
    try:
        verdict, cex, backend, child_stats = pickle.loads(buf)
    except Exception:
        stats["unknown"] += 1
        return "unknown", None, "z3"
    if verdict in ("sat", "unsat"):
        stats["by_backend"]["cvc5" if backend == "cvc5" else "z3"] += 1
    else:
        stats["unknown"] += 1
    stats["cvc5_calls"] += child_stats.get("cvc5_calls", 0) - stats.get("_cvc5_seen", 0) if False else 0
    return verdict, cex, backend
