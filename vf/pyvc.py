"""pyvc - symbolic executor / verification-condition generator for the Python
fragment used by the functions under contract.

Exploration is depth-first by *replay*: a path is a list of branch decisions; the
function is re-executed from the start for every path, the solver being asked
only at decisions beyond the replayed prefix.  Because a path owns all of its
state, ordinary mutable Python containers serve as the heap.
"""
import ast
import os
import builtins
import enum
import inspect
import types
import time

import z3

from . import extract, solve
from .contracts import lookup as lookup_contract, parse_expr, LoopSpec, SPEC_NAMES
from .sym import (SInt, SBool, SSeq, SEnum, SOpt, Opaque, Obj, ExcVal, OutOfFragment, SDict,
                  IntSeq, fresh, reset_names, seq_of, seq_lower, seq_concat, int_term,
                  bool_term, lower_int, lower_bool, is_symbolic, taint_of)


# ------------------------------------------------------------------ control

class Infeasible(Exception):
    pass


class PathEnd(Exception):
    """Deliberate end of a path (e.g. after checking a loop body once)."""


class Raised(Exception):
    """A Python exception propagating in the interpreted program."""

    def __init__(self, exc):
        Exception.__init__(self, repr(exc))
        self.exc = exc


class _Return(Exception):
    def __init__(self, value):
        self.value = value


class _Break(Exception):
    pass


class _Continue(Exception):
    pass


class _SymComp(Exception):
    """comprehension generator over a list of symbolic length (handled by _comp_symbolic)"""

    def __init__(self, base, gen, loc):
        self.base, self.gen, self.loc = base, gen, loc


class BoundMethod(object):
    def __init__(self, self_value, func, defining_cls=None):
        self.self_value = self_value
        self.func = func
        self.defining_cls = defining_cls

    def __repr__(self):
        return "BoundMethod(%r.%s)" % (self.self_value, getattr(self.func, '__name__', '?'))


class SuperProxy(object):
    def __init__(self, cls, obj):
        self.cls = cls
        self.obj = obj


class Closure(object):
    """lambda or nested def"""

    def __init__(self, node, env, interp_ctx):
        self.node = node
        self.env = env
        self.ctx = interp_ctx


class MutBytes(object):
    """bytearray in the interpreted program."""

    def __init__(self, v):
        self.v = v      # bytes | SSeq


class SList(object):
    """List whose length is symbolic.  elems: callable(index_term)->value is not
    needed by the fragment; we only support iteration with loop invariants and
    the ghost prefix/suffix split, `len`, truthiness and append in loops.
    Representation: z3 Seq over an element sort is avoided; instead a symbolic
    list is (length term, element factory, known prefix)."""

    def __init__(self, name, length, elem_factory, prefix=None, taint=frozenset()):
        self.name = name
        self.length = length           # int | z3 Int term
        self.elem_factory = elem_factory   # f(path, tag) -> fresh element value
        self.prefix = list(prefix or [])   # concrete known first elements
        self.taint = taint
        self.members = []                  # elements witnessed on this path (loop variables)

    def __repr__(self):
        return "SList(%s,len=%s)" % (self.name, self.length)


class LTerm(SList):
    """Symbolic list defined as a term over another symbolic list:
    op in ('sorted', 'slice', 'map'); base is the list it is derived from; params describe the
    operation (key closure and reverse flag / bounds / element expression).  Iterating it visits an
    arbitrary member, like any SList; contracts compare the *term structure* with the specified one."""

    def __init__(self, op, base, params, name, length, elem_factory, taint=frozenset()):
        SList.__init__(self, name, length, elem_factory, None, taint)
        self.op = op
        self.base = base
        self.params = params

    def __repr__(self):
        return "LTerm(%s of %r)" % (self.op, self.base)


# ------------------------------------------------------------------ session

class ObligationResult(object):
    __slots__ = ("name", "kind", "status", "detail", "model", "path_id", "backend", "time", "known")

    def __init__(self, name, kind, status, detail=None, model=None, path_id=None,
                 backend=None, time_=0.0, known=None):
        self.known = known
        self.name = name
        self.kind = kind
        self.status = status      # 'proved' | 'failed' | 'unknown' | 'oof'
        self.detail = detail
        self.model = model        # dict input-name -> concrete python value
        self.path_id = path_id
        self.backend = backend
        self.time = time_


class Session(object):
    """Collects obligation results over all paths of all tasks."""

    def __init__(self):
        self.results = {}         # name -> list[ObligationResult]
        self.paths = 0
        self.infeasible = 0
        self.oof = []             # (task, message)
        self.covers = {}          # name -> reached?
        self.functions = {}       # qualname -> sha256
        self.assumptions = set()
        self.trusted = set()
        self.vc_count = 0
        self.notes = []

    def record(self, r):
        self.results.setdefault(r.name, []).append(r)

    def record_on(self, path, r):
        """Record r; a failure inside the region of a listed known finding of the
        same obligation is tagged with that finding's id."""
        if r.status == 'failed':
            for (obl, fid) in path.known_region:
                if obl == r.name:
                    r.known = fid
        self.record(r)

    def cover(self, name, reached=True):
        self.covers[name] = self.covers.get(name, False) or reached

    def summary(self):
        out = {}
        for name, rs in self.results.items():
            if any(r.status == 'failed' for r in rs):
                st = 'failed'
            elif any(r.status in ('unknown', 'oof') for r in rs):
                st = 'unknown'
            else:
                st = 'proved'
            out[name] = st
        return out


# ------------------------------------------------------------------ path

class Path(object):
    def __init__(self, session, prefix, path_id):
        self.session = session
        self.decisions = list(prefix)
        self.pos = 0
        self.alternatives = []
        self.pc = []
        # In-path decisions (branch feasibility, validity shortcuts, small-value
        # enumeration) use only an *arithmetic abstraction* of the path condition:
        # sequences are replaced by their lengths, sequence atoms by fresh booleans.
        # The abstraction is weaker than pc, so `unsat` answers are sound and `sat`
        # answers merely keep a path alive.  The full pc (with sequence theory)
        # is used by prove()/fail(), in a forked child with a hard time limit.
        self.solver = z3.SolverFor("QF_LIA") if False else z3.Solver()
        self.solver.set("timeout", int(os.environ.get("VERIF_BRANCH_TIMEOUT_MS", "2500")))
        self.solver.set("random_seed", 0)
        self._abs_cache = {}
        self._len_cache = {}
        self.trace = []
        self.inputs = {}          # name -> value (for counterexamples)
        self.known = {}
        self._keep = []
        self.seqdefs = {}         # id(seq term) -> list of chunks
        self.splits = {}
        self.path_id = path_id
        self.ghost = {}
        self.notes = []
        self.current_fn = None
        self.known_region = []    # (obligation, finding id) whose witness holds on this path

    # -- solver access
    def assume(self, cond):
        if isinstance(cond, bool):
            if not cond:
                raise Infeasible()
            return
        c = z3.simplify(cond)
        if z3.is_true(c):
            return
        if z3.is_false(c):
            raise Infeasible()
        self.pc.append(c)
        self.solver.add(self.abs_expr(c))

    # -- arithmetic abstraction
    def _side(self, c):
        self.solver.add(c)

    def len_of(self, s):
        key = s.get_id()
        hit = self._len_cache.get(key)
        if hit is not None:
            return hit[1]
        r = None
        if z3.is_app(s):
            k = s.decl().kind()
            if k == z3.Z3_OP_SEQ_CONCAT:
                r = self.len_of(s.arg(0))
                for i in range(1, s.num_args()):
                    r = r + self.len_of(s.arg(i))
            elif k == z3.Z3_OP_SEQ_UNIT:
                r = z3.IntVal(1)
            elif k == z3.Z3_OP_SEQ_EMPTY:
                r = z3.IntVal(0)
            elif k == z3.Z3_OP_ITE:
                r = z3.If(self.abs_expr(s.arg(0)), self.len_of(s.arg(1)), self.len_of(s.arg(2)))
        if r is None:
            r = z3.Int("len!%d" % key)
            self._side(r >= 0)
        self._len_cache[key] = (s, r)
        return r

    def abs_expr(self, e):
        key = e.get_id()
        hit = self._abs_cache.get(key)
        if hit is not None:
            return hit[1]
        r = None
        if z3.is_quantifier(e):
            r = z3.Bool("q!%d" % key)
        elif z3.is_app(e):
            k = e.decl().kind()
            n = e.num_args()
            if k == z3.Z3_OP_SEQ_LENGTH:
                r = self.len_of(e.arg(0))
            elif n == 0:
                r = e
            else:
                kids = [e.arg(i) for i in range(n)]
                seq_kid = any(z3.is_seq(c) for c in kids)
                if seq_kid:
                    if k in (z3.Z3_OP_EQ, z3.Z3_OP_DISTINCT) and n == 2 and z3.is_seq(kids[0]) \
                            and z3.is_seq(kids[1]):
                        # one atom per unordered pair: a == b, b == a and a != b talk about the same fact
                        a, b = sorted((kids[0].get_id(), kids[1].get_id()))
                        at = z3.Bool("seqeq!%d_%d" % (a, b))
                        self._side(z3.Implies(at, self.len_of(kids[0]) == self.len_of(kids[1])))
                        r = at if k == z3.Z3_OP_EQ else z3.Not(at)
                    elif z3.is_bool(e):
                        r = z3.Bool("seqatom!%d" % key)
                    elif z3.is_int(e):
                        r = z3.Int("seqterm!%d" % key)
                    else:
                        r = z3.Const("seqany!%d" % key, e.sort())
                else:
                    try:
                        r = e.decl()(*[self.abs_expr(c) for c in kids])
                    except Exception:
                        if z3.is_bool(e):
                            r = z3.Bool("atom!%d" % key)
                        elif z3.is_int(e):
                            r = z3.Int("term!%d" % key)
                        else:
                            r = e
        else:
            r = e
        self._abs_cache[key] = (e, r)
        return r

    def _check(self, extra):
        extra = self.abs_expr(extra)
        self.solver.push()
        try:
            self.solver.add(extra)
            t0 = time.time()
            r = self.solver.check()
            solve.stats["z3_calls"] += 1
            dt = time.time() - t0
            solve.stats["z3_time"] += dt
            solve.stats["z3_max"] = max(solve.stats["z3_max"], dt)
            if r == z3.sat:
                return 'sat'
            if r == z3.unsat:
                return 'unsat'
            return 'unknown'
        finally:
            self.solver.pop()

    def is_valid(self, cond):
        """pc => cond ?  (True only when proved)"""
        if isinstance(cond, bool):
            return cond
        c = z3.simplify(cond)
        if z3.is_true(c):
            return True
        if z3.is_false(c):
            return False
        return self._check(z3.Not(c)) == 'unsat'

    def is_valid_full(self, cond):
        """pc => cond, decided in the full theories (sequences, sets) when the arithmetic
        abstraction cannot: for trace predicates whose clause needs more than arithmetic."""
        if self.is_valid(cond):
            return True
        if isinstance(cond, bool):
            return cond
        verdict, _, _ = solve.check_forked(self.pc + [z3.Not(cond)], None, hard_timeout=30)
        return verdict == 'unsat'

    def branch(self, cond):
        """Decide a symbolic condition; forks the exploration when both
        outcomes are feasible."""
        if isinstance(cond, bool):
            return cond
        if isinstance(cond, SBool):
            cond = cond.t
        c = z3.simplify(cond)
        if z3.is_true(c):
            return True
        if z3.is_false(c):
            return False
        key = c.get_id()
        self._keep.append(c)      # keeps the AST alive so its id cannot be reused
        if key in self.known:
            return self.known[key]
        if self.pos < len(self.decisions):
            d = self.decisions[self.pos]
            self.pos += 1
            if d == 'T':
                self.assume(c)
                self.known[key] = True
                return True
            if d == 'F':
                self.assume(z3.Not(c))
                self.known[key] = False
                return False
            # forced decisions recorded as 't'/'f' : no assumption needed
            val = (d == 't')
            self.known[key] = val
            return val
        can_t = self._check(c) != 'unsat'
        can_f = self._check(z3.Not(c)) != 'unsat'
        if can_t and can_f:
            self.alternatives.append(self.decisions[:] + ['F'])
            self.decisions.append('T')
            self.pos += 1
            self.assume(c)
            self.known[key] = True
            return True
        if can_t:
            self.decisions.append('t')
            self.pos += 1
            self.known[key] = True
            return True
        if can_f:
            self.decisions.append('f')
            self.pos += 1
            self.known[key] = False
            return False
        raise Infeasible()

    def try_concretize(self, t):
        """If pc forces the integer term t to a single value, return that int."""
        if isinstance(t, int):
            return t
        ts = z3.simplify(t)
        if z3.is_int_value(ts):
            return ts.as_long()
        self._keep.append(ts)
        ta = self.abs_expr(ts)
        if self.solver.check() != z3.sat:
            return None
        v = self.solver.model().eval(ta, model_completion=True)
        if not z3.is_int_value(v):
            return None
        if self._check(ts != v) == 'unsat':
            return v.as_long()
        return None

    def enumerate_small(self, t, limit=16):
        """All values the integer term t can take under pc, if at most `limit`."""
        if isinstance(t, int):
            return [t]
        ts = z3.simplify(t)
        if z3.is_int_value(ts):
            return [ts.as_long()]
        key = ('enum', ts.get_id())
        self._keep.append(ts)
        if key in self.splits:
            return self.splits[key]
        vals = []
        ta = self.abs_expr(ts)
        self.solver.push()
        try:
            while len(vals) <= limit:
                if self.solver.check() != z3.sat:
                    break
                v = self.solver.model().eval(ta, model_completion=True)
                if not z3.is_int_value(v):
                    vals = None
                    break
                vals.append(v.as_long())
                self.solver.add(ta != v)
            else:
                vals = None
        finally:
            self.solver.pop()
        if vals is not None and len(vals) > limit:
            vals = None
        if vals is not None:
            vals.sort()
        self.splits[key] = vals
        return vals

    def choose(self, n, label="choice"):
        """Nondeterministic choice among n alternatives (no solver)."""
        if n <= 1:
            return 0
        forced = getattr(self.session, 'force', None)
        if forced and label in forced and forced[label] < n:
            return forced[label]        # this unit explores one slice of the choice (driver split)
        if self.pos < len(self.decisions):
            d = self.decisions[self.pos]
            self.pos += 1
            return int(d[1:])
        for k in range(n - 1, 0, -1):
            self.alternatives.append(self.decisions[:] + ['c%d' % k])
        self.decisions.append('c0')
        self.pos += 1
        return 0

    def prove(self, name, cond, kind="post", detail=None):
        sess = self.session
        sess.vc_count += 1
        if isinstance(cond, SBool):
            cond = cond.t
        if isinstance(cond, bool):
            if cond:
                sess.record(ObligationResult(name, kind, 'proved', detail, None, self.path_id, 'trivial'))
                return True
            cond = z3.BoolVal(False)
        c = z3.simplify(cond)
        if z3.is_true(c):
            sess.record(ObligationResult(name, kind, 'proved', detail, None, self.path_id, 'simplifier'))
            return True
        prior = [r for r in sess.results.get(name, []) if r.status == 'failed' and r.model is not None]
        if len(prior) >= 3:
            return False
        t0 = time.time()
        # cheap first: the arithmetic abstraction often suffices
        if self._check(z3.Not(c)) == 'unsat':
            sess.record(ObligationResult(name, kind, 'proved', detail, None, self.path_id, 'z3-lia',
                                         time.time() - t0))
            solve.stats["by_backend"]["z3"] += 1
            return True
        verdict, cex, backend = solve.check_forked(self.pc + [z3.Not(c)], self.concretize_inputs)
        dt = time.time() - t0
        if verdict == 'unsat':
            sess.record(ObligationResult(name, kind, 'proved', detail, None, self.path_id, backend, dt))
            return True
        if verdict == 'sat' and cex is not None:
            sess.record_on(self, ObligationResult(name, kind, 'failed', detail or str(c)[:400], cex,
                                                  self.path_id, backend, dt))
            return False
        sess.record(ObligationResult(name, kind, 'unknown',
                                     (detail or '') + ' solver=' + verdict, None, self.path_id, backend, dt))
        return False

    def fail(self, name, kind, detail):
        """Record a violated obligation for which the path itself is the witness."""
        self.session.vc_count += 1
        if os.environ.get("VERIF_DEBUG_FAIL"):
            full = os.environ.get("VERIF_DEBUG_FAIL") == "2"
            print("FAIL", name, detail, [e for e in self.trace if full or e[0] in ('call', 'return', 'raise', 'send')][:60 if full else 14])
        prior = [r for r in self.session.results.get(name, []) if r.status == 'failed' and r.model is not None]
        if len([r for r in prior if r.detail == detail]) >= 2 or len(prior) >= 16:
            return      # this reason is already witnessed: further witnesses add nothing
        # cheap feasibility first (arithmetic abstraction), then the full theory with a short limit
        if self.solver.check() == z3.unsat:
            raise Infeasible()
        verdict, cex, backend = solve.check_forked(self.pc, self.concretize_inputs, hard_timeout=8)
        if verdict == 'unsat':
            raise Infeasible()
        if verdict != 'sat' or cex is None:
            # the sequence theory did not answer in time: take the inputs from the arithmetic model
            # (sequence-valued inputs may be arbitrary); the replay on the real code decides
            try:
                if self.solver.check() == z3.sat:
                    cex = self.concretize_inputs(self.solver.model())
                    backend = 'z3-lia-approx'
                    verdict = 'sat'
            except Exception:
                cex = None
        st = 'failed' if (verdict == 'sat' and cex is not None) else 'unknown'
        self.session.record_on(self, ObligationResult(name, kind, st, detail, cex, self.path_id, backend))

    def ok(self, name, kind, detail=None):
        self.session.vc_count += 1
        self.session.record(ObligationResult(name, kind, 'proved', detail, None, self.path_id, 'path'))

    # -- model -> concrete inputs
    def concretize_inputs(self, model):
        out = {}
        for k, v in self.inputs.items():
            try:
                out[k] = concretize(v, model, {'__initial_lists__': self.ghost.get('initial_lists', {})})
            except Exception as e:      # never let reporting break a verdict
                out[k] = "<unconcretizable: %s>" % e
        out['__decisions__'] = ''.join(d if len(d) == 1 else '[%s]' % d for d in self.decisions)
        # the abstract environment this path met: stored objects loaded (class + the columns the
        # path looked at) and the protocol version chosen; used by the native engine replay
        try:
            store = []
            for e in self.trace:
                if e[0] == 'db.load' and isinstance(e[3], Obj):
                    o = e[3]
                    cols = {}
                    for k, v in o.meta.get('initial_columns', {}).items():
                        try:
                            cols[k] = concretize(v, model, {})
                        except Exception:
                            pass
                    store.append({'class': o.cls.__name__, 'columns': cols})
            if store:
                out['__store__'] = store
            for v in getattr(self, 'live_inputs', self.inputs).values():
                if isinstance(v, Obj) and v.cls.__name__ == 'KmipEngine':
                    pv = v.fields.get('_protocol_version')
                    if pv is not None and not isinstance(pv, (Obj, SOpt)):
                        out['__protocol_version__'] = (pv.major, pv.minor)
        except Exception:
            pass
        return out

    # -- sequence refinement: S == units ++ S'
    def split_fixed(self, seqterm, k, maxval=0x10FFFF):
        """Given pc => len(seqterm) >= k, return (unit elements, rest term)."""
        key = (seqterm.get_id(), k)
        self._keep.append(seqterm)
        if key in self.splits:
            return self.splits[key]
        els = [fresh("b") for _ in range(k)]
        rest = fresh("s", IntSeq)
        eq = seqterm == z3.Concat(*([z3.Unit(e) for e in els] + [rest])) if k else seqterm == rest
        self.assume(eq)
        for e in els:
            self.assume(z3.And(e >= 0, e <= maxval))
        self.splits[key] = (els, rest)
        return els, rest

    def split_sym(self, seqterm, n):
        """Ghost prefix/suffix split with symbolic n (0 <= n <= len)."""
        ns = z3.simplify(n)
        key = ('sym', seqterm.get_id(), ns.get_id())      # never the key of a concrete split (term ids are ints too)
        self._keep.extend([seqterm, ns])
        if key in self.splits:
            return self.splits[key]
        p = fresh("p", IntSeq)
        q = fresh("q", IntSeq)
        self.assume(seqterm == z3.Concat(p, q))
        self.assume(z3.Length(p) == n)
        self.splits[key] = (p, q)
        return p, q

    def event(self, *ev):
        self.trace.append(ev)


def concretize(v, model, memo):
    if isinstance(v, SInt):
        r = model.eval(v.t, model_completion=True)
        return r.as_long()
    if isinstance(v, SBool):
        return z3.is_true(model.eval(v.t, model_completion=True))
    if isinstance(v, SEnum):
        val = model.eval(v.t, model_completion=True).as_long()
        if v.members is not None:
            return v.members[val % len(v.members)]
        return v.cls(val)
    if isinstance(v, SSeq):
        els = []
        for c in v.chunks:
            if c[0] == 'u':
                for e in c[1]:
                    els.append(e if isinstance(e, int) else model.eval(e, model_completion=True).as_long())
            else:
                s = model.eval(c[1], model_completion=True)
                els.extend(_seq_value(s, model))
        if v.kind == 'bytes':
            return bytes([e % 256 for e in els])
        return ''.join(chr(e % 0x110000) for e in els)
    if isinstance(v, SOpt):
        if z3.is_true(model.eval(v.isnone, model_completion=True)):
            return None
        return concretize(v.v, model, memo)
    if isinstance(v, MutBytes):
        return bytearray(concretize(v.v, model, memo))
    if isinstance(v, Obj):
        if id(v) in memo:
            return memo[id(v)]
        d = {'__class__': v.cls.__module__ + '.' + v.cls.__qualname__}
        memo[id(v)] = d
        src = v.meta.get('initial_fields', v.fields)
        for k, f in src.items():
            d[k] = concretize(f, model, memo)
        return d
    if isinstance(v, list):
        ini = memo.get('__initial_lists__', {}).get(id(v))
        if ini is not None and ini[0] is v:
            v = ini[1]
    if isinstance(v, (list, tuple)):
        return type(v)(concretize(x, model, memo) for x in v)
    if isinstance(v, dict):
        from .sym import unkey
        out = {}
        for k, x in v.items():
            ck = concretize(unkey(k), model, memo)
            try:
                hash(ck)
            except TypeError:
                ck = repr(ck)
            out[ck] = concretize(x, model, memo)
        return out
    if isinstance(v, Opaque):
        return "<opaque %s>" % v.name
    if isinstance(v, SDict):
        if id(v) in memo:
            return memo[id(v)]
        d = {}
        memo[id(v)] = d
        im = getattr(v, 'initial_memo', None)
        entries, keys_ = (v.memo, v.keys_) if im is None else im
        for kid, opt in entries.items():
            if z3.is_true(model.eval(opt.isnone, model_completion=True)):
                continue
            k = concretize(keys_[kid], model, memo)
            try:
                hash(k)
            except TypeError:
                k = repr(k)
            d[k] = concretize(opt.v, model, memo)
        return d
    if isinstance(v, SList):
        n = model.eval(v.length, model_completion=True).as_long() if not isinstance(v.length, int) else v.length
        ms = [concretize(x, model, memo) for x in v.members]
        return ms + [ms[-1] if ms else 'g'] * max(0, min(n, 4) - len(ms)) if n > 0 else []
    if isinstance(v, (BoundMethod, Closure, SuperProxy)):
        return repr(v)
    return v


def _seq_value(s, model):
    """z3 sequence value -> list of ints"""
    s = z3.simplify(s)
    out = []

    def walk(t):
        if z3.is_app(t):
            k = t.decl().kind()
            if k == z3.Z3_OP_SEQ_CONCAT:
                for ch in t.children():
                    walk(ch)
                return
            if k == z3.Z3_OP_SEQ_UNIT:
                e = model.eval(t.arg(0), model_completion=True)
                out.append(e.as_long())
                return
            if k == z3.Z3_OP_SEQ_EMPTY:
                return
        raise ValueError("unexpected sequence value %s" % t)
    walk(s)
    return out


# ------------------------------------------------------------------ explorer

def explore(session, task, name="task", max_paths=20000, time_budget=None):
    """Run task(path) over every feasible path."""
    stack = [[]]
    n = 0
    t0 = time.time()
    while stack:
        prefix = stack.pop()
        n += 1
        if n > max_paths or (time_budget and time.time() - t0 > time_budget):
            session.oof.append((name, "path budget exceeded (%d paths)" % n))
            session.record(ObligationResult(name + "/exploration", "safety", 'oof',
                                            "path budget exceeded"))
            break
        reset_names()
        path = Path(session, prefix, "%s#%d" % (name, n))
        try:
            task(path)
            session.paths += 1
        except Infeasible:
            session.infeasible += 1
        except PathEnd:
            session.paths += 1
        except OutOfFragment as e:
            session.paths += 1
            session.oof.append((name, str(e)))
            session.record(ObligationResult(name + "/fragment", "safety", 'oof', str(e), None, path.path_id))
        stack.extend(path.alternatives)
    return n


# ------------------------------------------------------------------ interpreter

class Env(object):
    __slots__ = ("locals", "globals", "cls_ctx", "fn_name", "ex", "old", "spec")

    def __init__(self, locals_, globals_, cls_ctx=None, fn_name=None, ex=None):
        self.locals = locals_
        self.globals = globals_
        self.cls_ctx = cls_ctx
        self.fn_name = fn_name
        self.ex = ex
        self.old = None       # dict: id(ast node) -> value, for old(...) in specs
        self.spec = False


class Interp(object):
    MAX_DEPTH = 40

    def __init__(self, path, top=None, use_contracts=True):
        self.path = path
        self.top = top                  # qualname of function being proved (body always executed)
        self.use_contracts = use_contracts
        self.depth = 0
        self.call_stack = []
        self.loop_counter = {}          # qualname -> ordinal of next loop
        self.top_contract = None
        self.ghost_globals = {}
        self.prefer_variant = None
        self.opaque_outside = None      # modules whose code is interpreted; others opaque
        from . import models
        self.models = models

    # ---------------------------------------------------------- helpers
    def raise_py(self, cls, *args):
        e = ExcVal(cls, args)
        e.where = getattr(self, 'cur_stmt', None)      # (function, line) of the statement being executed
        raise Raised(e)

    def truth(self, v):
        """Python truthiness -> bool | z3 Bool"""
        if isinstance(v, bool):
            return v
        if v is None:
            return False
        if isinstance(v, SBool):
            return v.t
        if isinstance(v, SInt):
            return v.t != 0
        if isinstance(v, SSeq):
            n = v.length()
            return n > 0 if not isinstance(n, int) else n > 0
        if isinstance(v, MutBytes):
            return self.truth(v.v)
        if isinstance(v, SOpt):
            inner = self.truth(v.v)
            if isinstance(inner, bool):
                return z3.And(z3.Not(v.isnone), z3.BoolVal(inner))
            return z3.And(z3.Not(v.isnone), inner)
        if isinstance(v, SEnum):
            return True
        if isinstance(v, SList):
            n = v.length
            return (n > 0) if not isinstance(n, int) else n > 0
        if isinstance(v, SDict):
            return z3.Not(v.empty)
        from . import symset as _ss
        if isinstance(v, _ss.SSet):
            return _ss.truth(v)
        if isinstance(v, Obj):
            # objects are truthy unless the class defines __bool__/__len__
            if self._class_attr(v.cls, '__bool__') is not None or \
                    self._class_attr(v.cls, '__len__') is not None:
                ln = self._class_attr(v.cls, '__len__')
                if ln is not None:
                    r = self.call_value(BoundMethod(v, ln), [], {})
                    return self.truth(r)
                raise OutOfFragment("truthiness of %r" % v)
            return True
        if isinstance(v, ExcVal):
            return True
        if isinstance(v, Opaque):
            if 'nonempty' in v.facts or 'truthy' in v.facts:
                return True
            b = v.fields.get('__truth__')
            if b is None:
                b = fresh("truth_" + v.name, z3.BoolSort())
                v.fields['__truth__'] = b
            return b
        if isinstance(v, (BoundMethod, Closure, SuperProxy)):
            return True
        return bool(v)

    def cond(self, v):
        """Decide truthiness on this path (may fork)."""
        t = self.truth(v)
        if isinstance(t, bool):
            return t
        return self.path.branch(t)

    def _class_attr(self, cls, name):
        for k in cls.__mro__:
            if k is object:
                continue
            if name in k.__dict__:
                return k.__dict__[name]
        return None

    def pytype(self, v):
        if isinstance(v, SInt):
            return int
        if isinstance(v, SBool):
            return bool
        if isinstance(v, SSeq):
            return bytes if v.kind == 'bytes' else str
        if isinstance(v, MutBytes):
            return bytearray
        if isinstance(v, SEnum):
            return v.cls
        if isinstance(v, Obj):
            return v.cls
        if isinstance(v, ExcVal):
            return v.cls
        if isinstance(v, SList):
            return list
        if isinstance(v, SDict):
            return dict
        if isinstance(v, Opaque):
            return {'str': str, 'bytes': bytes, 'int': int, 'bool': bool, 'list': list,
                    'dict': dict, 'float': float}.get(v.pykind, None)
        if isinstance(v, SOpt):
            raise OutOfFragment("pytype of SOpt must be resolved first")
        if isinstance(v, (BoundMethod, Closure)):
            return types.FunctionType
        return type(v)

    def resolve_enum(self, v):
        """SEnum -> concrete member (forks over the members)."""
        if not isinstance(v, SEnum):
            return v
        if v.members is not None:
            for i, m in enumerate(v.members):
                if self.path.branch(v.t == i):
                    return m
            raise Infeasible()
        for m in v.cls:
            if self.path.branch(v.t == m.value):
                return m
        raise Infeasible()

    def resolve_opt(self, v):
        """SOpt -> None or inner value (forks)."""
        while isinstance(v, SOpt):
            if self.path.branch(v.isnone):
                return None
            v = v.v
        return v

    # ---------------------------------------------------------- expressions
    def eval(self, node, env):
        m = getattr(self, 'e_' + type(node).__name__, None)
        if m is None:
            raise OutOfFragment("expression %s at %s:%s" % (type(node).__name__, env.fn_name,
                                                            getattr(node, 'lineno', '?')))
        return m(node, env)

    def e_Constant(self, node, env):
        return node.value

    def e_Name(self, node, env):
        n = node.id
        if n in env.locals:
            return env.locals[n]
        if env.spec and n in self.models.SPEC_BUILTINS:
            return self.models.SPEC_BUILTINS[n]
        if env.spec and n in SPEC_NAMES:
            return SPEC_NAMES[n]
        if env.spec and n in self.ghost_globals:
            return self.ghost_globals[n]
        if n in env.globals:
            return env.globals[n]
        if hasattr(builtins, n):
            return getattr(builtins, n)
        if n in self.models.SPEC_BUILTINS:
            return self.models.SPEC_BUILTINS[n]
        self.raise_py(NameError, "name '%s' is not defined" % n)

    def e_JoinedStr(self, node, env):
        parts = []
        for v in node.values:
            if isinstance(v, ast.Constant):
                parts.append(v.value)
            else:
                parts.append(self.models.to_str(self, self.eval(v.value, env)))
        return self.models.join_str(self, parts)

    def e_Tuple(self, node, env):
        return tuple(self._elts(node.elts, env))

    def e_List(self, node, env):
        return list(self._elts(node.elts, env))

    def e_Set(self, node, env):
        els = self._elts(node.elts, env)
        if any(isinstance(x, SSeq) for x in els):
            from . import symset
            return symset.lift(self, els)
        return set(els)

    def _elts(self, elts, env):
        out = []
        for e in elts:
            if isinstance(e, ast.Starred):
                out.extend(self.iterate_concrete(self.eval(e.value, env)))
            else:
                out.append(self.eval(e, env))
        return out

    def e_Dict(self, node, env):
        d = {}
        for k, v in zip(node.keys, node.values):
            if k is None:
                d.update(self.eval(v, env))
            else:
                d[self.hashable(self.eval(k, env))] = self.eval(v, env)
        return d

    def hashable(self, k):
        if isinstance(k, SEnum):
            return self.resolve_enum(k)
        if isinstance(k, Opaque):
            return k          # uninterpreted values are keys by identity
        if is_symbolic(k) and not isinstance(k, Obj):
            raise OutOfFragment("symbolic dictionary key %r" % (k,))
        return k

    def e_IfExp(self, node, env):
        if self.cond(self.eval(node.test, env)):
            return self.eval(node.body, env)
        return self.eval(node.orelse, env)

    def e_BoolOp(self, node, env):
        is_and = isinstance(node.op, ast.And)
        v = None
        for i, sub in enumerate(node.values):
            v = self.eval(sub, env)
            if i == len(node.values) - 1:
                return v
            t = self.cond(v)
            if is_and and not t:
                return v
            if not is_and and t:
                return v
        return v

    def e_UnaryOp(self, node, env):
        v = self.eval(node.operand, env)
        if isinstance(node.op, ast.Not):
            t = self.truth(v)
            if isinstance(t, bool):
                return not t
            return lower_bool(z3.Not(t))
        if isinstance(node.op, ast.USub):
            if isinstance(v, SInt):
                return lower_int(-v.t, v.taint)
            return -v
        if isinstance(node.op, ast.UAdd):
            return v
        if isinstance(node.op, ast.Invert):
            if isinstance(v, SInt):
                return lower_int(-v.t - 1, v.taint)
            return ~v
        raise OutOfFragment("unary op")

    def e_BinOp(self, node, env):
        a = self.eval(node.left, env)
        b = self.eval(node.right, env)
        return self.models.binop(self, type(node.op).__name__, a, b)

    def e_Compare(self, node, env):
        left = self.eval(node.left, env)
        result = True
        for op, rnode in zip(node.ops, node.comparators):
            right = self.eval(rnode, env)
            r = self.models.compare(self, type(op).__name__, left, right)
            if len(node.ops) == 1:
                return r
            t = self.truth(r)
            if isinstance(t, bool):
                if not t:
                    return False
            else:
                if not self.path.branch(t):
                    return False
            left = right
        return result

    def e_Lambda(self, node, env):
        return Closure(node, env, None)

    def e_Attribute(self, node, env):
        v = self.eval(node.value, env)
        name = node.attr
        if name.startswith('__') and not name.endswith('__') and env.cls_ctx is not None:
            name = '_%s%s' % (env.cls_ctx.__name__.lstrip('_'), name)
        return self.getattr(v, name)

    def e_Subscript(self, node, env):
        v = self.eval(node.value, env)
        sl = node.slice
        if isinstance(sl, ast.Slice):
            lo = self.eval(sl.lower, env) if sl.lower is not None else None
            hi = self.eval(sl.upper, env) if sl.upper is not None else None
            st = self.eval(sl.step, env) if sl.step is not None else None
            return self.models.slice_(self, v, lo, hi, st)
        idx = self.eval(sl, env)
        return self.models.index(self, v, idx)

    def e_ListComp(self, node, env):
        return self._comp(node, env, list)

    def e_GeneratorExp(self, node, env):
        return self._comp(node, env, list)

    def e_SetComp(self, node, env):
        return set(self._comp(node, env, list))

    def e_DictComp(self, node, env):
        out = {}

        def rec(gi, loc):
            if gi == len(node.generators):
                e2 = Env(loc, env.globals, env.cls_ctx, env.fn_name, env.ex)
                e2.old, e2.spec = env.old, env.spec
                out[self.hashable(self.eval(node.key, e2))] = self.eval(node.value, e2)
                return
            g = node.generators[gi]
            e2 = Env(loc, env.globals, env.cls_ctx, env.fn_name, env.ex)
            e2.old, e2.spec = env.old, env.spec
            for item in self.iterate_concrete(self.eval(g.iter, e2)):
                loc2 = dict(loc)
                e3 = Env(loc2, env.globals, env.cls_ctx, env.fn_name, env.ex)
                e3.old, e3.spec = env.old, env.spec
                self.assign(g.target, item, e3)
                if all(self.cond(self.eval(c, e3)) for c in g.ifs):
                    rec(gi + 1, loc2)
        rec(0, dict(env.locals))
        return out

    def _comp(self, node, env, ctor):
        out = []

        def rec(gi, loc):
            if gi == len(node.generators):
                e2 = Env(loc, env.globals, env.cls_ctx, env.fn_name, env.ex)
                e2.old, e2.spec = env.old, env.spec
                out.append(self.eval(node.elt, e2))
                return
            g = node.generators[gi]
            e2 = Env(loc, env.globals, env.cls_ctx, env.fn_name, env.ex)
            e2.old, e2.spec = env.old, env.spec
            itv = self.resolve_opt(self.eval(g.iter, e2))
            if isinstance(itv, SList) and not isinstance(itv.length, int):
                if len(node.generators) != 1:
                    raise OutOfFragment("comprehension over a symbolic list with several generators")
                raise _SymComp(itv, g, loc)
            for item in self.iterate_concrete(itv):
                loc2 = dict(loc)
                e3 = Env(loc2, env.globals, env.cls_ctx, env.fn_name, env.ex)
                e3.old, e3.spec = env.old, env.spec
                self.assign(g.target, item, e3)
                if all(self.cond(self.eval(c, e3)) for c in g.ifs):
                    rec(gi + 1, loc2)
        try:
            rec(0, dict(env.locals))
        except _SymComp as sc:
            return self._comp_symbolic(node, env, sc)
        return ctor(out)

    def _comp_symbolic(self, node, env, sc):
        """[elt for x in L] with L of symbolic length: the list term map(elt, L).  The element
        expression is evaluated for an arbitrary member (so whatever it may raise or do is explored
        whenever the list can be non-empty); the result is an LTerm whose members are images."""
        base, g, loc = sc.base, sc.gen, sc.loc

        def image(I2, tag):
            x = base.elem_factory(I2, tag)
            base.members.append(x)
            loc2 = dict(loc)
            e3 = Env(loc2, env.globals, env.cls_ctx, env.fn_name, env.ex)
            e3.old, e3.spec = env.old, env.spec
            I2.assign(g.target, x, e3)
            for cnd in g.ifs:
                # a member that passes the filter
                t = I2.truth(I2.eval(cnd, e3))
                if t is False:
                    raise Infeasible()
                if t is not True:
                    I2.path.assume(t)
            return x, I2.eval(node.elt, e3)
        params = {'elt': ast.unparse(node.elt), 'target': ast.unparse(g.target)}
        n = base.length
        if g.ifs:
            params['ifs'] = [ast.unparse(c) for c in g.ifs]
            m = fresh("n_filtered")
            self.path.assume(z3.And(m >= 0, m <= n))
            t = LTerm('map', base, params, base.name + ".filter", m, lambda I2, tag: image(I2, tag)[1], base.taint)
            if self.path.branch(m > 0):
                # whatever the filter and the element expression do (calls, errors) happens for some
                # member whenever the result is non-empty: evaluate them once for an arbitrary member
                t.members.append(image(self, "c%d" % len(base.members))[1])
            return t
        if self.path.branch(n > 0):
            x, y = image(self, "c%d" % len(base.members))
            params['sample_in'], params['sample_out'] = x, y
        t = LTerm('map', base, params, base.name + ".map", n, lambda I2, tag: image(I2, tag)[1], base.taint)
        if 'sample_out' in params:
            t.members.append(params['sample_out'])
        return t

    def iterate_concrete(self, it):
        """Iterate something whose spine is concrete."""
        it = self.resolve_opt(it)
        if isinstance(it, dict):
            from .sym import unkey
            return [unkey(k) for k in it]
        if isinstance(it, (list, tuple, set, frozenset, range, dict)):
            return list(it)
        if isinstance(it, (str, bytes)):
            return list(it)
        if isinstance(it, SSeq):
            n = it.length()
            if isinstance(n, int):
                return [lower_int(e) if not isinstance(e, int) else e for c in it.chunks for e in c[1]] \
                    if it.kind == 'bytes' else \
                    [seq_lower(SSeq('str', [('u', [e])])) for c in it.chunks for e in c[1]]
        if isinstance(it, MutBytes):
            return self.iterate_concrete(it.v)
        if isinstance(it, SList) and isinstance(it.length, int):
            return list(it.prefix)
        if isinstance(it, type) and issubclass(it, enum.Enum):
            return list(it)
        if isinstance(it, self.models.SymRange):
            if it.step == 1 and isinstance(it.start, int):
                vals = self.path.enumerate_small(int_term(it.stop))
                if vals is not None:
                    for cand in vals:
                        if self.path.branch(int_term(it.stop) == cand):
                            return list(range(it.start, cand))
                    raise Infeasible()
            raise OutOfFragment("iteration over a symbolic range needs a loop invariant")
        if hasattr(it, '__iter__') and not is_symbolic(it):
            return list(it)
        if isinstance(it, Opaque) and self.opaque_outside is not None:
            # an uninterpreted collection (a payload list of a response): zero or one element
            self.path.session.assumptions.add(
                "uninterpreted collections are iterated zero or one time (bounded; only in contracts "
                "that check result-status handling, where the loop body is not part of the clause)")
            if self.path.choose(2, "opaque-iter") == 0:
                return []
            return [Opaque('object', it.name + '[]', it.taint)]
        raise OutOfFragment("iteration over %r needs a loop invariant" % (it,))

    def e_Call(self, node, env):
        # old(...) in specifications
        if env.spec and isinstance(node.func, ast.Name) and node.func.id == 'old':
            if env.old is None:
                raise OutOfFragment("old() outside a postcondition")
            if id(node) in env.old:
                return env.old[id(node)]
            key = ast.dump(node)
            if key in env.old:
                return env.old[key]
            raise OutOfFragment("old(%s) was not snapshotted" % ast.dump(node.args[0]))
        f = self.eval(node.func, env)
        args = []
        for a in node.args:
            if isinstance(a, ast.Starred):
                args.extend(self.iterate_concrete(self.eval(a.value, env)))
            else:
                args.append(self.eval(a, env))
        kwargs = {}
        for kw in node.keywords:
            if kw.arg is None:
                d = self.eval(kw.value, env)
                if not isinstance(d, dict):
                    raise OutOfFragment("**%r" % (d,))
                kwargs.update(d)
            else:
                kwargs[kw.arg] = self.eval(kw.value, env)
        # zero-argument super()
        if f is builtins.super and not args:
            args = [env.cls_ctx, env.locals.get('self')]
        return self.call_value(f, args, kwargs, node=node, env=env)

    # ---------------------------------------------------------- attribute access
    def getattr(self, v, name):
        if isinstance(v, SOpt):
            v = self.resolve_opt(v)
        if v is None and name not in ('__class__',):
            self.raise_py(AttributeError, "'NoneType' object has no attribute '%s'" % name)
        if isinstance(v, Obj):
            if v.meta.get('track_reads') and name in v.meta['track_reads']:
                self.path.event('field.read', id(v), name)
            if name in v.fields and name not in self._property_names(v.cls):
                r = v.fields[name]
                if isinstance(r, list) and v.meta.get('db'):
                    self.path.ghost.setdefault('owned_lists', {})[id(r)] = (v, name)
                return r
            lazy = v.meta.get('lazy')
            if lazy and name in lazy:
                lazy[name](self, v)
                return v.fields[name]
            if name == '__class__':
                return v.cls
            if name == '__dict__':
                return v.fields
            return self._class_getattr(v, v.cls, name, v.cls.__mro__)
        if isinstance(v, SuperProxy):
            mro = v.obj.cls.__mro__ if isinstance(v.obj, (Obj, ExcVal)) else type(v.obj).__mro__
            i = mro.index(v.cls)
            return self._class_getattr(v.obj, None, name, mro[i + 1:])
        if isinstance(v, ExcVal):
            if name in v.fields:
                return v.fields[name]
            if name == 'args':
                return v.args
            if name == '__class__':
                return v.cls
            if v.fields.get('__unknown_subclass__') and self._class_attr(v.cls, name) is None:
                r = Opaque('object', 'exc.' + name, v.taint)
                v.fields[name] = r
                return r
            return self._class_getattr(v, v.cls, name, v.cls.__mro__)
        if isinstance(v, SEnum):
            if v.members is not None:
                return getattr(self.resolve_enum(v), name)
            if name == 'value':
                return SInt(v.t)
            if name == 'name' and len(list(v.cls)) > 12:
                return Opaque('str', 'enum.name', facts={'nonempty'})
            return getattr(self.resolve_enum(v), name)
        if isinstance(v, (SSeq, SInt, SBool, MutBytes, SList, SDict)) or type(v).__name__ == 'SSet' or \
                (isinstance(v, (bytes, str, list, dict, tuple, set, int, bytearray, frozenset))
                 and not isinstance(v, enum.Enum)):
            return self.models.builtin_method(self, v, name)
        if isinstance(v, Opaque):
            return self.models.opaque_getattr(self, v, name)
        if isinstance(v, (BoundMethod, Closure)):
            if name == '__name__':
                return getattr(v.func, '__name__', '?') if isinstance(v, BoundMethod) else '<lambda>'
            raise OutOfFragment("attribute %s of function value" % name)
        # concrete native object (module, class, enum member, native instance)
        try:
            r = getattr(v, name)
        except AttributeError as e:
            self.raise_py(AttributeError, *e.args)
        return r

    _PROPS = {}

    def _property_names(self, cls):
        """Names that are data descriptors (properties) of cls: they win over instance fields."""
        p = Interp._PROPS.get(cls)
        if p is None:
            p = set()
            for k in cls.__mro__:
                if not (k.__module__ or '').startswith(('kmip.', 'contracts')):
                    continue        # library properties (Thread.name): the kind's field is their model
                for n, a in k.__dict__.items():
                    if isinstance(a, property):
                        p.add(n)
            Interp._PROPS[cls] = p
        return p

    def _class_getattr(self, obj, cls, name, mro):
        for k in mro:
            if name in k.__dict__:
                a = k.__dict__[name]
                if isinstance(a, types.FunctionType):
                    return BoundMethod(obj, a, k)
                if isinstance(a, staticmethod):
                    return a.__func__
                if isinstance(a, classmethod):
                    return BoundMethod(cls or k, a.__func__, k)
                if isinstance(a, property):
                    r = self._optional_value_getter(obj, a.fget)
                    if r is not NotImplemented:
                        return r
                    return self.call_value(BoundMethod(obj, a.fget, k), [], {})
                if isinstance(obj, Obj) and obj.meta.get('db'):
                    from . import dbmodel
                    if dbmodel.is_orm_attribute(a):
                        return dbmodel.db_getattr(self, obj, k, name, a)
                if type(a).__name__ in ('wrapper_descriptor', 'method_descriptor',
                                        'builtin_function_or_method', 'getset_descriptor',
                                        'member_descriptor'):
                    return self.models.native_descriptor(self, obj, k, name, a)
                r = self.models.class_data_attr(self, obj, k, name, a)
                return r
        if isinstance(obj, Obj) and obj.meta.get('dynamic') is not None:
            return obj.meta['dynamic'](self, obj, name)
        dyn = None
        for k in mro:
            if '_pyvc_dynamic' in k.__dict__:
                dyn = k.__dict__['_pyvc_dynamic']
                break
        if dyn is not None:
            return dyn(self, obj, name)
        tname = (cls or (mro[0] if mro else object)).__name__
        self.raise_py(AttributeError, "'%s' object has no attribute '%s'" % (tname, name))

    _OPT_GETTERS = {}

    def _optional_value_getter(self, obj, fget):
        """The accessor idiom  `if self._x: return self._x.value` / `return None`  applied to a
        maybe-absent holder object: its result is the maybe-absent value itself, computed without
        splitting the path (the same value the body computes on either branch)."""
        if not isinstance(obj, Obj) or not isinstance(fget, types.FunctionType):
            return NotImplemented
        pat = Interp._OPT_GETTERS.get(fget)
        if pat is None:
            pat = False
            try:
                ex = extract.of_function(fget)
                body = ex.body()
                if len(body) in (1, 2) and isinstance(body[0], ast.If) and len(body[0].body) == 1 \
                        and isinstance(body[0].body[0], ast.Return):
                    t, ret = body[0].test, body[0].body[0].value
                    tail = body[0].orelse if len(body) == 1 else [body[1]]
                    none_tail = len(tail) == 1 and isinstance(tail[0], ast.Return) and (
                        tail[0].value is None or (isinstance(tail[0].value, ast.Constant) and tail[0].value.value is None))
                    if none_tail and isinstance(t, ast.Attribute) and isinstance(t.value, ast.Name) \
                            and t.value.id == 'self' and isinstance(ret, ast.Attribute) and ret.attr == 'value' \
                            and ast.dump(ret.value) == ast.dump(t):
                        pat = t.attr
            except Exception:
                pat = False
            Interp._OPT_GETTERS[fget] = pat
        if not pat:
            return NotImplemented
        held = obj.fields.get(pat, NotImplemented)
        if not isinstance(held, SOpt) or not isinstance(held.v, Obj) or 'value' not in held.v.fields:
            return NotImplemented
        if self._class_attr(held.v.cls, '__bool__') is not None or self._class_attr(held.v.cls, '__len__') is not None:
            return NotImplemented
        inner = held.v.fields['value']
        if isinstance(inner, SOpt) or inner is None:
            return NotImplemented
        return SOpt(held.isnone, inner)

    def setattr(self, v, name, value):
        if isinstance(v, SOpt):
            v = self.resolve_opt(v)
        if isinstance(v, (Obj, ExcVal)):
            a = self._class_attr(v.cls, name)
            if isinstance(a, property):
                if a.fset is None:
                    self.raise_py(AttributeError, "can't set attribute")
                self.call_value(BoundMethod(v, a.fset), [value], {})
                return
            if isinstance(v, Obj) and v.meta.get('db'):
                old = v.fields.get(name)
                if old is None and name not in v.fields:
                    try:
                        old = self.getattr(v, name)
                    except Raised:
                        old = None
                self.path.event('db.mutate', id(v), name, old, value, bool(v.meta.get('attached')),
                                v.cls.__name__)
            v.fields[name] = value
            self.path.event('field.write', id(v), name)
            return
        if v is None:
            self.raise_py(AttributeError, "'NoneType' object has no attribute '%s'" % name)
        if isinstance(v, Opaque):
            v.fields[name] = value
            return
        raise OutOfFragment("setattr on %r" % (v,))

    # ---------------------------------------------------------- assignment
    def assign(self, target, value, env):
        if isinstance(target, ast.Name):
            env.locals[target.id] = value
        elif isinstance(target, ast.Attribute):
            obj = self.eval(target.value, env)
            name = target.attr
            if name.startswith('__') and not name.endswith('__') and env.cls_ctx is not None:
                name = '_%s%s' % (env.cls_ctx.__name__.lstrip('_'), name)
            self.setattr(obj, name, value)
        elif isinstance(target, (ast.Tuple, ast.List)):
            items = self.iterate_concrete(value)
            if len(items) != len(target.elts):
                self.raise_py(ValueError, "unpack mismatch")
            for t, x in zip(target.elts, items):
                self.assign(t, x, env)
        elif isinstance(target, ast.Subscript):
            obj = self.eval(target.value, env)
            if isinstance(target.slice, ast.Slice):
                sl = target.slice
                if isinstance(obj, list) and sl.lower is None and sl.upper is None and sl.step is None:
                    self.models.note_list_mutation(self, obj)
                    obj[:] = self.iterate_concrete(value)
                    return
                raise OutOfFragment("slice assignment")
            idx = self.eval(target.slice, env)
            self.models.setitem(self, obj, idx, value)
        else:
            raise OutOfFragment("assignment target %s" % type(target).__name__)

    # ---------------------------------------------------------- statements
    def exec_block(self, stmts, env):
        for s in stmts:
            self.exec(s, env)

    def exec(self, node, env):
        m = getattr(self, 's_' + type(node).__name__, None)
        if m is None:
            raise OutOfFragment("statement %s at %s:%s" % (type(node).__name__, env.fn_name,
                                                           getattr(node, 'lineno', '?')))
        if not getattr(env, 'spec', False):
            self.cur_stmt = (env.fn_name, getattr(node, 'lineno', None))
        return m(node, env)

    def s_Expr(self, node, env):
        self.eval(node.value, env)

    def s_Pass(self, node, env):
        pass

    def s_Assign(self, node, env):
        v = self.eval(node.value, env)
        for t in node.targets:
            self.assign(t, v, env)

    def s_AnnAssign(self, node, env):
        if node.value is not None:
            self.assign(node.target, self.eval(node.value, env), env)

    def s_AugAssign(self, node, env):
        t = node.target
        if isinstance(t, ast.Name):
            cur = self.e_Name(ast.Name(id=t.id, ctx=ast.Load()), env)
        elif isinstance(t, ast.Attribute):
            cur = self.e_Attribute(ast.Attribute(value=t.value, attr=t.attr, ctx=ast.Load()), env)
        elif isinstance(t, ast.Subscript):
            cur = self.e_Subscript(ast.Subscript(value=t.value, slice=t.slice, ctx=ast.Load()), env)
        else:
            raise OutOfFragment("augassign target")
        rhs = self.eval(node.value, env)
        if isinstance(cur, list) and isinstance(node.op, ast.Add):
            cur.extend(self.iterate_concrete(rhs))
            return
        self.assign(t, self.models.binop(self, type(node.op).__name__, cur, rhs), env)

    def s_Return(self, node, env):
        raise _Return(self.eval(node.value, env) if node.value is not None else None)

    def s_Break(self, node, env):
        raise _Break()

    def s_Continue(self, node, env):
        raise _Continue()

    def s_If(self, node, env):
        if self.cond(self.eval(node.test, env)):
            self.exec_block(node.body, env)
        else:
            self.exec_block(node.orelse, env)

    def s_Assert(self, node, env):
        if not self.cond(self.eval(node.test, env)):
            self.raise_py(AssertionError)

    def s_Delete(self, node, env):
        for t in node.targets:
            if isinstance(t, ast.Name):
                env.locals.pop(t.id, None)
            elif isinstance(t, ast.Subscript):
                obj = self.eval(t.value, env)
                idx = self.eval(t.slice, env)
                self.models.delitem(self, obj, idx)
            else:
                raise OutOfFragment("del target")

    def s_Import(self, node, env):
        import importlib
        for a in node.names:
            m = importlib.import_module(a.name)
            env.locals[a.asname or a.name.split('.')[0]] = m if a.asname else importlib.import_module(
                a.name.split('.')[0])

    def s_ImportFrom(self, node, env):
        import importlib
        m = importlib.import_module(node.module)
        for a in node.names:
            env.locals[a.asname or a.name] = getattr(m, a.name)

    def s_Global(self, node, env):
        raise OutOfFragment("global statement")

    def s_FunctionDef(self, node, env):
        env.locals[node.name] = Closure(node, env, None)

    def s_Raise(self, node, env):
        if node.exc is None:
            cur = env.locals.get('__current_exc__')
            if cur is None:
                self.raise_py(RuntimeError, "No active exception to reraise")
            raise Raised(cur)
        v = self.eval(node.exc, env)
        if isinstance(v, type) and issubclass(v, BaseException):
            v = self.call_value(v, [], {})
        if isinstance(v, BaseException):
            v = ExcVal(type(v), v.args)
        if not isinstance(v, ExcVal):
            if isinstance(v, Opaque):
                raise Raised(ExcVal(Exception, (v,)))
            self.raise_py(TypeError, "exceptions must derive from BaseException")
        self.path.event('raise', v.cls.__name__)
        raise Raised(v)

    def s_Try(self, node, env):
        try:
            try:
                self.exec_block(node.body, env)
            except Raised as r:
                exc = r.exc
                handled = False
                for h in node.handlers:
                    if self.exc_matches(exc, h, env):
                        handled = True
                        if h.name:
                            env.locals[h.name] = exc
                        saved = env.locals.get('__current_exc__')
                        env.locals['__current_exc__'] = exc
                        try:
                            self.exec_block(h.body, env)
                        finally:
                            if saved is None:
                                env.locals.pop('__current_exc__', None)
                            else:
                                env.locals['__current_exc__'] = saved
                        break
                if not handled:
                    raise
            else:
                self.exec_block(node.orelse, env)
        finally:
            if node.finalbody:
                self.exec_block(node.finalbody, env)

    def exc_matches(self, exc, handler, env):
        if handler.type is None:
            return True
        t = self.eval(handler.type, env)
        classes = t if isinstance(t, tuple) else (t,)
        unknown = exc.fields.get('__unknown_subclass__') if isinstance(exc, ExcVal) else None
        for c in classes:
            if isinstance(c, type) and issubclass(exc.cls, c):
                return True
        if unknown:
            # exception of unknown concrete class (from an external call): it is
            # some subclass of exc.cls; a narrower handler may or may not match
            for c in classes:
                if isinstance(c, type) and issubclass(c, exc.cls):
                    if self.path.choose(2, "exc-match") == 0:
                        exc.cls = c       # on this path it *is* an instance of the narrower class
                        return True
        return False

    def s_With(self, node, env):
        ctxs = []
        for item in node.items:
            cm = self.eval(item.context_expr, env)
            val = self.models.with_enter(self, cm)
            ctxs.append(cm)
            if item.optional_vars is not None:
                self.assign(item.optional_vars, val, env)
        try:
            self.exec_block(node.body, env)
        finally:
            for cm in reversed(ctxs):
                self.models.with_exit(self, cm)

    # ---------------------------------------------------------- loops
    def _loop_spec(self, env, node=None):
        qn = env.ex.qualname if env.ex is not None else None
        # static ordinal: position of this loop among the loops of the function, in source order
        k = None
        if env.ex is not None and node is not None:
            order = getattr(env.ex, '_loop_order', None)
            if order is None:
                loops = [n for n in ast.walk(env.ex.node) if isinstance(n, (ast.For, ast.While))]
                loops.sort(key=lambda n: (n.lineno, n.col_offset))
                order = {id(n): i for i, n in enumerate(loops)}
                env.ex._loop_order = order
            k = order.get(id(node))
        if k is None:
            k = self.loop_counter.get(id(env), 0)
            self.loop_counter[id(env)] = k + 1
        spec = None
        tc = getattr(self, 'top_contract', None)
        if tc is not None and qn == tc.qualname and self.depth == 1:
            c = tc
            qn = tc.key
        else:
            c = lookup_contract(qn) if qn else None
        if c is not None:
            spec = c.loops.get(k)
        return k, spec, qn

    def s_For(self, node, env):
        k, spec, qn = self._loop_spec(env, node)
        it = self.resolve_opt(self.eval(node.iter, env))
        from . import symset as _ss
        if isinstance(it, _ss.SSet):
            it = _ss.as_slist(self, it)
        if it is None or isinstance(it, (SInt, SBool)) or (isinstance(it, (int, float)) and not isinstance(it, enum.Enum)):
            self.raise_py(TypeError, "'%s' object is not iterable" % self.pytype(it).__name__)
        concrete_items = None
        try:
            concrete_items = self.iterate_concrete(it)
        except OutOfFragment:
            concrete_items = None
        if concrete_items is not None:
            broke = False
            # Python's iteration protocol on containers the body may change: a list is read by
            # index against its current length (elements removed or added during the loop shift
            # what is visited); a dict or set whose size changed raises RuntimeError at the next step
            live_list = it if isinstance(it, list) else None
            sized = it if isinstance(it, (dict, set)) else None
            size0 = len(sized) if sized is not None else None
            i = 0
            while True:
                if sized is not None and len(sized) != size0:
                    self.raise_py(RuntimeError, "%s changed size during iteration"
                                  % ('dictionary' if isinstance(sized, dict) else 'Set'))
                src = live_list if live_list is not None else concrete_items
                if i >= len(src):
                    break
                item = src[i]
                i += 1
                self.assign(node.target, item, env)
                try:
                    self.exec_block(node.body, env)
                except _Break:
                    broke = True
                    break
                except _Continue:
                    continue
            if not broke:
                self.exec_block(node.orelse, env)
            return
        if spec is None:
            raise OutOfFragment("loop %d of %s iterates over a symbolic %s and has no invariant"
                                % (k, qn, type(it).__name__))
        if node.orelse:
            raise OutOfFragment("for/else with symbolic iteration")
        self.models.symbolic_for(self, node, env, it, spec, k, qn)

    def s_While(self, node, env):
        k, spec, qn = self._loop_spec(env, node)
        if spec is None:
            # concrete unrolling is only sound if the guard is concrete each time
            n = 0
            while True:
                t = self.truth(self.eval(node.test, env))
                if not isinstance(t, bool):
                    raise OutOfFragment("while loop %d of %s has a symbolic guard and no invariant" % (k, qn))
                if not t:
                    break
                n += 1
                if n > 10000:
                    raise OutOfFragment("while loop did not terminate concretely")
                try:
                    self.exec_block(node.body, env)
                except _Break:
                    return
                except _Continue:
                    continue
            self.exec_block(node.orelse, env)
            return
        self.models.symbolic_while(self, node, env, spec, k, qn)

    # ---------------------------------------------------------- calls
    def call_value(self, f, args, kwargs, node=None, env=None):
        if isinstance(f, SOpt):
            f = self.resolve_opt(f)
        if isinstance(f, BoundMethod):
            return self.call_value(f.func, [f.self_value] + list(args), kwargs, node, env)
        if isinstance(f, Closure):
            return self.call_closure(f, args, kwargs)
        if isinstance(f, Opaque):
            return self.models.opaque_call(self, f, args, kwargs)
        if isinstance(f, Obj):
            m = self._class_attr(f.cls, '__call__')
            if m is None:
                self.raise_py(TypeError, "'%s' object is not callable" % f.cls.__name__)
            return self.call_value(BoundMethod(f, m), args, kwargs, node, env)
        if f is None:
            self.raise_py(TypeError, "'NoneType' object is not callable")
        model = self.models.lookup_model(f)
        if model is not None:
            return model(self, args, kwargs)
        if isinstance(f, types.FunctionType):
            return self.call_function(f, args, kwargs)
        if isinstance(f, types.MethodType):
            # native bound method on a native object
            if isinstance(f.__func__, types.FunctionType) and \
                    (f.__func__.__module__ or '').startswith(('kmip', 'contracts', 'spec_')):
                return self.call_function(f.__func__, [f.__self__] + list(args), kwargs)
            return self.models.native_call(self, f, args, kwargs)
        if isinstance(f, type):
            return self.models.instantiate(self, f, args, kwargs)
        if callable(f):
            return self.models.native_call(self, f, args, kwargs)
        self.raise_py(TypeError, "object is not callable: %r" % (f,))

    def call_closure(self, f, args, kwargs):
        node = f.node
        env0 = f.env
        loc = dict(env0.locals)
        env = Env(loc, env0.globals, env0.cls_ctx, env0.fn_name, env0.ex)
        env.old, env.spec = env0.old, env0.spec
        self.bind_params(node.args, args, kwargs, env, getattr(node, 'name', '<lambda>'))
        if isinstance(node, ast.Lambda):
            return self.eval(node.body, env)
        try:
            self.exec_block(node.body, env)
        except _Return as r:
            return r.value
        return None

    def bind_params(self, a, args, kwargs, env, fname):
        params = [p.arg for p in a.posonlyargs + a.args]
        defaults = a.defaults
        nd = len(defaults)
        args = list(args)
        kwargs = dict(kwargs)
        denv = Env({}, env.globals, env.cls_ctx, env.fn_name, env.ex)
        for i, p in enumerate(params):
            if i < len(args):
                env.locals[p] = args[i]
                if p in kwargs:
                    self.raise_py(TypeError, "%s() got multiple values for argument '%s'" % (fname, p))
            elif p in kwargs:
                env.locals[p] = kwargs.pop(p)
            else:
                di = i - (len(params) - nd)
                if di < 0:
                    self.raise_py(TypeError, "%s() missing required argument '%s'" % (fname, p))
                env.locals[p] = self.eval(defaults[di], denv)
        extra = args[len(params):]
        if a.vararg is not None:
            env.locals[a.vararg.arg] = tuple(extra)
        elif extra:
            self.raise_py(TypeError, "%s() takes %d positional arguments but %d were given"
                          % (fname, len(params), len(args)))
        for p, d in zip(a.kwonlyargs, a.kw_defaults):
            if p.arg in kwargs:
                env.locals[p.arg] = kwargs.pop(p.arg)
            elif d is not None:
                env.locals[p.arg] = self.eval(d, denv)
            else:
                self.raise_py(TypeError, "%s() missing keyword-only argument '%s'" % (fname, p.arg))
        if a.kwarg is not None:
            env.locals[a.kwarg.arg] = kwargs
        elif kwargs:
            self.raise_py(TypeError, "%s() got an unexpected keyword argument '%s'"
                          % (fname, sorted(kwargs)[0]))

    def call_function(self, fn, args, kwargs, force_body=False):
        """Call a live Python function of the repository (or a spec function)."""
        fn = getattr(fn, '_sa_original_init', fn)      # SQLAlchemy-instrumented __init__ -> the real one
        mod = getattr(fn, '__module__', '') or ''
        if self.opaque_outside is not None and not mod.startswith('contracts') and \
                not any(mod == m or mod.startswith(m + '.') for m in self.opaque_outside):
            return self.models.opaque_external(self, "%s.%s" % (mod, getattr(fn, '__qualname__', '?')),
                                               args, kwargs)
        if not (mod == 'kmip' or mod.startswith('kmip.') or mod.startswith('contracts')):
            # third-party / stdlib Python code is never interpreted: it is an external call
            return self.models.native_call(self, fn, args, kwargs)
        try:
            ex = extract.of_function(fn)
        except extract.FunctionNotFound:
            return self.models.native_call(self, fn, args, kwargs)
        qn = ex.qualname
        qm = self.models.QUALNAME_MODELS.get(qn)
        if qm is not None:
            r = qm(self, args, kwargs)
            if r is not NotImplemented:
                return r
        c = None
        if self.prefer_variant:
            c = lookup_contract(qn + '#' + self.prefer_variant)
        if c is None:
            c = lookup_contract(qn)
        if c is not None and not force_body and self.use_contracts and not c.inline \
                and qn != self.top:
            from . import modular
            return modular.apply_contract(self, c, ex, args, kwargs)
        wrapped = self.models.decorator_model(self, fn, ex)
        if wrapped is not None:
            return wrapped(self, ex, args, kwargs)
        if getattr(fn, '__closure__', None):
            # closure (decorator wrapper): its free variables come from the live cells
            free = {}
            for nm, cell in zip(fn.__code__.co_freevars, fn.__closure__):
                try:
                    free[nm] = cell.cell_contents
                except ValueError:
                    pass
            return self.run_body(ex, args, kwargs, closure=free)
        return self.run_body(ex, args, kwargs)

    def run_body(self, ex, args, kwargs, pre_bound=None, closure=None):
        if self.depth > self.MAX_DEPTH:
            raise OutOfFragment("call depth exceeded at %s" % ex.qualname)
        env = Env({}, ex.module.__dict__, ex.cls, ex.qualname, ex)
        if closure:
            env.locals.update(closure)
        if pre_bound is not None:
            env.locals.update(pre_bound)
        else:
            self.bind_params(ex.node.args, args, kwargs, env, ex.name)
        self.path.session.functions.setdefault(ex.qualname, ex.sha256)
        self.depth += 1
        self.call_stack.append(ex.qualname)
        try:
            self.exec_block(ex.body(), env)
            return None
        except _Return as r:
            return r.value
        finally:
            self.depth -= 1
            self.call_stack.pop()
            self.loop_counter.pop(id(env), None)

    # ---------------------------------------------------------- spec evaluation
    def eval_spec(self, src, locals_, globals_, old=None, cls_ctx=None):
        env = Env(dict(locals_), globals_, cls_ctx, '<spec>', None)
        env.spec = True
        env.old = old
        return self.eval(parse_expr(src), env)

    def snapshot_old(self, srcs, locals_, globals_, cls_ctx=None):
        """Evaluate every old(e) sub-expression of the given clauses in the
        current (pre-)state."""
        old = {}
        env = Env(dict(locals_), globals_, cls_ctx, '<spec-old>', None)
        env.spec = True
        for src in srcs:
            if not src:
                continue
            tree = parse_expr(src)
            for n in ast.walk(tree):
                if isinstance(n, ast.Call) and isinstance(n.func, ast.Name) and n.func.id == 'old':
                    key = ast.dump(n)
                    if key not in old:
                        old[key] = self.models.snapshot_value(self.eval(n.args[0], env))
        return old
