"""Models of Python built-ins (part 2): functions, methods, instantiation,
struct, spec built-ins.  Imported into vf.models' namespace."""
import binascii
import builtins
import copy
import enum
import struct
import time as _time
import types

import z3

from .sym import (SInt, SBool, SSeq, SEnum, SOpt, Opaque, Obj, ExcVal, OutOfFragment,
                  IntSeq, fresh, seq_of, seq_lower, seq_concat, int_term, bool_term,
                  lower_int, lower_bool, is_symbolic, taint_of)
from . import models as M
from .models import model_for, spec_builtin, is_int_like, is_seq_like, _has_sym, equals


def _pyvc():
    from . import pyvc
    return pyvc


# ------------------------------------------------------------------ basic built-ins

@model_for(builtins.len)
def m_len(I, args, kw):
    v = I.resolve_opt(args[0])
    if isinstance(v, SSeq):
        return lower_int(v.length())
    if isinstance(v, _pyvc().MutBytes):
        return m_len(I, [v.v], {})
    if isinstance(v, _pyvc().SList):
        return lower_int(v.length) if not isinstance(v.length, int) else v.length
    from . import symset as _ss
    if isinstance(v, _ss.SSet):
        return _ss.length(I, v)
    if isinstance(v, Obj):
        m = I._class_attr(v.cls, '__len__')
        if m is None:
            I.raise_py(TypeError, "object of type '%s' has no len()" % v.cls.__name__)
        return I.call_value(_pyvc().BoundMethod(v, m), [], {})
    if isinstance(v, Opaque):
        if v.pykind in ('str', 'bytes', 'list', 'dict', 'object'):
            n = v.fields.get('__len__')
            if n is None:
                n = SInt(fresh("len_" + v.name))
                I.path.assume(n.t >= 0)
                if 'nonempty' in v.facts:
                    I.path.assume(n.t > 0)
                v.fields['__len__'] = n
            return n
    if v is None or isinstance(v, (SInt, SBool, SEnum)) or (isinstance(v, int)):
        I.raise_py(TypeError, "object of type '%s' has no len()" % I.pytype(v).__name__)
    try:
        return len(v)
    except TypeError as e:
        I.raise_py(TypeError, *e.args)


@model_for(builtins.isinstance)
def m_isinstance(I, args, kw):
    v, c = args
    v = I.resolve_opt(v)
    if isinstance(v, Opaque) and I.pytype(v) is None:
        key = '__isinstance__%s' % (getattr(c, '__name__', str(c)),)
        b = v.fields.get(key)
        if b is None:
            b = SBool(fresh("isinst", z3.BoolSort()))
            v.fields[key] = b
        return b
    t = I.pytype(v)
    classes = c if isinstance(c, tuple) else (c,)
    out = False
    for k in classes:
        if isinstance(k, tuple):
            if m_isinstance(I, [v, k], {}):
                return True
            continue
        if not isinstance(k, type):
            I.raise_py(TypeError, "isinstance() arg 2 must be a type")
        try:
            if issubclass(t, k):
                return True
        except TypeError:
            pass
    return out


@model_for(builtins.issubclass)
def m_issubclass(I, args, kw):
    return issubclass(args[0], args[1])


@model_for(builtins.type)
def m_type(I, args, kw):
    if len(args) != 1:
        raise OutOfFragment("type() with 3 args")
    return I.pytype(I.resolve_opt(args[0]))


@model_for(builtins.id)
def m_id(I, args, kw):
    return id(args[0])


@model_for(builtins.callable)
def m_callable(I, args, kw):
    v = args[0]
    return isinstance(v, (_pyvc().BoundMethod, _pyvc().Closure)) or callable(v)


@model_for(builtins.int)
def m_int(I, args, kw):
    if not args:
        return 0
    v = I.resolve_opt(args[0])
    if len(args) > 1 or kw:
        if not is_symbolic(v):
            try:
                return int(v, *args[1:], **kw)
            except Exception as e:
                I.raise_py(type(e), *e.args)
        return Opaque('int', 'int(s,base)', taint_of(v))
    if isinstance(v, SInt):
        return v
    if isinstance(v, SBool):
        return lower_int(int_term(v))
    if isinstance(v, Opaque):
        if v.pykind == 'float' and 'int_value' in v.fields:
            return v.fields['int_value']
        return Opaque('int', 'int()', v.taint)
    if isinstance(v, SSeq):
        return Opaque('int', 'int(str)', v.taint)
    try:
        return int(v)
    except Exception as e:
        I.raise_py(type(e), *e.args)


@model_for(builtins.float)
def m_float(I, args, kw):
    v = I.resolve_opt(args[0]) if args else 0
    if not is_symbolic(v):
        try:
            return float(v)
        except Exception as e:
            I.raise_py(type(e), *e.args)
    return Opaque('float', 'float()', taint_of(v))


@model_for(builtins.bool)
def m_bool(I, args, kw):
    if not args:
        return False
    t = I.truth(args[0])
    return t if isinstance(t, bool) else lower_bool(t)


@model_for(builtins.str)
def m_str(I, args, kw):
    if not args:
        return ''
    if len(args) > 1:
        v = args[0]
        if isinstance(v, bytes):
            return str(v, *args[1:])
        return Opaque('str', 'str(bytes,enc)', taint_of(v))
    return M.to_str(I, args[0])


@model_for(builtins.repr)
def m_repr(I, args, kw):
    v = I.resolve_opt(args[0])
    if isinstance(v, Obj):
        m = I._class_attr(v.cls, '__repr__')
        if m is not None and isinstance(m, types.FunctionType):
            return I.call_value(_pyvc().BoundMethod(v, m), [], {})
        return Opaque('str', 'repr(obj)', taint_of(v), {'nonempty'})
    if isinstance(v, ExcVal):
        return Opaque('str', 'repr(exception)', taint_of(v) | frozenset(v.fields.get('__repr_taint__', ())), {'nonempty'})
    if is_symbolic(v) or _has_sym(v):
        return Opaque('str', 'repr()', taint_of(v), {'nonempty'})
    return repr(v)


@model_for(builtins.bytes)
def m_bytes(I, args, kw):
    if not args:
        return b''
    v = I.resolve_opt(args[0])
    if isinstance(v, _pyvc().MutBytes):
        return v.v
    if isinstance(v, SSeq):
        if v.kind == 'bytes':
            return v
        I.raise_py(TypeError, "string argument without an encoding")
    if isinstance(v, SInt):
        raise OutOfFragment("bytes(symbolic int)")
    if isinstance(v, list):
        els = []
        for e in v:
            if isinstance(e, SInt):
                if not I.path.is_valid(z3.And(e.t >= 0, e.t <= 255)):
                    if not I.path.branch(z3.And(e.t >= 0, e.t <= 255)):
                        I.raise_py(ValueError, "bytes must be in range(0, 256)")
                els.append(e.t)
            elif isinstance(e, int):
                if not 0 <= e <= 255:
                    I.raise_py(ValueError, "bytes must be in range(0, 256)")
                els.append(e)
            else:
                I.raise_py(TypeError, "an integer is required")
        return seq_lower(SSeq('bytes', [('u', els)], taint_of(v)))
    if isinstance(v, Opaque):
        return Opaque('bytes', 'bytes()', v.taint)
    if isinstance(v, str) and len(args) == 1:
        I.raise_py(TypeError, "string argument without an encoding")
    try:
        return bytes(v, *args[1:])
    except Exception as e:
        I.raise_py(type(e), *e.args)


@model_for(builtins.bytearray)
def m_bytearray(I, args, kw):
    if not args:
        return _pyvc().MutBytes(b'')
    v = m_bytes(I, args, kw)
    return _pyvc().MutBytes(v)


@model_for(builtins.hex, builtins.bin, builtins.oct)
def m_hex(I, args, kw):
    v = I.resolve_opt(args[0])
    if is_symbolic(v):
        return Opaque('str', 'hex()', taint_of(v), {'nonempty'})
    try:
        return hex(v)
    except Exception as e:
        I.raise_py(type(e), *e.args)


_MODELS = M._MODELS
_MODELS[id(builtins.bin)] = lambda I, a, k: (bin(a[0]) if not is_symbolic(a[0])
                                            else Opaque('str', 'bin()', taint_of(a[0]), {'nonempty'}))
_MODELS[id(builtins.oct)] = lambda I, a, k: (oct(a[0]) if not is_symbolic(a[0])
                                            else Opaque('str', 'oct()', taint_of(a[0]), {'nonempty'}))


@model_for(builtins.abs)
def m_abs(I, args, kw):
    v = args[0]
    if isinstance(v, SInt):
        return lower_int(z3.If(v.t >= 0, v.t, -v.t), v.taint)
    return abs(v)


@model_for(builtins.min, builtins.max)
def m_minmax(I, args, kw):
    raise OutOfFragment("min/max placeholder")


def _mk_minmax(is_min):
    def f(I, args, kw):
        vals = list(args)
        if len(vals) == 1:
            vals = I.iterate_concrete(vals[0])
        if not vals:
            I.raise_py(ValueError, "min() arg is an empty sequence")
        if kw.get('key') is not None:
            raise OutOfFragment("min/max with key")
        if all(not is_symbolic(v) for v in vals):
            return min(vals) if is_min else max(vals)
        if all(is_int_like(v) for v in vals):
            r = int_term(vals[0])
            for v in vals[1:]:
                t = int_term(v)
                r = z3.If(t < r, t, r) if is_min else z3.If(t > r, t, r)
            return lower_int(r, taint_of(vals))
        raise OutOfFragment("min/max on %r" % (vals,))
    return f


_MODELS[id(builtins.min)] = _mk_minmax(True)
_MODELS[id(builtins.max)] = _mk_minmax(False)


@model_for(builtins.range)
def m_range(I, args, kw):
    if all(isinstance(a, int) for a in args):
        return range(*args)
    return SymRange(args)


class SymRange(object):
    def __init__(self, args):
        if len(args) == 1:
            self.start, self.stop, self.step = 0, args[0], 1
        elif len(args) == 2:
            self.start, self.stop, self.step = args[0], args[1], 1
        else:
            self.start, self.stop, self.step = args
        if not isinstance(self.step, int) or self.step <= 0:
            raise OutOfFragment("symbolic range with non-positive/ symbolic step")


@model_for(builtins.enumerate)
def m_enumerate(I, args, kw):
    items = I.iterate_concrete(args[0])
    start = kw.get('start', args[1] if len(args) > 1 else 0)
    return [(start + i, x) for i, x in enumerate(items)]


@model_for(builtins.zip)
def m_zip(I, args, kw):
    return list(zip(*[I.iterate_concrete(a) for a in args]))


@model_for(builtins.reversed)
def m_reversed(I, args, kw):
    return list(reversed(I.iterate_concrete(args[0])))


@model_for(builtins.list)
def m_list(I, args, kw):
    if not args:
        return []
    v = I.resolve_opt(args[0])
    if isinstance(v, _pyvc().SList):
        return v
    return list(I.iterate_concrete(v))


@model_for(builtins.tuple)
def m_tuple(I, args, kw):
    if not args:
        return ()
    return tuple(I.iterate_concrete(args[0]))


@model_for(builtins.set, builtins.frozenset)
def m_set(I, args, kw):
    if not args:
        return set()
    src = I.resolve_opt(args[0])
    from . import symset
    from .sym import SDict as _SD
    if isinstance(src, (symset.SSet, _SD)) or \
            (isinstance(src, _pyvc().SList) and not isinstance(src.length, int)):
        return symset.from_iterable(I, src)
    items = I.iterate_concrete(src)
    if any(isinstance(x, SSeq) for x in items):
        return symset.lift(I, items)
    for x in items:
        I.hashable(x)
    return set(items)


@model_for(builtins.dict)
def m_dict(I, args, kw):
    d = {}
    if args:
        a = I.resolve_opt(args[0])
        if isinstance(a, dict):
            d.update(a)
        else:
            for k, v in I.iterate_concrete(a):
                d[I.hashable(k)] = v
    d.update(kw)
    return d


@model_for(builtins.sorted)
def m_sorted(I, args, kw):
    src = I.resolve_opt(args[0])
    if isinstance(src, _pyvc().SList) and not isinstance(src.length, int):
        rev = kw.get('reverse', False)
        if not isinstance(rev, bool):
            raise OutOfFragment("sorted() with a symbolic reverse flag")
        return _pyvc().LTerm('sorted', src, {'key': kw.get('key'), 'reverse': rev}, src.name + ".sorted",
                             src.length, src.elem_factory, src.taint)
    items = I.iterate_concrete(args[0])
    key = kw.get('key')
    rev = kw.get('reverse', False)
    if key is None:
        keys = items
    else:
        keys = [I.call_value(key, [x], {}) for x in items]
    if all(not is_symbolic(k) for k in keys):
        order = sorted(range(len(items)), key=lambda i: keys[i], reverse=bool(rev))
        return [items[i] for i in order]
    if len(items) <= 1 or all(isinstance(k, Opaque) for k in keys):
        return list(items)       # order of uninterpreted values is itself uninterpreted
    raise OutOfFragment("sorted() with symbolic keys")


@model_for(builtins.any, builtins.all)
def m_anyall(I, args, kw):
    raise OutOfFragment("placeholder")


def _mk_anyall(is_any):
    def f(I, args, kw):
        for x in I.iterate_concrete(args[0]):
            t = I.cond(x)
            if is_any and t:
                return True
            if not is_any and not t:
                return False
        return not is_any
    return f


_MODELS[id(builtins.any)] = _mk_anyall(True)
_MODELS[id(builtins.all)] = _mk_anyall(False)


@model_for(builtins.sum)
def m_sum(I, args, kw):
    acc = args[1] if len(args) > 1 else 0
    for x in I.iterate_concrete(args[0]):
        acc = M.binop(I, 'Add', acc, x)
    return acc


@model_for(builtins.getattr)
def m_getattr(I, args, kw):
    obj, name = args[0], args[1]
    if not isinstance(name, str):
        raise OutOfFragment("getattr with symbolic name")
    if len(args) == 2:
        return I.getattr(obj, name)
    try:
        return I.getattr(obj, name)
    except _pyvc().Raised as r:
        if issubclass(r.exc.cls, AttributeError):
            return args[2]
        raise


@model_for(builtins.hasattr)
def m_hasattr(I, args, kw):
    obj, name = args
    obj = I.resolve_opt(obj)
    if isinstance(obj, Opaque):
        key = '__hasattr__' + name
        if name in obj.fields:
            return True
        b = obj.fields.get(key)
        if b is None:
            b = SBool(fresh("hasattr_" + name, z3.BoolSort()))
            obj.fields[key] = b
        return b
    try:
        I.getattr(obj, name)
        return True
    except _pyvc().Raised as r:
        if issubclass(r.exc.cls, AttributeError):
            return False
        raise


@model_for(builtins.setattr)
def m_setattr(I, args, kw):
    I.setattr(args[0], args[1], args[2])


@model_for(builtins.super)
def m_super(I, args, kw):
    return _pyvc().SuperProxy(args[0], args[1])


@model_for(builtins.print)
def m_print(I, args, kw):
    return None


@model_for(builtins.iter)
def m_iter(I, args, kw):
    return list(I.iterate_concrete(args[0]))


@model_for(builtins.hash)
def m_hash(I, args, kw):
    v = args[0]
    if is_symbolic(v):
        return Opaque('int', 'hash()', frozenset())
    return hash(v)


@model_for(copy.deepcopy, copy.copy)
def m_deepcopy(I, args, kw):
    r = snapshot_value(args[0], deep=True)
    if isinstance(r, Obj) and r.meta.get('db') and r is not args[0]:
        # a copy of a mapped object is a new transient object: it is not the stored row (changes to
        # it are not flushed); columns not read yet are those of the original
        r.meta['attached'] = False
        r.meta['added'] = False
        r.meta['copy_of'] = args[0]
    return r


def snapshot_value(v, deep=False, memo=None, _top=True):
    """Snapshot for old(...): containers are copied (so later in-place mutation does not alter the
    snapshot); the elements stay the same objects unless deep=True (copy.deepcopy model)."""
    if memo is None:
        memo = {}
    if id(v) in memo:
        return memo[id(v)]
    if isinstance(v, list):
        r = []
        memo[id(v)] = r
        r.extend(snapshot_value(x, deep, memo, False) if deep else x for x in v)
        return r
    if isinstance(v, dict):
        r = {}
        memo[id(v)] = r
        for k, x in v.items():
            r[k] = snapshot_value(x, deep, memo, False) if deep else x
        return r
    if isinstance(v, tuple):
        return tuple(snapshot_value(x, deep, memo, False) if deep else x for x in v)
    if isinstance(v, set):
        return set(v)
    if isinstance(v, _pyvc().MutBytes):
        return _pyvc().MutBytes(v.v)
    if isinstance(v, Obj) and (deep or _top):
        r = Obj(v.cls, {}, v.label)
        r.meta = dict(v.meta)
        r.meta['snapshot_of'] = id(v)
        memo[id(v)] = r
        for k, x in v.fields.items():
            r.fields[k] = snapshot_value(x, deep, memo, False) if deep else (
                list(x) if isinstance(x, list) else (dict(x) if isinstance(x, dict) else x))
        return r
    return v


# ------------------------------------------------------------------ struct

_FMT = {'!I': (4, False), '!i': (4, True), '!Q': (8, False), '!q': (8, True),
        '!B': (1, False), '!b': (1, True), '!H': (2, False), '!h': (2, True),
        '>I': (4, False), '>i': (4, True), '>Q': (8, False), '>q': (8, True),
        '>B': (1, False), 'B': (1, False)}


def remember_digits(I, v, els):
    """v == sum(els[i] * 256**(n-1-i)) with every element in 0..255: record the
    digits so that be(n, v) returns them without div/mod terms."""
    if isinstance(v, SInt):
        reg = I.path.ghost.setdefault('digits', {})
        reg[v.t.get_id()] = (v.t, list(els))


def known_digits(I, n, v):
    if isinstance(v, SInt):
        ent = I.path.ghost.get('digits', {}).get(v.t.get_id())
        if ent is not None and ent[0].eq(v.t) and len(ent[1]) <= n:
            return [0] * (n - len(ent[1])) + list(ent[1])
    return None


def be_chunks(n, t):
    """n-byte big-endian digits of the integer term t (0 <= t < 256**n assumed)."""
    out = []
    for i in range(n):
        p = 256 ** (n - 1 - i)
        out.append(z3.simplify((t / p) % 256) if p > 1 else z3.simplify(t % 256))
    return out


@model_for(struct.pack)
def m_pack(I, args, kw):
    fmt = args[0]
    vals = list(args[1:])
    if not isinstance(fmt, str):
        raise OutOfFragment("struct.pack with symbolic format")
    I.path.session.trusted.add("struct.pack/unpack: big-endian two's-complement model of the C module")
    if all(not is_symbolic(v) for v in vals):
        try:
            return struct.pack(fmt, *vals)
        except Exception as e:
            I.raise_py(type(e), *e.args)
    if fmt == '!c':
        v = I.resolve_opt(vals[0])
        if not is_seq_like(v) or seq_of(v).kind != 'bytes':
            I.raise_py(struct.error, "char format requires a bytes object of length 1")
        n = seq_of(v).length()
        if isinstance(n, int):
            if n != 1:
                I.raise_py(struct.error, "char format requires a bytes object of length 1")
        elif not I.path.branch(n == 1):
            I.raise_py(struct.error, "char format requires a bytes object of length 1")
        return v
    if fmt not in _FMT or len(vals) != 1:
        raise OutOfFragment("struct.pack format %r" % fmt)
    size, signed = _FMT[fmt]
    v = I.resolve_opt(vals[0])
    if not is_int_like(v):
        I.raise_py(struct.error, "required argument is not an integer")
    t = int_term(v)
    lo, hi = (-(1 << (8 * size - 1)), (1 << (8 * size - 1)) - 1) if signed else (0, (1 << (8 * size)) - 1)
    inrange = z3.And(t >= lo, t <= hi)
    if not I.path.is_valid(inrange):
        if not I.path.branch(inrange):
            I.raise_py(struct.error, "argument out of range")
    u = z3.If(t < 0, t + (1 << (8 * size)), t) if signed else t
    return seq_lower(SSeq('bytes', [('u', be_chunks(size, u))], taint_of(v)))


@model_for(struct.unpack)
def m_unpack(I, args, kw):
    fmt, data = args
    data = I.resolve_opt(data)
    if isinstance(data, _pyvc().MutBytes):
        data = data.v
    I.path.session.trusted.add("struct.pack/unpack: big-endian two's-complement model of the C module")
    if not is_symbolic(data):
        try:
            return struct.unpack(fmt, data)
        except Exception as e:
            I.raise_py(type(e), *e.args)
    if not isinstance(data, SSeq) or data.kind != 'bytes':
        I.raise_py(TypeError, "a bytes-like object is required")
    if fmt == '!c':
        size, signed = 1, None
    elif fmt in _FMT:
        size, signed = _FMT[fmt]
    else:
        raise OutOfFragment("struct.unpack format %r" % fmt)
    n = data.length()
    if isinstance(n, int):
        if n != size:
            I.raise_py(struct.error, "unpack requires a buffer of %d bytes" % size)
    else:
        if not I.path.branch(n == size):
            I.raise_py(struct.error, "unpack requires a buffer of %d bytes" % size)
    pre, _ = M._seq_take(I, data, size)
    els = [e for c in pre for e in c[1]]
    if fmt == '!c':
        return (seq_lower(SSeq('bytes', [('u', els)], data.taint)),)
    t = z3.IntVal(0)
    for e in els:
        t = t * 256 + (z3.IntVal(e) if isinstance(e, int) else e)
    remember_digits(I, lower_int(t), els)
    if signed:
        t = z3.If(t >= (1 << (8 * size - 1)), t - (1 << (8 * size)), t)
    for e in els:
        if not isinstance(e, int):
            I.path.assume(z3.And(e >= 0, e <= 255))
    r = lower_int(t, data.taint)
    if not signed:
        remember_digits(I, r, els)
    return (r,)


@model_for(binascii.hexlify)
def m_hexlify(I, args, kw):
    v = args[0]
    if not is_symbolic(v):
        return binascii.hexlify(v)
    return Opaque('bytes', 'hexlify', taint_of(v))


@model_for(_time.time)
def m_time(I, args, kw):
    t = fresh("time")
    I.path.session.assumptions.add("time.time() returns a value in [0, 2**55) (a clock the C library can convert)")
    I.path.assume(z3.And(t >= 0, t < 2 ** 55))
    r = Opaque('float', 'time.time()')
    r.fields['int_value'] = SInt(t)
    return r


# ------------------------------------------------------------------ methods of built-in values

def builtin_method(I, v, name):
    BM = _pyvc().BoundMethod
    return BM(v, _NativeMethod(name))


class _NativeMethod(object):
    def __init__(self, name):
        self.__name__ = name

    def __repr__(self):
        return "<method %s>" % self.__name__


def _call_native_method(I, args, kw):
    raise OutOfFragment("unreachable")


def key_identity(I, k):
    """Hashable identity of a (possibly symbolic) dictionary key."""
    k = I.resolve_opt(k)
    if isinstance(k, SEnum):
        if k.members is not None:
            k = I.resolve_enum(k)
            return ('c', k), k
        return ('e', k.cls, z3.simplify(k.t).get_id()), k
    if isinstance(k, SSeq):
        t = k.to_z3()
        I.path._keep.append(t)
        return ('q', k.kind, t.get_id()), k
    if isinstance(k, SInt):
        t = z3.simplify(k.t)
        I.path._keep.append(t)
        return ('i', t.get_id()), k
    if isinstance(k, (Opaque, Obj)):
        return ('o', id(k)), k
    return ('c', k), k


def sdict_get(I, d, key):
    """-> SOpt(absent?, value) memoised per key identity"""
    from .sym import SDict
    kid, key = key_identity(I, key)
    if kid not in d.memo:
        absent = fresh("absent_" + d.name, z3.BoolSort())
        if d.keyset is not None:
            from . import symset
            if isinstance(key, (str, SSeq)) and (isinstance(key, str) or key.kind == 'str'):
                absent = z3.Not(z3.IsMember(symset.elem_term(key), d.keyset))
            elif not isinstance(key, Opaque):
                absent = z3.BoolVal(True)         # only strings are keys of this dictionary
        n = len(d.memo)
        vk = d.vkind
        if isinstance(vk, tuple) and vk[0] == 'bykey':
            vk = vk[1].get(kid[1] if kid[0] == 'c' else None, 'opaque')
        val = d.maker(I, vk, "%s[%d]" % (d.name, n))
        d.memo[kid] = SOpt(absent, val)
        d.keys_[kid] = key
        I.path.assume(z3.Implies(z3.Not(absent), z3.Not(d.empty)))
    return d.memo[kid]


def native_method_call(I, name, recv, args, kw):
    MB = _pyvc().MutBytes
    SL = _pyvc().SList
    recv = I.resolve_opt(recv)
    from .sym import SDict
    from . import symset as _ss
    if isinstance(recv, _ss.SSet):
        return _ss.method(I, recv, name, args, kw)
    if isinstance(recv, (set, frozenset)) and any(isinstance(a, _ss.SSet) for a in args):
        return _ss.method(I, _ss.lift(I, recv), name, args, kw)
    if isinstance(recv, SDict):
        if name == 'get':
            r = sdict_get(I, recv, args[0])
            if len(args) > 1 and args[1] is not None:
                if I.path.branch(r.isnone):
                    return args[1]
                return r.v
            return r
        if name == 'keys' and getattr(recv, 'kkind', None) is None:
            return recv
        if name == 'pop' and args:
            # d.pop(k[, default]): the value if present (else the default / KeyError); afterwards k is
            # absent.  What was learnt about other keys is forgotten (a symbolic key may alias them).
            ent = sdict_get(I, recv, args[0])
            kid, key = key_identity(I, args[0])
            I.path.event('dict.pop', id(recv), recv.name, args[0], [])
            recv.version = getattr(recv, 'version', 0) + 1
            present = not I.path.branch(ent.isnone)
            recv.freeze_initial()
            recv.memo.clear()
            recv.keys_.clear()
            recv.memo[kid] = SOpt(z3.BoolVal(True), ent.v)
            recv.keys_[kid] = key
            if recv.keyset is not None and isinstance(key, (str, SSeq)):
                from . import symset
                recv.keyset = z3.SetDel(recv.keyset, symset.elem_term(key))
                recv.empty = fresh("empty_" + recv.name, z3.BoolSort())
                I.path.assume(recv.empty == (recv.keyset == symset.EMPTY))
            if present:
                return ent.v
            if len(args) > 1:
                return args[1]
            I.raise_py(KeyError, args[0])
        if name in ('update', 'pop', 'clear', 'setdefault'):
            # contents change in a way the model does not track: forget what was learnt
            # (the change itself is recorded: which dictionary, with what, under which knowledge
            #  about the presence of the keys written)
            written = []
            if name == 'update' and args and isinstance(args[0], (list, tuple)):
                for pair in args[0]:
                    if isinstance(pair, tuple) and len(pair) == 2:
                        ent = recv.memo.get(key_identity(I, pair[0])[0])
                        written.append((pair[0], pair[1], None if ent is None else ent.isnone))
            I.path.event('dict.' + name, id(recv), recv.name, args[0] if args else None, written)
            recv.version = getattr(recv, 'version', 0) + 1
            recv.freeze_initial()
            recv.memo.clear()
            recv.keys_.clear()
            if recv.keyset is not None:
                # the key set afterwards is unknown (update, setdefault) or empty (clear)
                recv.empty = fresh("empty_" + recv.name, z3.BoolSort())
                recv.enable_keyset(I.path)
                if name == 'clear':
                    I.path.assume(recv.empty)
            return None
        if name in ('items', 'values') and isinstance(recv.vkind, tuple) and recv.vkind[0] == 'bykey':
            # a dictionary whose value kind depends on the key: an arbitrary entry is (one of the
            # known keys, a value of that key's kind) or (some other key, an unknown value)
            n = fresh("n_" + recv.name)
            I.path.assume(n >= 0)
            table = recv.vkind[1]
            keys = sorted(table, key=str)

            def entry(I2, tag, recv=recv, keys=keys, table=table):
                k = I2.path.choose(len(keys) + 1, "dict-entry-key")
                if k == len(keys):
                    key, val = Opaque('str', recv.name + '.other-key', facts={'nonempty'}), Opaque('object', recv.name + '.value')
                else:
                    key = keys[k]
                    val = recv.maker(I2, table[key], "%s[%s]" % (recv.name, key))
                return (key, val) if name == 'items' else val
            return _pyvc().SList(recv.name + "." + name, n, entry)
        if name in ('items', 'values', 'keys') and getattr(recv, 'kkind', None) is not None:
            # keys of a stated kind, values of the dictionary's value kind: an arbitrary entry
            n = fresh("n_" + recv.name)
            I.path.assume(z3.And(n >= 0, z3.Implies(recv.empty, n == 0), z3.Implies(n == 0, recv.empty)))

            def entry2(I2, tag, recv=recv):
                key = recv.maker(I2, recv.kkind, "%s.key.%s" % (recv.name, tag))
                ent = sdict_get(I2, recv, key)
                I2.path.assume(z3.Not(ent.isnone))
                return (key, ent.v) if name == 'items' else (key if name == 'keys' else ent.v)
            sl = _pyvc().SList(recv.name + "." + name, n, entry2)
            sl.of_dict = (recv, name)
            return sl
        if name in ('items', 'values'):
            n = fresh("n_" + recv.name)
            I.path.assume(n >= 0)
            vk = recv.vkind
            return _pyvc().SList(recv.name + "." + name, n,
                                 lambda I2, tag: (Opaque('object', recv.name + '.key'),
                                                  Opaque('object', recv.name + '.value')) if name == 'items'
                                 else Opaque('object', recv.name + '.value'))
        raise OutOfFragment("SDict.%s" % name)
    allconc = not is_symbolic(recv) and not isinstance(recv, (MB, SL)) and \
        all(not is_symbolic(a) and not isinstance(a, (MB, SL, _pyvc().Closure, _pyvc().BoundMethod))
            for a in list(args) + list(kw.values()))
    # --- lists / dicts / sets hold values: operate natively on the spine
    if isinstance(recv, list) and name in ('append', 'extend', 'pop', 'insert', 'remove', 'sort', 'reverse', 'clear'):
        M.note_list_mutation(I, recv)
    if isinstance(recv, list):
        if name == 'pop' and args and isinstance(args[0], SInt):
            n = len(recv)
            for k in range(-n, n):
                if I.path.branch(args[0].t == k):
                    return recv.pop(k)
            I.raise_py(IndexError, "pop index out of range")
        if name == 'append':
            recv.append(args[0])
            return None
        if name == 'extend':
            a = I.resolve_opt(args[0])
            recv.extend(I.iterate_concrete(a))
            return None
        if name == 'pop':
            try:
                return recv.pop(*args)
            except IndexError as e:
                I.raise_py(IndexError, *e.args)
        if name == 'insert':
            I.path.event('list.insert', id(recv), args[0], args[1], len(recv))
            if isinstance(args[0], SInt):
                n = len(recv)
                for k in range(-n - 1, n + 2):
                    if I.path.branch(args[0].t == k):
                        recv.insert(k, args[1])
                        return None
                recv.insert(n if I.path.branch(args[0].t > 0) else 0, args[1])
                return None
            recv.insert(args[0], args[1])
            return None
        if name in ('count', 'index', 'remove'):
            hits = []
            for i, x in enumerate(recv):
                r = equals(I, x, args[0])
                if I.cond(r):
                    hits.append(i)
                    if name != 'count':
                        break
            if name == 'count':
                return len(hits)
            if not hits:
                I.raise_py(ValueError, "x not in list")
            if name == 'index':
                return hits[0]
            del recv[hits[0]]
            return None
        if name == 'sort':
            r = m_sorted(I, [recv], kw)
            recv[:] = r
            return None
        if name == 'reverse':
            recv.reverse()
            return None
        if name == 'copy':
            return list(recv)
        if name == 'clear':
            del recv[:]
            return None
    if isinstance(recv, dict):
        if name == 'get':
            k = I.resolve_opt(args[0])
            dflt = args[1] if len(args) > 1 else None
            if (is_symbolic(k) and not isinstance(k, Obj)) or M.dict_has_symkeys(recv):
                kk = M.dict_find(I, recv, k)
                return recv[kk] if kk is not None else dflt
            try:
                return recv.get(k, dflt)
            except TypeError as e:
                I.raise_py(TypeError, *e.args)
        if name == 'keys':
            from .sym import unkey
            return [unkey(k) for k in recv.keys()]
        if name == 'values':
            return list(recv.values())
        if name == 'items':
            from .sym import unkey
            return [(unkey(k), v) for k, v in recv.items()]
        if name == 'update':
            from .sym import SDict as _SD
            if any(isinstance(I.resolve_opt(a), _SD) for a in args):
                # bulk update of a concrete dictionary from one with unknown content: recorded; the
                # concrete dictionary cannot take unknown content in place
                I.path.event('dict.update', id(recv), 'dict', args[0], [])
                raise OutOfFragment("dict.update(<dictionary with unknown content>) on a concrete dictionary")
            for a in args:
                a = I.resolve_opt(a)
                if isinstance(a, dict):
                    recv.update(a)
                else:
                    for k, x in I.iterate_concrete(a):
                        recv[I.hashable(k)] = x
            recv.update(kw)
            return None
        if name == 'pop':
            k = I.hashable(args[0])
            if k in recv:
                return recv.pop(k)
            if len(args) > 1:
                return args[1]
            I.raise_py(KeyError, k)
        if name == 'setdefault':
            return recv.setdefault(I.hashable(args[0]), args[1] if len(args) > 1 else None)
        if name == 'copy':
            return dict(recv)
        if name == 'clear':
            recv.clear()
            return None
    if isinstance(recv, set):
        if name == 'add':
            recv.add(I.hashable(args[0]))
            return None
        if name in ('discard', 'remove'):
            try:
                getattr(recv, name)(I.hashable(args[0]))
            except KeyError as e:
                I.raise_py(KeyError, *e.args)
            return None
    if isinstance(recv, MB):
        if name == 'append':
            x = args[0]
            if isinstance(x, SInt):
                ok = z3.And(x.t >= 0, x.t <= 255)
                if not I.path.is_valid(ok) and not I.path.branch(ok):
                    I.raise_py(ValueError, "byte must be in range(0, 256)")
                recv.v = seq_lower(SSeq('bytes', seq_of(recv.v).chunks + [('u', [x.t])]))
            else:
                if not isinstance(x, int) or not 0 <= x <= 255:
                    I.raise_py(ValueError, "byte must be in range(0, 256)")
                recv.v = seq_concat(recv.v, bytes([x]))
            return None
        if name == 'extend':
            recv.v = seq_concat(recv.v, I.resolve_opt(args[0]))
            return None
        raise OutOfFragment("bytearray.%s" % name)
    if isinstance(recv, SL):
        if name == 'append':
            if getattr(recv, 'accumulator', False):
                I.path.event('list.append', id(recv), args[0])
                return None
            raise OutOfFragment("append to symbolic list")
        raise OutOfFragment("SList.%s" % name)
    if allconc:
        try:
            return getattr(recv, name)(*args, **kw)
        except Exception as e:
            I.raise_py(type(e), *e.args)
    # --- str / bytes with symbolic parts
    if isinstance(recv, (str, SSeq, bytes)):
        kind = seq_of(recv).kind if not isinstance(recv, Opaque) else recv.pykind
        if name == 'format':
            return M.format_opaque(I, recv, tuple(args), kw)
        if name == 'encode' and kind == 'str' and (not args or args[0] in ('utf-8', 'utf8')) and \
                any(c[0] == 's' and c[2][1] > 127 for c in seq_of(recv).chunks):
            # text of unknown length that may hold non-ASCII characters (UTF-8): either every
            # character is ASCII and the bytes are the code points, or some character is not and the
            # encoding is strictly longer than the text (at most four bytes per character)
            s = seq_of(recv)
            if I.path.choose(2, "utf8-all-ascii") == 0:
                chunks = []
                for c in s.chunks:
                    if c[0] == 'u':
                        for e in c[1]:
                            if isinstance(e, int):
                                if e >= 128:
                                    raise _pyvc().Infeasible()
                            else:
                                I.path.assume(e < 128)
                        chunks.append(c)
                    else:
                        chunks.append(('s', c[1], (c[2][0], min(c[2][1], 127))))
                return seq_lower(SSeq('bytes', chunks, s.taint))
            n = s.length()
            z = fresh("utf8", IntSeq)
            I.path.assume(z3.And(z3.Length(z) > n, z3.Length(z) <= 4 * n))
            return SSeq('bytes', [('s', z)], s.taint)
        if name == 'encode' and kind == 'str':
            s = seq_of(recv)
            # utf-8/ascii encode of code points < 128 is the identity; others: out of fragment
            conj = []
            for c in s.chunks:
                if c[0] == 'u':
                    for e in c[1]:
                        if isinstance(e, int):
                            if e >= 128:
                                raise OutOfFragment("encode of non-ASCII text")
                        else:
                            conj.append(e < 128)
                elif s.bound[1] > 127:
                    raise OutOfFragment("encode of symbolic-length text")
            if conj:
                ok = z3.And(*conj) if len(conj) > 1 else conj[0]
                if not I.path.is_valid(ok) and not I.path.branch(ok):
                    # a single non-ASCII character encodes to 2..4 bytes
                    ln = fresh("enclen")
                    I.path.assume(z3.And(ln >= 2, ln <= 4 * len(conj)))
                    z = fresh("enc", IntSeq)
                    I.path.assume(z3.Length(z) == ln)
                    return SSeq('bytes', [('s', z)], s.taint)
            return seq_lower(SSeq('bytes', s.chunks, s.taint))
        if name == 'decode' and kind == 'bytes' and args and args[0] == 'ascii' and \
                any(c[0] == 's' and c[2][1] > 127 for c in seq_of(recv).chunks):
            # bytes of unknown length: either every byte is ASCII (the text has the same code points:
            # the chunks are carried over with their element range narrowed to 0..127) or some byte is
            # not and UnicodeDecodeError is raised
            s = seq_of(recv)
            if I.path.choose(2, "ascii-decodable") == 1:
                I.raise_py(UnicodeDecodeError, 'ascii', b'', 0, 1, 'ordinal not in range(128)')
            chunks = []
            for c in s.chunks:
                if c[0] == 'u':
                    for e in c[1]:
                        if isinstance(e, int):
                            if e >= 128:
                                raise _pyvc().Infeasible()
                        else:
                            I.path.assume(e < 128)
                    chunks.append(c)
                else:
                    chunks.append(('s', c[1], (c[2][0], min(c[2][1], 127))))
            return seq_lower(SSeq('str', chunks, s.taint))
        if name == 'decode' and kind == 'bytes':
            s = seq_of(recv)
            conj = []
            for c in s.chunks:
                if c[0] == 'u':
                    for e in c[1]:
                        if isinstance(e, int):
                            if e >= 128:
                                raise OutOfFragment("decode of concrete non-ASCII bytes")
                        else:
                            conj.append(e < 128)
                elif s.bound[1] > 127:
                    raise OutOfFragment("decode of symbolic-length bytes")
            if conj:
                ok = z3.And(*conj) if len(conj) > 1 else conj[0]
                if not I.path.is_valid(ok) and not I.path.branch(ok):
                    if len(conj) == 1:
                        I.raise_py(UnicodeDecodeError, 'utf-8', b'', 0, 1, 'invalid start byte')
                    raise OutOfFragment("decode of several possibly non-ASCII bytes")
            return seq_lower(SSeq('str', s.chunks, s.taint))
        if name in ('upper', 'lower', 'strip', 'lstrip', 'rstrip', 'replace', 'capitalize', 'title',
                    'join', 'hex'):
            return Opaque(kind, 'str.' + name, taint_of(recv) | taint_of(list(args)))
        if name in ('startswith', 'endswith', 'isdigit', 'isalpha'):
            # uninterpreted predicate of (receiver, arguments): same question, same answer
            kid = (name, key_identity(I, recv)[0]) + tuple(key_identity(I, a)[0] for a in args)
            memo = I.path.ghost.setdefault('strpred', {})
            if kid not in memo:
                memo[kid] = SBool(fresh(name, z3.BoolSort()))
            return memo[kid]
        if name in ('split', 'rsplit', 'splitlines'):
            return Opaque('list', 'str.' + name, taint_of(recv))
        if name in ('find', 'rfind', 'index', 'count'):
            return Opaque('int', 'str.' + name, taint_of(recv))
    if isinstance(recv, (SInt, SBool)):
        if name == 'bit_length':
            return Opaque('int', 'bit_length', taint_of(recv))
        if name == 'to_bytes':
            n = args[0]
            if isinstance(n, int):
                t = int_term(recv)
                ok = z3.And(t >= 0, t < 256 ** n)
                if not I.path.is_valid(ok) and not I.path.branch(ok):
                    I.raise_py(OverflowError, "int too big to convert")
                return SSeq('bytes', [('u', be_chunks(n, t))], taint_of(recv))
    raise OutOfFragment("method %s on %s" % (name, type(recv).__name__))


def _native_method_model(I, args, kw):
    raise OutOfFragment("unreachable")


# hook: BoundMethod(v, _NativeMethod) is dispatched here from call_value via lookup_model
_orig_lookup = M.lookup_model


def lookup_model(f):
    if getattr(f, '_pyvc_model', False):
        return f
    if isinstance(f, _NativeMethod):
        name = f.__name__
        return lambda I, args, kw: native_method_call(I, name, args[0], args[1:], kw)
    return _orig_lookup(f)


M.lookup_model = lookup_model


@model_for(_time.gmtime, _time.localtime)
def m_gmtime(I, args, kw):
    """time.gmtime / localtime(seconds): the C library refuses time stamps whose year does not fit
    (OverflowError / OSError); modelled as: outside [-2**55, 2**55] the call raises OverflowError."""
    if args:
        v = I.resolve_opt(args[0])
        iv = v.fields.get('int_value') if isinstance(v, Opaque) else v
        if isinstance(iv, SInt):
            ok = z3.And(iv.t >= -(2 ** 55), iv.t <= 2 ** 55)
            if not I.path.is_valid(ok) and not I.path.branch(ok):
                I.raise_py(OverflowError, "timestamp out of range for platform time_t")
        elif isinstance(iv, int) and not isinstance(iv, bool) and abs(iv) > 2 ** 55:
            I.raise_py(OverflowError, "timestamp out of range for platform time_t")
    return Opaque('object', 'struct_time', taint_of(list(args)))


@model_for(_time.strftime, _time.asctime, _time.ctime)
def m_strftime(I, args, kw):
    return Opaque('str', 'formatted-time', taint_of(list(args)), {'nonempty'})


import six as _six  # noqa: E402


@model_for(_six.iteritems)
def m_iteritems(I, args, kw):
    return I.call_value(I.getattr(args[0], 'items'), [], {})


@model_for(_six.iterkeys)
def m_iterkeys(I, args, kw):
    return I.call_value(I.getattr(args[0], 'keys'), [], {})


@model_for(_six.itervalues)
def m_itervalues(I, args, kw):
    return I.call_value(I.getattr(args[0], 'values'), [], {})
