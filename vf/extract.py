"""Mechanical extraction of the functions under contract from the real source.

Every run re-reads the files of the tree given by --repo (default /repo), parses
them with `ast`, and selects FunctionDef nodes by qualified name.  What is
dropped, and only this: comments, blank lines and docstrings (a leading string
expression statement of a function body).  The extractor also imports the live
module from the same tree and checks that the live function's code object was
compiled from the same file and first line (guards against stale bytecode or
sys.path confusion); the sha256 of the source segment goes into the evidence.
"""
import ast
import hashlib
import importlib
import inspect
import os
import sys

_REPO = [None]
_file_cache = {}
_fn_cache = {}


def set_repo(path):
    path = os.path.abspath(path)
    _REPO[0] = path
    if path in sys.path:
        sys.path.remove(path)
    sys.path.insert(0, path)
    # drop any kmip modules imported from elsewhere
    for m in list(sys.modules):
        if m == 'kmip' or m.startswith('kmip.'):
            f = getattr(sys.modules[m], '__file__', '') or ''
            if not f.startswith(path + os.sep):
                del sys.modules[m]
    sys.dont_write_bytecode = True


def repo():
    return _REPO[0]


class FunctionNotFound(Exception):
    pass


class Extracted(object):
    def __init__(self, qualname, module, node, source, filename, cls):
        self.qualname = qualname          # 'kmip.core.utils.BytearrayStream.read'
        self.module = module              # live module object
        self.node = node                  # ast.FunctionDef
        self.source = source
        self.filename = filename
        self.cls = cls                    # live class or None
        self.sha256 = hashlib.sha256(source.encode()).hexdigest()
        self.name = node.name

    def body(self):
        b = self.node.body
        if b and isinstance(b[0], ast.Expr) and isinstance(
                getattr(b[0], 'value', None), ast.Constant) and isinstance(
                b[0].value.value, str):
            return b[1:] or [ast.Pass()]
        return b


def _parse(filename):
    if filename not in _file_cache:
        with open(filename, 'r') as f:
            src = f.read()
        tree = ast.parse(src, filename)
        _file_cache[filename] = (src, tree)
    return _file_cache[filename]


def _find(tree, path, lineno=None):
    """path: ['Class', 'Inner', 'func'] -> node (last def wins, like Python; with lineno the
    def that starts there - property getter/setter pairs share one name)."""
    body = tree.body
    node = None
    for i, name in enumerate(path):
        found = None
        for n in body:
            if isinstance(n, (ast.FunctionDef, ast.ClassDef)) and n.name == name:
                if lineno is not None and i == len(path) - 1 and isinstance(n, ast.FunctionDef):
                    first = min([n.lineno] + [d.lineno for d in n.decorator_list])
                    if lineno not in (first, n.lineno):
                        continue
                found = n
            elif isinstance(n, (ast.If, ast.Try)):
                for sub in ast.walk(n):
                    if isinstance(sub, (ast.FunctionDef, ast.ClassDef)) \
                            and sub.name == name and found is None:
                        found = sub
        if found is None:
            return None
        node = found
        body = found.body
    return node


def by_qualname(qualname, lineno=None, live_fn=None):
    """'pkg.mod.Class.func' -> Extracted.  Module boundary is found by import."""
    ckey = (qualname, lineno)
    if ckey in _fn_cache:
        return _fn_cache[ckey]
    parts = qualname.split('.')
    mod = None
    for i in range(len(parts) - 1, 0, -1):
        try:
            mod = importlib.import_module('.'.join(parts[:i]))
            rest = parts[i:]
            break
        except ImportError:
            continue
    if mod is None:
        raise FunctionNotFound(qualname)
    filename = inspect.getsourcefile(mod)
    if _REPO[0] and filename.startswith('/') and 'kmip' in parts[0:1] \
            and not os.path.abspath(filename).startswith(_REPO[0] + os.sep):
        raise RuntimeError("module %s imported from %s, not from repo %s"
                           % (mod.__name__, filename, _REPO[0]))
    src, tree = _parse(filename)
    node = _find(tree, rest, lineno)
    if node is None or not isinstance(node, ast.FunctionDef):
        raise FunctionNotFound(qualname)
    seg = ast.get_source_segment(src, node) or ''
    cls = None
    obj = mod
    if live_fn is not None:
        # the live object is given (closure / decorator wrapper): only find the enclosing class
        o = mod
        for name in rest[:-1]:
            o = getattr(o, name, None)
            if inspect.isclass(o):
                cls = o
            else:
                break
        live = live_fn
    else:
        try:
            nested_in_function = False
            for name in rest[:-1]:
                if inspect.isfunction(obj) or isinstance(obj, (staticmethod, classmethod)):
                    nested_in_function = True
                    break
                if inspect.isclass(obj):
                    cls = obj
                obj = inspect.getattr_static(obj, name) if inspect.isclass(obj) else getattr(obj, name)
            if inspect.isfunction(obj) and rest[:-1]:
                nested_in_function = True
            if nested_in_function:
                # a def nested in a function has no live object before the outer function runs:
                # the extracted node is all there is (closures are checked through live cells)
                ex = Extracted(qualname, mod, node, seg, filename, cls)
                _fn_cache[ckey] = ex
                return ex
            cls = obj if inspect.isclass(obj) else None
            lname = rest[-1]
            if lname.startswith('__') and not lname.endswith('__') and cls is not None:
                lname = '_%s%s' % (cls.__name__.lstrip('_'), lname)
            live = inspect.getattr_static(obj, lname)
        except AttributeError:
            raise FunctionNotFound(qualname)
    live = _unwrap(live) if live_fn is None else live_fn
    code = getattr(live, '__code__', None)
    if code is not None and getattr(live, '__name__', None) == node.name:
        # same file and same line => the text we verify is the code that runs
        # (decorated functions keep their own code object inside the wrapper)
        if os.path.abspath(code.co_filename) != os.path.abspath(filename):
            raise RuntimeError("live %s comes from %s" % (qualname, code.co_filename))
        first = node.lineno if not node.decorator_list else min(
            d.lineno for d in node.decorator_list)
        if code.co_firstlineno not in (first, node.lineno):
            raise RuntimeError("live %s at line %d, extracted at %d"
                               % (qualname, code.co_firstlineno, first))
    ex = Extracted(qualname, mod, node, seg, filename, cls)
    _fn_cache[ckey] = ex
    return ex


def _unwrap(f):
    if isinstance(f, (staticmethod, classmethod)):
        f = f.__func__
    if isinstance(f, property):
        f = f.fget
    return f


def of_function(fn):
    """Live function object -> Extracted (via its module and __qualname__)."""
    fn = _unwrap(fn)
    fn = getattr(fn, '__func__', fn)
    w = getattr(fn, '__wrapped__', None)
    mod = getattr(fn, '__module__', None)
    qn = getattr(fn, '__qualname__', None)
    if mod is None or qn is None:
        raise FunctionNotFound(repr(fn))
    if '<locals>' in qn:
        # nested def (decorator wrapper): located by its path through the enclosing defs
        qn = '.'.join(p for p in qn.split('.') if p != '<locals>')
    code = getattr(fn, '__code__', None)
    return by_qualname(mod + '.' + qn, code.co_firstlineno if code is not None else None, fn)


def qualname_of(fn):
    fn = _unwrap(fn)
    fn = getattr(fn, '__func__', fn)
    return "%s.%s" % (getattr(fn, '__module__', '?'), getattr(fn, '__qualname__', '?'))


def module_source(modname):
    mod = importlib.import_module(modname)
    filename = inspect.getsourcefile(mod)
    return _parse(filename) + (mod,)
