"""Verification framework for PyKMIP: contract-based deductive verification.

pyvc     - symbolic executor / VC generator over the ast of the real functions
ttlvsym  - parametric executor for TTLV structure classes
"""
