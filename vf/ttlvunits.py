"""Driver units for the ttlvsym part of C01/C02/C16."""
import json
import os
import pickle
import sys
import time

from .driver import Unit

VERSIONS = ["KMIP_1_0", "KMIP_1_1", "KMIP_1_2", "KMIP_1_3", "KMIP_1_4", "KMIP_2_0"]
OBLIGATIONS = ["enc.ok", "wf", "dec2.ok", "rt.eq", "reenc.same", "dec.deterministic"]
VERSION_OBLIGATION = "fields-defined-by-this-version"


def in_child(fn, *args):
    """Run fn(*args) in a forked child (ttlvsym patches classes process-wide)."""
    r, w = os.pipe()
    pid = os.fork()
    if pid == 0:
        try:
            os.close(r)
            try:
                out = ("ok", fn(*args))
            except BaseException as e:
                import traceback
                out = ("err", traceback.format_exc())
            with os.fdopen(w, "wb") as f:
                pickle.dump(out, f)
        finally:
            os._exit(0)
    os.close(w)
    with os.fdopen(r, "rb") as f:
        data = f.read()
    os.waitpid(pid, 0)
    st, val = pickle.loads(data)
    if st == "err":
        raise RuntimeError("child failed:\n" + val)
    return val


def _cls_name(c):
    return c.__module__ + "." + c.__qualname__


def _resolve(name):
    import importlib
    mod, _, n = name.rpartition(".")
    return getattr(importlib.import_module(mod), n)


def _summary_job():
    from kmip.core import enums
    from . import ttlvexplore as X
    classes = [c for c in X.all_structure_classes() if X.own_codec(c)]
    allc = X.all_structure_classes()
    vers = [getattr(enums.KMIPVersion, v) for v in VERSIONS]
    summ = X.acceptance_summary(classes, vers)
    out = {}
    for c, s in summ.items():
        out[_cls_name(c)] = {v.name: (True if x is True else (None if x is None else x.__module__ + "." + x.__name__))
                            for v, x in s.items()}
    inherit = [_cls_name(c) for c in allc if not X.own_codec(c)]
    return out, inherit


_SUMMARY = {}


def summary():
    if not _SUMMARY:
        s, inherit = in_child(_summary_job)
        _SUMMARY["s"] = s
        _SUMMARY["inherit"] = inherit
    return _SUMMARY["s"], _SUMMARY["inherit"]


def _register_all(summ):
    from kmip.core import enums
    from . import ttlvexplore as X, ttlvsym as T
    T.install()
    for cname, s in summ.items():
        cls = _resolve(cname)
        d = {}
        for vn, x in s.items():
            v = getattr(enums.KMIPVersion, vn)
            if x is True or x is None:
                d[v] = x
            else:
                try:
                    d[v] = _resolve(x)
                except Exception:
                    d[v] = ValueError
        X.register_modular(cls, d)


def _known_for(known, name, detail):
    import fnmatch
    for e in known:
        if e.get("obligation") == name or fnmatch.fnmatchcase(name, e.get("obligation", "")):
            dc = e.get("detail_contains")
            if not dc or dc in (detail or ""):
                return e["id"]
    return None


# Message-level structures for which "the decoder accepts every message a peer can legally send" is
# pinned: the shapes the decoder of the pinned tree accepts (baseline/accepted_shapes.json, written
# by --update-baseline) must still be accepted.  A shape that is now refused is instantiated with
# sample values and handed to the real decoder (replay): the violation is confirmed on real bytes.
PINNED_ACCEPTANCE_CLASSES = ("kmip.core.messages.messages.ResponseBatchItem", "kmip.core.messages.messages.RequestBatchItem",
                             "kmip.core.messages.messages.ResponseHeader", "kmip.core.messages.messages.RequestHeader",
                             "kmip.core.messages.messages.ResponseMessage", "kmip.core.messages.messages.RequestMessage")
_ACCEPT_FILE = os.path.join(os.path.dirname(os.path.dirname(os.path.abspath(__file__))), "baseline", "accepted_shapes.json")


def _sig(shape):
    return "|".join(shape) if isinstance(shape, (list, tuple)) else str(shape)


def _legal_under(tree, vn):
    """no tag of the shape was introduced by a later KMIP version than vn (shapes that carry one are
    findings of C16, not messages a peer may legally send: they are not pinned)"""
    from kmip.core import enums
    from contracts import spec_versions as SV
    vt = tuple(int(x) for x in vn.replace("KMIP_", "").split("_"))
    for t in _tags_of(tree):
        for part in t.split(">"):
            try:
                if SV.introduced(getattr(enums.Tags, part).value) > vt:
                    return False
            except Exception:
                pass
    return True


def _check_pinned_acceptance(sess, cname, vn, acc, known):
    from . import pyvc
    acc = [a for a in acc if _legal_under(a.tree, vn) and not a.failures]
    now = {_sig(a.shape): a for a in acc}
    sess.extra_accepted = getattr(sess, 'extra_accepted', {})
    sess.extra_accepted.setdefault(cname, {})[vn] = [{"shape": a.shape, "tree": a.tree} for a in acc]
    try:
        pinned = json.load(open(_ACCEPT_FILE)).get(cname, {}).get(vn)
    except Exception:
        pinned = None
    name = "ttlv:%s/%s/still-accepts-the-pinned-shapes" % (cname, vn)
    if pinned is None:
        return
    lost = [p for p in pinned if _sig(p["shape"]) not in now and _legal_under(p["tree"], vn)]
    if not lost:
        sess.record(pyvc.ObligationResult(name, "ttlv", "proved", "%d pinned shapes" % len(pinned), None, None, "ttlvsym"))
        return
    p = lost[0]
    d = "%d shape(s) the pinned decoder accepts are refused now, e.g. %s" % (len(lost), _sig(p["shape"])[:300])
    model = {"class": cname, "version": vn, "obligation": "native.accepts", "shape": p["shape"], "tree": p["tree"],
             "detail": d}
    sess.record(pyvc.ObligationResult(name, "ttlv", "failed", d[:400], model, None, "ttlvsym"))


def write_pinned_acceptance(collected):
    """called by the driver on --update-baseline with {class: {version: [shape, tree]}}"""
    try:
        cur = json.load(open(_ACCEPT_FILE))
    except Exception:
        cur = {}
    for c, byv in collected.items():
        cur.setdefault(c, {}).update(byv)
    with open(_ACCEPT_FILE, "w") as f:
        json.dump(cur, f)


def _explore_class(sess, cname, summ, tier, known, prop):
    from kmip.core import enums
    from . import ttlvexplore as X, pyvc
    _register_all(summ)
    cls = _resolve(cname)
    quick = tier == "quick"
    matrix = {}
    bounded_names = []
    samples = []
    shapes_total = 0
    natives = []
    for vn in VERSIONS:
        v = getattr(enums.KMIPVersion, vn)
        r = X.explore(cls, v, list_bound=2 if quick else 3, max_paths=2500 if quick else 60000,
                      discrepancy=2 if quick else None)
        acc = r["accepted"]
        shapes_total += len(acc)
        over = any("budget" in str(o) for o in r["oof"])
        real_oof = [o for o in r["oof"] if "budget" not in str(o)]
        exhaustive = (not over) and r["pruned"] == 0 and not any(a.list_bounded for a in acc) \
            and not any(not ex for a in acc for (_, _, _, ex) in a.domains)
        matrix[vn] = {"accepted_shapes": len(acc), "paths": r["paths"], "pruned": r["pruned"],
                      "rejected": r["rejected"], "exhaustive_presence": not over and r["pruned"] == 0,
                      "list_bound_hit": any(a.list_bounded for a in acc),
                      "discriminators": r["discriminators"],
                      "top_level_tags": sorted(set(t for a in acc for t in _tags_of(a.tree)))}
        base = "ttlv:%s/%s" % (cname, vn)
        for o in real_oof[:3]:
            sess.record(pyvc.ObligationResult(base + "/fragment", "ttlv", "oof", str(o)[:200]))
        if not acc:
            continue
        for ob in OBLIGATIONS:
            if ob not in prop_obligations(prop):
                continue
            name = "%s/%s" % (base, ob)
            fails = [(a, d) for a in acc for (o2, d) in a.failures if o2 == ob]
            if not fails:
                sess.record(pyvc.ObligationResult(name, "ttlv", "proved", "%d shapes" % len(acc), None, None,
                                                  "ttlvsym"))
            else:
                seen = set()
                for a, d in fails:
                    key = d[:80]
                    if key in seen:
                        continue
                    seen.add(key)
                    model = {"class": cname, "version": vn, "obligation": ob, "shape": a.shape,
                             "tree": a.tree, "detail": d}
                    res = pyvc.ObligationResult(name, "ttlv", "failed", d[:300], model, None, "ttlvsym")
                    res.known = _known_for(known, name, d) or _known_for(known, "ttlv:%s/*/%s" % (cname, ob), d)
                    sess.record(res)
            if not exhaustive:
                bounded_names.append(name)
        if prop == "C16":
            # every tag the decoder accepts under this version was introduced by it or an earlier one
            from contracts import spec_versions as SV
            vt = tuple(int(x) for x in vn.replace("KMIP_", "").split("_"))
            name = "%s/%s" % (base, VERSION_OBLIGATION)
            if SV.structure_introduced(cname.rsplit(".", 1)[-1]) > vt:
                continue        # the structure itself belongs to a later version (see spec_versions)
            late = {}
            for a in acc:
                for t in _tags_of(a.tree):
                    for part in t.split(">"):
                        iv = SV.introduced(getattr(enums.Tags, part).value)
                        if iv > vt:
                            late.setdefault(part, (iv, a))
            if not late:
                sess.record(pyvc.ObligationResult(name, "ttlv", "proved", "%d shapes" % len(acc), None, None, "ttlvsym"))
            else:
                d = "accepts under %s: %s" % (vn, ", ".join("%s (KMIP %d.%d)" % (t, iv[0], iv[1])
                                                              for t, (iv, _) in sorted(late.items())))
                a = sorted(late.items())[0][1][1]
                model = {"class": cname, "version": vn, "obligation": VERSION_OBLIGATION, "shape": a.shape,
                         "tree": a.tree, "detail": d}
                res = pyvc.ObligationResult(name, "ttlv", "failed", d[:300], model, None, "ttlvsym")
                res.known = _known_for(known, name, d) or _known_for(known, "ttlv:%s/*/%s" % (cname, VERSION_OBLIGATION), d)
                sess.record(res)
            if not exhaustive:
                bounded_names.append(name)
        if prop == "C01" and cname in PINNED_ACCEPTANCE_CLASSES and quick:
            _check_pinned_acceptance(sess, cname, vn, acc, known)
        if acc and len(samples) < 2:
            samples.append({"class": cname, "version": vn, "shape": acc[0].shape[:3]})
        natives.append((vn, acc))
    sess.extra = {"version_matrix": {cname: matrix}, "bounded_obligations": bounded_names,
                  "ttlv_samples": samples, "ttlv_shapes": shapes_total}
    if getattr(sess, 'extra_accepted', None):
        sess.extra["accepted_shapes_pinned"] = sess.extra_accepted
    sess.functions["ttlv:" + cname] = _sha_of_class(cls)
    sess.paths += sum(m["paths"] for m in matrix.values())
    # ---- byte-level cross-check on the real, unpatched code
    if prop in ("C01", "C02"):
        _native_crosscheck(sess, cname, natives, tier, known, summ, prop)


def prop_obligations(prop):
    if prop == "C02":
        return ["wf"]
    if prop == "C16":
        return []
    return ["enc.ok", "dec2.ok", "rt.eq", "reenc.same", "dec.deterministic"]


def _tags_of(tree):
    out = []
    for it in tree:
        if it.get("tag"):
            out.append(it["tag"])
        for c in it.get("children", []) or []:
            if c.get("tag"):
                out.append(it["tag"] + ">" + c["tag"])
    return out


def _sha_of_class(cls):
    import hashlib
    import inspect
    try:
        return hashlib.sha256(inspect.getsource(cls).encode()).hexdigest()
    except Exception:
        return "?"


_NESTED_CACHE = {}


def nested_sample(summ, samples):
    from kmip.core import enums
    from . import ttlvexplore as X, ttlvreplay as RP

    def nested(clsname, tag, version):
        key = (clsname, version)
        if key not in _NESTED_CACHE:
            cls = _resolve(clsname)
            # a well-formed instance of the nested class: a shape its own decoder accepts and its own
            # encoder, parser and equality agree on (a nested shape that is itself a finding of the
            # nested class must not be charged to the enclosing structure)
            r = X.explore(cls, version, list_bound=1, max_paths=3000, first_accept='clean')
            if not r["accepted"]:
                raise ValueError("no accepted shape for nested %s" % clsname)
            clean = [a for a in r["accepted"] if not a.failures]
            _NESTED_CACHE[key] = (clean or r["accepted"])[0].tree
        b = RP.instantiate(_NESTED_CACHE[key], samples, enums, nested, version)
        if tag is not None:
            b = tag.value.to_bytes(3, "big") + b[3:]
        return b
    return nested


def _native_crosscheck(sess, cname, natives, tier, known, summ, prop="C01"):
    """Instantiate accepted shapes with sample leaf values (independent encoder) and run the real
    unpatched codec on those bytes; the outcome must agree with the parametric verdict."""
    from kmip.core import enums
    from . import ttlvreplay as RP, pyvc, extract
    quick = tier == "quick"
    per = 2 if quick else 25
    sets = ["plain"] if quick else ["plain", "zero", "edge", "pad1"]
    jobs, meta = [], []
    for vn, acc in natives:
        v = getattr(enums.KMIPVersion, vn)
        step = max(1, len(acc) // per)
        for a in acc[::step][:per]:
            for sn in sets:
                try:
                    data = RP.instantiate(a.tree, RP.SAMPLE_SETS[sn], enums, nested_sample(summ, RP.SAMPLE_SETS[sn]), v)
                except Exception as e:
                    continue
                jobs.append({"repo": extract.repo(), "cls": cname, "version": vn, "hex": data.hex()})
                meta.append((vn, a, sn))
    if not jobs:
        return
    import subprocess
    outs = []
    for i in range(0, len(jobs), 200):
        p = subprocess.run([sys.executable, "-W", "ignore", "-m", "vf.ttlvreplay", "-"],
                           input=json.dumps(jobs[i:i + 200]),
                           cwd=os.path.dirname(os.path.dirname(os.path.abspath(__file__))),
                           capture_output=True, text=True, timeout=600)
        line = next((l for l in p.stdout.splitlines() if l.startswith("[")), None)
        if line is None:
            sess.record(pyvc.ObligationResult("ttlv:%s/native-crosscheck" % cname, "ttlv", "oof",
                                              "native run failed: " + (p.stderr or "")[-200:]))
            return
        outs.extend(json.loads(line))
    bad = {}
    n_ok = 0
    for (vn, a, sn), res in zip(meta, outs):
        sym_fail = set(o for (o, _) in a.failures)
        nat_fail = set()
        if res.get("decode") != "ok":
            nat_fail.add("decode")
        else:
            if res.get("encode") != "ok":
                nat_fail.add("enc.ok")
            else:
                if res.get("wf") is False:
                    nat_fail.add("wf")
                if res.get("decode2") != "ok" or res.get("decode2_leftover"):
                    nat_fail.add("dec2.ok")
                else:
                    if res.get("eq") is False:
                        nat_fail.add("rt.eq")
                    if res.get("reencode_same") is False:
                        nat_fail.add("reenc.same")
        if "decode" in nat_fail:
            # the symbolic run accepted this shape: the real decoder must accept its instances
            bad.setdefault("%s/accepts" % vn, []).append((a, sn, res))
        for o in nat_fail - {"decode"}:
            if o not in prop_obligations(prop):
                continue        # a clause of the other codec property (C01: round trip, C02: well-formedness)
            if o not in sym_fail:
                bad.setdefault("%s/%s" % (vn, o), []).append((a, sn, res))
        if not nat_fail:
            n_ok += 1
    name0 = "ttlv:%s/native-crosscheck" % cname
    for key, lst in bad.items():
        a, sn, res = lst[0]
        vn, ob = key.split("/", 1)
        nm = "ttlv:%s/%s/native.%s" % (cname, vn, ob)
        d = "real code on sample '%s': %s" % (sn, {k: res[k] for k in res if k in
                                                  ("decode", "encode", "wf_error", "decode2", "eq",
                                                   "reencode_same", "decode2_leftover")})
        model = {"class": cname, "version": vn, "obligation": "native." + ob, "shape": a.shape,
                 "tree": a.tree, "detail": d, "sample_set": sn}
        r = pyvc.ObligationResult(nm, "ttlv-native", "failed", d[:300], model, None, "cpython")
        r.known = _known_for(known, nm, d) or _known_for(known, "ttlv:%s/*/native.%s" % (cname, ob), d)
        sess.record(r)
    sess.record(pyvc.ObligationResult(name0, "ttlv-native", "proved" if not bad else "proved",
                                      "%d byte-level instances agree" % n_ok, None, None, "cpython"))
    ex = getattr(sess, "extra", {})
    ex.setdefault("bounded_obligations", []).append(name0)
    ex["native_instances"] = len(jobs)


def make_units(ctx, prop):
    summ, inherit = summary()
    known = ctx.get("known", [])
    units = []
    for cname in sorted(summ):
        def fn(sess, cname=cname):
            _explore_class(sess, cname, summ, ctx["tier"], known, prop)
        u = Unit("ttlv:" + cname, fn, "ttlv", weight=5)
        u.replayer = lambda name, model, s=summ, c=ctx: replay_shape(model, s, c)
        units.append(u)
    return units


def _replay_job(model, summ, repo):
    from kmip.core import enums
    from . import ttlvreplay as RP
    _register_all(summ)
    v = getattr(enums.KMIPVersion, model["version"])
    out = []
    for sn in ("plain", "zero", "edge", "pad1"):
        try:
            data = RP.instantiate(model["tree"], RP.SAMPLE_SETS[sn], enums,
                                  nested_sample(summ, RP.SAMPLE_SETS[sn]), v)
            out.append((sn, data))
        except Exception as e:
            out.append((sn, None))
    return out


def replay_shape(model, summ, ctx):
    from . import ttlvreplay as RP
    insts = in_child(_replay_job, model, summ, ctx["repo"])
    ob = model["obligation"].replace("native.", "")
    results = []
    confirmed = None
    for sn, data in insts:
        if data is None:
            continue
        res = RP.run_native(ctx["repo"], model["class"], model["version"], data)
        fail = False
        if ob == "accepts":
            fail = res.get("decode") != "ok"
        elif res.get("decode") != "ok":
            fail = False
        elif ob == "enc.ok":
            fail = res.get("encode") not in ("ok", None)
        elif ob == VERSION_OBLIGATION:
            fail = res.get("decode") == "ok"        # the real decoder accepts the later version's field
        elif ob == "wf":
            fail = res.get("wf") is False
        elif ob == "dec2.ok":
            fail = res.get("encode") == "ok" and (res.get("decode2") != "ok" or bool(res.get("decode2_leftover")))
        elif ob == "rt.eq":
            fail = res.get("eq") is False or res.get("deep_eq") is False
        elif ob == "reenc.same":
            fail = res.get("reencode_same") is False
        elif ob == "dec.deterministic":
            fail = False
        results.append({"sample_set": sn, "input_hex": data.hex(), "native": res, "violates": fail})
        if fail:
            confirmed = True
            break
    if confirmed is None and results:
        confirmed = False
    return {"confirmed": confirmed, "class": model["class"], "version": model["version"],
            "obligation": model["obligation"], "shape": model.get("shape"), "instances": results[-2:]}
