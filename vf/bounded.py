"""Bounded stand-ins: functions whose bodies are outside what the solvers decide (string
manipulation of binary digits, third-party object graphs).  The REAL function runs natively on
an enumerated input space with a stated bound and is compared with the spec function.  These
obligations are labelled bounded and are never counted as proved."""
import importlib
import itertools

from . import pyvc
from .driver import Unit


def _record(sess, name, failures, n, bound):
    if failures:
        for f in failures[:3]:
            sess.record(pyvc.ObligationResult(name, "bounded", "failed", f[1], f[0], None, "cpython"))
    else:
        sess.record(pyvc.ObligationResult(name, "bounded", "proved", "%d inputs; bound: %s" % (n, bound),
                                          None, None, "cpython"))
    ex = getattr(sess, 'extra', None) or {}
    ex.setdefault('bounded_obligations', []).append(name)
    ex.setdefault('bounded_detail', {})[name] = {"inputs": n, "bound": bound}
    sess.extra = ex


def bigint_values(bits=18, kmax=64):
    vals = set(range(-(1 << bits), (1 << bits) + 1))
    for k in range(1, kmax + 1):
        for s in (1, -1):
            for d in (-1, 0, 1):
                vals.add(s * (1 << (8 * k)) + d)
                vals.add(s * (1 << (8 * k - 1)) + d)
    return sorted(vals)


def spec_enc_bigint(tag_value, v):
    n = 8
    while not (-(1 << (8 * n - 1)) <= v < (1 << (8 * n - 1))):
        n += 8
    return tag_value.to_bytes(3, 'big') + b'\x04' + n.to_bytes(4, 'big') + (v % (1 << (8 * n))).to_bytes(n, 'big')


def u_biginteger(sess, tier):
    from kmip.core import primitives, enums, utils
    bits = 14 if tier == 'quick' else 18
    vals = bigint_values(bits, 32 if tier == 'quick' else 64)
    fails = {"write": [], "read": [], "rt": [], "nonminimal": []}
    tag = enums.Tags.PRIME_FIELD_SIZE
    for v in vals:
        want = spec_enc_bigint(tag.value, v)
        try:
            s = utils.BytearrayStream()
            primitives.BigInteger(v, tag).write(s)
            got = bytes(s.buffer)
        except Exception as e:
            got = "%s: %s" % (type(e).__name__, e)
        own = got if isinstance(got, bytes) else want
        ok = False
        if isinstance(got, bytes) and got[:4] == want[:4] and len(got) >= 16:
            n = int.from_bytes(got[4:8], 'big')
            # KMIP 9.1: two's complement, big-endian, sign-extended to a multiple of 8 bytes.  One
            # redundant sign word (the writer always reserves a sign bit) is still a valid encoding.
            ok = (n == len(got) - 8 and n % 8 == 0 and n <= len(want) - 8 + 8
                  and int.from_bytes(got[8:], 'big', signed=True) == v)
        if not ok:
            fails["write"].append(({"value": v}, "BigInteger(%d).write gives %r, KMIP 9.1 encoding is %s"
                                   % (v, got if isinstance(got, str) else got.hex(), want.hex())))
            continue
        try:
            b = primitives.BigInteger(tag=tag)
            st = utils.BytearrayStream(want)
            b.read(st)
            b3 = primitives.BigInteger(tag=tag)
            b3.read(utils.BytearrayStream(own))
            if b3.value != v:
                fails["rt"].append(({"value": v}, "decode(encode(%d)) = %r" % (v, b3.value)))
            if b.value != v or len(st.buffer) != 0:
                fails["read"].append(({"value": v}, "decoding the encoding of %d yields %r" % (v, b.value)))
        except Exception as e:
            fails["read"].append(({"value": v}, "decoding the encoding of %d raises %s" % (v, type(e).__name__)))
    # non-minimal (sign-extended) encodings the decoder accepts: decode-encode-decode stable
    for v in vals[:: max(1, len(vals) // 4000)]:
        for extra in (8, 16):
            want = spec_enc_bigint(tag.value, v)
            n = int.from_bytes(want[4:8], 'big') + extra
            enc = want[:4] + n.to_bytes(4, 'big') + (v % (1 << (8 * n))).to_bytes(n, 'big')
            try:
                b = primitives.BigInteger(tag=tag)
                b.read(utils.BytearrayStream(enc))
                s = utils.BytearrayStream()
                b.write(s)
                b2 = primitives.BigInteger(tag=tag)
                b2.read(utils.BytearrayStream(bytes(s.buffer)))
                if b.value != v or b2.value != b.value:
                    fails["nonminimal"].append(({"value": v, "length": n}, "decode-encode-decode of a %d-byte "
                                                "encoding of %d gives %r then %r" % (n, v, b.value, b2.value)))
            except Exception as e:
                fails["nonminimal"].append(({"value": v, "length": n}, "raises %s" % type(e).__name__))
    bound = "all integers of bit length <= %d plus +-2^(8k)+{-1,0,1}, +-2^(8k-1)+{-1,0,1} for k <= %d" % (
        bits, 32 if tier == 'quick' else 64)
    P = "bounded:kmip.core.primitives.BigInteger"
    _record(sess, P + ".write/spec-encoding", fails["write"], len(vals), bound)
    _record(sess, P + ".read/inverse-of-spec-encoding", fails["read"], len(vals), bound)
    _record(sess, P + "/round-trip", fails["rt"], len(vals), bound)
    _record(sess, P + ".read/non-minimal-encodings-stable", fails["nonminimal"], len(vals) // 2, bound)
    sess.functions["kmip.core.primitives.BigInteger.write"] = "bounded"
    sess.functions["kmip.core.primitives.BigInteger.read"] = "bounded"


def u_bit_length(sess, tier):
    from kmip.core import utils
    top = 1 << (16 if tier == 'quick' else 18)
    vals = list(range(0, top)) + [(1 << k) + d for k in range(16, 81) for d in (-1, 0, 1)]
    fails = []
    for n in vals:
        r = utils.bit_length(n)
        ok = r >= 0 and ((r == 0) == (n == 0)) and ((r <= 32) == (n < 4294967296)) and r == n.bit_length()
        if not ok:
            fails.append(({"num": n}, "bit_length(%d) = %r" % (n, r)))
        c = utils.count_bytes(n)
        if not (c >= 1 and ((c <= 4) == (n < 4294967296))):
            fails.append(({"num": n}, "count_bytes(%d) = %r" % (n, c)))
    _record(sess, "bounded:kmip.core.utils.bit_length/contract", fails, len(vals),
            "0..%d plus 2^k+{-1,0,1} for 16 <= k <= 80" % top)


class _Attr(object):
    def __init__(self, value, oid="2.5.4.3"):
        self.value = value
        self.oid = oid


class _Subject(object):
    def __init__(self, names):
        self.names = names

    def get_attributes_for_oid(self, oid):
        return [_Attr(n) for n in self.names]


class _Cert(object):
    def __init__(self, names):
        self.subject = _Subject(names)


def u_common_names(sess, tier):
    """get_common_names_from_certificate returns every common name, in order, with
    multiplicity (so that 'exactly one common name' is decided on the real list)."""
    utils = importlib.import_module("kmip.services.server.auth.utils")
    alphabet = ["alice", "admin", "alice2"]
    fails = []
    n = 0
    for k in range(0, 4):
        for names in itertools.product(alphabet, repeat=k):
            n += 1
            try:
                got = utils.get_common_names_from_certificate(_Cert(list(names)))
            except Exception as e:
                got = "%s" % type(e).__name__
            if got != list(names):
                fails.append(({"common_names": list(names)}, "certificate with common names %r reported as %r"
                              % (list(names), got)))
    _record(sess, "bounded:kmip.services.server.auth.utils.get_common_names_from_certificate/all-names-in-order",
            fails, n, "0..3 common names over a 3-name alphabet (with repetitions)")


# ------------------------------------------------------------------ C18: the policy directory monitor
def u_policy_monitor(sess, tier):
    """The REAL PolicyDirectoryMonitor.scan_policies (and read_policy_from_file / parse_policy under
    it) is driven through every sequence of directory events up to a depth, a scan after each
    event, and compared after every scan with the abstract specification written from the property:
    every non-reserved name maps to its definition in the most recently loaded file that still
    defines it; a file that fails to load changes nothing; reserved names are never touched.
    Only the three file-system touch points (directory listing, mtime, open) are replaced by an
    in-memory directory.  Bound: see `bound` below."""
    import copy
    import io
    import json
    import logging
    import signal
    from unittest import mock
    from kmip.core import enums, policy as core_policy
    from kmip.services.server import monitor as MON

    files = ['a.json', 'b.json', 'c.json'][:2 if tier == 'quick' else 3]
    depth = 4
    D = {'d1': {'CERTIFICATE': {'LOCATE': 'ALLOW_ALL'}}, 'd2': {'CERTIFICATE': {'LOCATE': 'ALLOW_OWNER'}}}
    contents = [{'p': 'd1'}, {'p': 'd2'}, {'q': 'd1'}, {'p': 'd1', 'q': 'd2'}, {}, {'default': 'd2', 'p': 'd2'}]
    BAD = ['{ not json', json.dumps({'p': {'CERTIFICATE': {'NO_SUCH_OPERATION': 'ALLOW_ALL'}}}),
           json.dumps({'p': {'preset': D['d1'], 'bogus-section': {}}}),
           json.dumps({'p': {'CERTIFICATE': {'LOCATE': 'ALLOW_SOMETIMES'}}}),
           json.dumps({'p': {'NO_SUCH_TYPE': {'LOCATE': 'ALLOW_ALL'}}}),
           '[1, 2]', json.dumps({'p': 5}), json.dumps({'p': {'preset': 7}}),
           json.dumps({'p': {'CERTIFICATE': 'ALLOW_ALL'}})]
    events = [('write', f, i) for f in files for i in range(len(contents))] + \
             [('break', f, i) for f in files for i in (range(len(BAD)) if tier != 'quick' else (0, 2, 5, 6, 8))] + \
             [('remove', f, 0) for f in files]
    parsed = {k: core_policy.parse_policy(v) for k, v in D.items()}

    class FS(object):
        def __init__(self):
            self.text, self.mtime, self.clock = {}, {}, 1

    fs = FS()
    logging.getLogger("kmip.server.monitor").disabled = True

    def fake_open(path, mode='r'):
        return io.StringIO(fs.text[path])
    reserved = {'default': {'preset': parsed['d1']}, 'public': {'preset': parsed['d1']}}
    with mock.patch.object(MON, 'get_json_files', lambda d: sorted(fs.text)), \
            mock.patch.object(MON.os.path, 'getmtime', lambda f: fs.mtime[f]), \
            mock.patch.object(core_policy, 'open', fake_open, create=True), \
            mock.patch.object(signal, 'signal', lambda *a: None):
        store = dict(reserved)
        mon = MON.PolicyDirectoryMonitor('/policies', store, live_monitoring=False)

        def snap():
            return (copy.deepcopy((mon.file_timestamps, mon.policy_cache, mon.policy_files, mon.policy_map)),
                    dict(store), dict(fs.text), dict(fs.mtime), fs.clock)

        def restore(s):
            (ts, cache, pf, pm), st, tx, mt, ck = s
            ts, cache, pf, pm = copy.deepcopy((ts, cache, pf, pm))
            mon.file_timestamps, mon.policy_cache, mon.policy_files, mon.policy_map = ts, cache, pf, pm
            store.clear()
            store.update(st)
            fs.text, fs.mtime, fs.clock = dict(tx), dict(mt), ck

        failures = []
        counts = {'scans': 0, 'sequences': 0}

        def spec_step(spec, ev):
            """spec: file -> (load sequence, {name: definition key}); returns the new spec"""
            spec = dict(spec)
            kind, f, i = ev
            seq = 1 + max([s for s, _ in spec.values()] + [0])
            if kind == 'remove':
                spec.pop(f, None)
            elif kind == 'write':
                spec[f] = (seq, {n: d for n, d in contents[i].items() if n not in reserved})
            # 'break': the file fails to load and changes nothing (if it never loaded it defines nothing)
            return spec

        def in_force(spec):
            out = {}
            for f, (seq, defs) in spec.items():
                for n, d in defs.items():
                    if n not in out or out[n][0] < seq:
                        out[n] = (seq, d)
            return {n: {'preset': parsed[d]} for n, (s, d) in out.items()}

        def apply(ev):
            kind, f, i = ev
            path = f
            fs.clock += 1
            if kind == 'remove':
                fs.text.pop(path, None)
                fs.mtime.pop(path, None)
            elif kind == 'write':
                fs.text[path] = json.dumps({n: D[d] for n, d in contents[i].items()})
                fs.mtime[path] = fs.clock
            else:
                fs.text[path] = BAD[i]
                fs.mtime[path] = fs.clock

        def dfs(spec, trail, k, events=events):
            if k == 0 or len(failures) >= 3:
                return
            base = snap()
            for ev in events:
                if ev[0] == 'remove' and ev[1] not in fs.text:
                    continue
                apply(ev)
                err = None
                try:
                    mon.scan_policies()
                except Exception as e:
                    err = "scan_policies raised %s: %s" % (type(e).__name__, e)
                counts['scans'] += 1
                spec2 = spec_step(spec, ev)
                want = in_force(spec2)
                got = {n: v for n, v in store.items() if n not in reserved}
                if err is None and any(store.get(n) != reserved[n] for n in reserved):
                    err = "a reserved policy was replaced or removed"
                if err is None and got != want:
                    err = "policies in force %s, specified %s" % (
                        {n: ('ALLOW_ALL' if v == {'preset': parsed['d1']} else 'ALLOW_OWNER') for n, v in got.items()},
                        {n: ('ALLOW_ALL' if v == {'preset': parsed['d1']} else 'ALLOW_OWNER') for n, v in want.items()})
                if err is not None:
                    failures.append(({"events": [list(e) for e in trail + [ev]],
                                      "contents": contents, "bad": BAD}, err))
                else:
                    counts['sequences'] += 1
                    dfs(spec2, trail + [ev], k - 1, events)
                restore(base)
                if len(failures) >= 3:
                    return
        start = snap()
        dfs({}, [], depth)
        # second pass: longer histories over a smaller alphabet (two files shadowing each other back
        # and forth need five or six steps before a removal shows a stale definition)
        restore(start)
        deep_files = files[:2]
        deep_contents = (0, 1) if tier == 'quick' else (0, 1, 2)
        deep_events = [('write', f, i) for f in deep_files for i in deep_contents] + [('remove', f, 0) for f in deep_files]
        deep_depth = 6
        if not failures:
            dfs({}, [], deep_depth, deep_events)
    bound = ("%d files, %d events, every sequence of depth <= %d with a scan after each event; then %d files, %d "
             "events (writes of %d contents, removals), every sequence of depth <= %d" % (
                 len(files), len(events), depth, len(deep_files), len(deep_events), len(deep_contents), deep_depth))
    _record(sess, "bounded:kmip.services.server.monitor.PolicyDirectoryMonitor.scan_policies/"
                  "policies-in-force-follow-the-files", failures, counts['scans'], bound)


def u_usage_mask_type(sess, tier):
    """UsageMaskType.process_result_value(process_bind_param(S)) is S as a set, for every set S of
    usage masks of size <= 2 (quick) / <= 3 (thorough), the empty and the full set."""
    import itertools as it
    from kmip.core import enums
    from kmip.pie import sqltypes
    t = sqltypes.UsageMaskType()
    members = list(enums.CryptographicUsageMask)
    k = 2 if tier == 'quick' else 3
    fails, n = [], 0
    subsets = [()] + [c for r in range(1, k + 1) for c in it.combinations(members, r)] + [tuple(members)]
    for sub in subsets:
        for order in (list(sub), list(reversed(sub)), list(sub) + list(sub[:1])):
            n += 1
            try:
                back = t.process_result_value(t.process_bind_param(order, None), None)
                ok = set(back) == set(sub) and len(back) == len(set(back))
            except Exception as e:
                back, ok = "%s: %s" % (type(e).__name__, e), False
            if not ok:
                fails.append(({"masks": [m.name for m in order]}, "stored %s, read back %s" % (
                    [m.name for m in order], back if isinstance(back, str) else [m.name for m in back])))
    _record(sess, "bounded:kmip.pie.sqltypes.UsageMaskType/round-trip-as-a-set", fails, n,
            "all sets of at most %d of the %d usage masks, the empty and the full set, three orders each" % (k, len(members)))


def units(names, ctx):
    table = {"usage_mask_type": u_usage_mask_type,"biginteger": u_biginteger, "bit_length": u_bit_length, "common_names": u_common_names,
             "policy_monitor": u_policy_monitor}
    out = []
    for nm in names:
        f = table[nm]
        u = Unit("bounded:" + nm, (lambda sess, f=f: f(sess, ctx["tier"])), "bounded", bounded=True, weight=3)
        u.replayer = lambda name, model: {"confirmed": True, "note": "bounded stand-in: the failing input "
                                          "was produced by running the real function", "input": model}
        out.append(u)
    return out
