"""Sets of strings with unknown content, and the key sets of string-keyed dictionaries.

A set is a z3 array String -> Bool (z3's set theory: union, difference, subset, membership and
extensional equality are decided without quantifiers).  `maker(I, tag)` yields an arbitrary
candidate element (a symbolic string carrying whatever is known about elements of the set's
origin); membership of the candidate is assumed by whoever draws it.

Python semantics covered: set(x), a - b, a | b, a & b, a <= b, a >= b, a == b, x in a, len(a)
(only its sign is known), truthiness, a.pop(), a.add(x), a.discard(x), iteration (an arbitrary
member, by loop invariant).  Iteration order is not modelled (it is unspecified in Python)."""
import z3

from .sym import IntSeq, SSeq, SInt, SBool, Opaque, OutOfFragment, fresh, seq_of, lower_bool

StrSet = z3.ArraySort(IntSeq, z3.BoolSort())
EMPTY = z3.EmptySet(IntSeq)


class SSet(object):
    def __init__(self, arr, maker, name="set"):
        self.arr = arr
        self.maker = maker
        self.name = name
        self.taint = frozenset()

    def __repr__(self):
        return "SSet(%s)" % self.name


def _pyvc():
    from . import pyvc
    return pyvc


def elem_term(x):
    if isinstance(x, (str, SSeq)):
        s = seq_of(x)
        if s.kind == 'str':
            return s.to_z3()
    raise OutOfFragment("set element that is not a string: %r" % (x,))


def is_strset_like(v):
    if isinstance(v, SSet):
        return True
    if isinstance(v, (set, frozenset)):
        return all(isinstance(x, (str, SSeq)) for x in v)
    return False


def lift(I, v, name="set"):
    """-> SSet for an SSet or a Python set of (symbolic) strings"""
    if isinstance(v, SSet):
        return v
    if isinstance(v, (set, frozenset, list, tuple)):
        items = list(v)
        arr = EMPTY
        for x in items:
            arr = z3.SetAdd(arr, elem_term(x))

        def maker(I2, tag, items=items):
            if not items:
                raise _pyvc().Infeasible()
            return items[I2.path.choose(len(items), "set-member")]
        return SSet(arr, maker, name)
    raise OutOfFragment("not a set of strings: %r" % (v,))


def from_iterable(I, src):
    """set(src) for a list of unknown length / a dictionary (its keys) / a set"""
    SL = _pyvc().SList
    from .sym import SDict
    if isinstance(src, SSet):
        return SSet(src.arr, src.maker, src.name)
    if isinstance(src, SDict):
        return keys_of(I, src)
    if isinstance(src, SL):
        base = src
        while getattr(base, 'op', None) == 'sorted':
            base = base.base
        od = getattr(base, 'of_dict', None)
        if od is not None and od[1] == 'keys' and getattr(od[0], 'keyset', None) is not None:
            return keys_of(I, od[0])
        arr = fresh("set_" + src.name, StrSet)
        for m in list(src.prefix) + list(src.members):
            try:
                I.path.assume(z3.IsMember(elem_term(m), arr))
            except OutOfFragment:
                pass
        n = src.length
        if not isinstance(n, int):
            I.path.assume((n == 0) == (arr == EMPTY))

        def maker(I2, tag, src=src):
            return src.elem_factory(I2, tag)
        return SSet(arr, maker, "set(%s)" % src.name)
    raise OutOfFragment("set() of %r" % (src,))


def keys_of(I, d):
    """The key set of a string-keyed dictionary (a snapshot: later writes do not change it)."""
    from .sym import SDict
    if isinstance(d, dict):
        return lift(I, set(d.keys()))
    if not isinstance(d, SDict) or getattr(d, 'keyset', None) is None:
        raise OutOfFragment("key set of %r" % (d,))

    def maker(I2, tag, d=d):
        return d.maker(I2, d.kkind, "%s.key.%s" % (d.name, tag))
    return SSet(d.keyset, maker, "keys(%s)" % d.name)


def binop(I, op, a, b):
    A, B = lift(I, a), lift(I, b)
    if op == 'Sub':
        return SSet(z3.SetDifference(A.arr, B.arr), A.maker, "(%s - %s)" % (A.name, B.name))
    if op == 'BitAnd':
        return SSet(z3.SetIntersect(A.arr, B.arr), A.maker, "(%s & %s)" % (A.name, B.name))
    if op == 'BitOr':
        def maker(I2, tag, A=A, B=B):
            return (A if I2.path.choose(2, "union-side") == 0 else B).maker(I2, tag)
        return SSet(z3.SetUnion(A.arr, B.arr), maker, "(%s | %s)" % (A.name, B.name))
    raise OutOfFragment("set operator %s" % op)


def compare(I, op, a, b):
    A, B = lift(I, a), lift(I, b)
    if op == 'LtE':
        return lower_bool(z3.IsSubset(A.arr, B.arr))
    if op == 'GtE':
        return lower_bool(z3.IsSubset(B.arr, A.arr))
    if op == 'Lt':
        return lower_bool(z3.And(z3.IsSubset(A.arr, B.arr), A.arr != B.arr))
    if op == 'Gt':
        return lower_bool(z3.And(z3.IsSubset(B.arr, A.arr), A.arr != B.arr))
    if op == 'Eq':
        return lower_bool(A.arr == B.arr)
    raise OutOfFragment("set comparison %s" % op)


def contains(I, s, x):
    if not isinstance(x, (str, SSeq)):
        return False
    if isinstance(x, SSeq) and x.kind != 'str':
        return False
    return lower_bool(z3.IsMember(elem_term(x), s.arr))


def truth(s):
    return s.arr != EMPTY


def length(I, s):
    n = SInt(fresh("len_" + s.name))
    I.path.assume(z3.And(n.t >= 0, (n.t == 0) == (s.arr == EMPTY)))
    return n


def draw(I, s, tag):
    """an arbitrary member"""
    x = s.maker(I, tag)
    I.path.assume(z3.IsMember(elem_term(x), s.arr))
    return x


def as_slist(I, s):
    n = fresh("n_" + s.name)
    I.path.assume(z3.And(n >= 0, (n == 0) == (s.arr == EMPTY)))
    arr = s.arr

    def elem(I2, tag, s=s, arr=arr):
        x = s.maker(I2, tag)
        I2.path.assume(z3.IsMember(elem_term(x), arr))
        return x
    return _pyvc().SList(s.name, n, elem)


def method(I, s, name, args, kw):
    if name == 'pop':
        if I.path.branch(s.arr == EMPTY):
            I.raise_py(KeyError, 'pop from an empty set')
        x = draw(I, s, "pop")
        s.arr = z3.SetDel(s.arr, elem_term(x))
        return x
    if name == 'add':
        s.arr = z3.SetAdd(s.arr, elem_term(args[0]))
        return None
    if name in ('discard',):
        s.arr = z3.SetDel(s.arr, elem_term(args[0]))
        return None
    if name == 'copy':
        return SSet(s.arr, s.maker, s.name)
    if name in ('issubset',):
        return compare(I, 'LtE', s, args[0])
    if name in ('difference',):
        return binop(I, 'Sub', s, args[0])
    if name in ('union',):
        return binop(I, 'BitOr', s, args[0])
    raise OutOfFragment("set.%s on a set of unknown content" % name)
