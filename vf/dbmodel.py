"""Abstract environment of the server engine: the SQLAlchemy session, stored managed
objects, and the engine object itself.

Assumed contract of the ORM (listed in the evidence of every property that uses it):
  * session.query(E).filter(...).one() returns a row of E, or raises NoResultFound /
    MultipleResultsFound; .all() returns any list of rows; query(...).delete() and
    session.add/commit/flush do not raise;
  * attribute access on a loaded object returns the column value; assignment to a column of
    an attached object is a pending change made durable by the next commit();
  * a row of ManagedObject is an instance of one of the seven stored classes.
Stored objects are heap records whose column values are created lazily as symbolic values of
the column's type, so one symbolic object stands for every row.
"""
import ast
import importlib

import z3

from .sym import (SInt, SBool, SSeq, SEnum, SOpt, Opaque, Obj, ExcVal, OutOfFragment, IntSeq, SDict,
                  fresh, taint_of)
from .envmodel import model


def _pyvc():
    from . import pyvc
    return pyvc


def _objs():
    return importlib.import_module("kmip.pie.objects")


def stored_classes():
    o = _objs()
    return [o.SymmetricKey, o.PublicKey, o.PrivateKey, o.SplitKey, o.X509Certificate, o.SecretData,
            o.OpaqueObject]


_OBJECT_MAP = []


def object_map():
    """{ObjectType: pie class} evaluated from the dict literal assigned to self._object_map in
    KmipEngine.__init__ (read from the tree under verification)."""
    if _OBJECT_MAP:
        return _OBJECT_MAP[0]
    from . import extract
    ex = extract.by_qualname("kmip.services.server.engine.KmipEngine.__init__")
    for n in ast.walk(ex.node):
        if isinstance(n, ast.Assign) and any(isinstance(t, ast.Attribute) and t.attr == '_object_map'
                                             for t in n.targets):
            m = eval(compile(ast.Expression(n.value), '<object_map>', 'eval'), ex.module.__dict__)
            _OBJECT_MAP.append(m)
            return m
    raise OutOfFragment("KmipEngine.__init__ no longer assigns self._object_map from a literal")


_VERSIONS = []


def protocol_versions():
    """The list literal assigned to self._protocol_versions in KmipEngine.__init__."""
    if _VERSIONS:
        return _VERSIONS[0]
    from . import extract
    ex = extract.by_qualname("kmip.services.server.engine.KmipEngine.__init__")
    for n in ast.walk(ex.node):
        if isinstance(n, ast.Assign) and any(isinstance(t, ast.Attribute) and t.attr == '_protocol_versions'
                                             for t in n.targets):
            m = eval(compile(ast.Expression(n.value), '<protocol_versions>', 'eval'), ex.module.__dict__)
            _VERSIONS.append(m)
            return m
    raise OutOfFragment("KmipEngine.__init__ no longer assigns self._protocol_versions from a literal")


PER_REQUEST_FIELDS = ('_client_identity', '_protocol_version', '_attribute_policy', '_data_session',
                      '_id_placeholder', 'is_asynchronous')


def object_type_of(cls):
    for k, v in object_map().items():
        if v is not None and (v is cls or (isinstance(cls, type) and issubclass(cls, v))):
            return k
    return None


SECRET = frozenset(['secret'])

COLUMN_KINDS = {
    'unique_identifier': 'nat',
    'value': ('tainted_bytes', 'secret'),
    'operation_policy_name': ('lazyopt', 'str'),
    '_owner': ('lazyopt', 'str'),
    'sensitive': 'bool',
    'initial_date': 'date',
    'state': ('enum', 'kmip.core.enums.State'),
    'cryptographic_usage_masks': ('sdict', 'bool'),
    'names': ('slist', 'str'),
    '_names': ('slist', 'opaque'),
    'object_groups': ('slist', 'opaque'),
    'app_specific_info': ('slist', 'opaque'),
    'name_index': 'nat',
    '_object_group': 'str', '_application_namespace': 'str', '_application_data': 'str',
    'cryptographic_algorithm': ('lazyopt', ('enum', 'kmip.core.enums.CryptographicAlgorithm')),
    'cryptographic_length': ('lazyopt', 'int32nat'),
    'key_format_type': ('enum', 'kmip.core.enums.KeyFormatType'),
    'certificate_type': ('enum', 'kmip.core.enums.CertificateType'),
    'data_type': ('enum', 'kmip.core.enums.SecretDataType'),
    'opaque_type': ('enum', 'kmip.core.enums.OpaqueDataType'),
    '_kdw_wrapping_method': ('lazyopt', ('enum', 'kmip.core.enums.WrappingMethod')),
    '_kdw_eki_unique_identifier': ('lazyopt', 'str'),
    '_kdw_mski_unique_identifier': ('lazyopt', 'str'),
    '_kdw_mac_signature': ('lazyopt', 'bytes'),
    '_kdw_iv_counter_nonce': ('lazyopt', 'bytes'),
    '_kdw_encoding_option': ('lazyopt', ('enum', 'kmip.core.enums.EncodingOption')),
    '_split_key_parts': ('lazyopt', 'nat'), '_key_part_identifier': ('lazyopt', 'nat'),
    '_split_key_threshold': ('lazyopt', 'nat'),
    '_split_key_method': ('lazyopt', ('enum', 'kmip.core.enums.SplitKeyMethod')),
    '_prime_field_size': ('lazyopt', 'nat'),
}
_KDW_ENUMS = {'block_cipher_mode': 'BlockCipherMode', 'padding_method': 'PaddingMethod',
              'hashing_algorithm': 'HashingAlgorithm', 'key_role_type': 'KeyRoleType',
              'digital_signature_algorithm': 'DigitalSignatureAlgorithm',
              'cryptographic_algorithm': 'CryptographicAlgorithm'}


def column_kind(name):
    if name in COLUMN_KINDS:
        return COLUMN_KINDS[name]
    for pre in ('_kdw_eki_cp_', '_kdw_mski_cp_'):
        if name.startswith(pre):
            f = name[len(pre):]
            if f in _KDW_ENUMS:
                return ('lazyopt', ('enum', 'kmip.core.enums.' + _KDW_ENUMS[f]))
            if f == 'random_iv':
                return ('lazyopt', 'bool')
            return ('lazyopt', 'nat')
    return None


def is_orm_attribute(a):
    return (type(a).__module__ or '').startswith('sqlalchemy')


def new_managed(I, cls, label="mo", attached=True):
    o = Obj(cls, {}, label)
    o.meta['db'] = True
    o.meta['attached'] = attached
    ot = object_type_of(cls)
    if ot is not None:
        o.fields['_object_type'] = ot
    if attached:
        I.path.event('db.load', id(o), cls.__name__, o)
    else:
        I.path.event('db.fresh', id(o), cls.__name__, o)
    return o


def choose_stored_class(I, label="class"):
    cs = stored_classes()
    return cs[I.path.choose(len(cs), label)]


def db_getattr(I, obj, cls_attr_owner, name, a):
    """Lazy creation of a column value on a stored object."""
    orig = obj.meta.get('copy_of')
    if orig is not None:
        v = I.getattr(orig, name)
        obj.fields[name] = list(v) if isinstance(v, list) else v
        return obj.fields[name]
    if obj.meta.get('attached') is False and not obj.meta.get('added') and not obj.meta.get('havocked'):
        # a freshly constructed (transient) mapped object: unset columns read as None / empty
        if name in ('names', '_names', 'object_groups', 'app_specific_info'):
            obj.fields[name] = []
            return obj.fields[name]
        return None
    kind = obj.meta.get('column_kinds', {}).get(name) or \
        (getattr(getattr(I, 'top_contract', None), 'column_kinds', None) or {}).get(name) or column_kind(name)
    if kind is None:
        raise OutOfFragment("stored-object attribute %s.%s has no column model" % (obj.cls.__name__, name))
    from .modular import make_symbolic
    if obj.meta.get('havocked') and not (isinstance(kind, tuple) and kind[0] in ('opt', 'lazyopt', 'list', 'slist')):
        kind = ('opt', kind)        # a transient object: any column may still be unset
    if isinstance(kind, tuple) and kind[0] == 'tainted_bytes':
        v = SSeq('bytes', [('s', fresh("%s.%s" % (obj.label, name), IntSeq))], frozenset([kind[1]]))
    else:
        v = make_symbolic(I, kind, "%s.%s" % (obj.label or 'mo', name))
    obj.fields[name] = v
    obj.meta.setdefault('initial_columns', {})[name] = v
    if isinstance(v, list):
        obj.meta.setdefault('initial_list_content', {})[name] = list(v)
        for x in v:
            if isinstance(x, Obj):
                # rows of a relationship collection: stored with (and through) their owner
                x.meta['db'] = True
                x.meta['attached'] = obj.meta.get('attached')
                x.meta['owner'] = (obj, name)
                x.meta['initial_fields'] = dict(x.fields)
    return v


class DbQuery(object):
    @model
    def filter(I, args, kw):
        q = args[0]
        q.fields['conds'] = list(q.fields.get('conds', [])) + list(args[1:])
        return q

    @model
    def filter_by(I, args, kw):
        q = args[0]
        q.fields['conds'] = list(q.fields.get('conds', [])) + [kw]
        return q

    @model
    def one(I, args, kw):
        q = args[0]
        P = I.path
        exc = importlib.import_module("sqlalchemy.orm.exc")
        for cnd in q.fields.get('conds', []):
            if isinstance(cnd, Obj) and cnd.cls is SqlCond and cnd.fields.get('op') == 'Eq' and \
                    (cnd.fields.get('right') is None or cnd.fields.get('left') is None):
                # `column == NULL` never matches a row (identifiers are a non-null primary key)
                P.event('db.one', 'none')
                raise _pyvc().Raised(ExcVal(exc.NoResultFound, ("No row was found",)))
        # a look-up by the primary key (unique_identifier) of the base table cannot find two rows
        by_key = any(isinstance(cnd, Obj) and cnd.cls is SqlCond and cnd.fields.get('op') == 'Eq' and
                     any(getattr(cnd.fields.get(side), 'key', None) == 'unique_identifier' for side in ('left', 'right'))
                     for cnd in q.fields.get('conds', []))
        if by_key:
            I.path.session.assumptions.add("a query by unique_identifier (primary key) finds at most one row")
        k = P.choose(2 if by_key else 3, "query.one")
        if k == 1:
            P.event('db.one', 'none')
            raise _pyvc().Raised(ExcVal(exc.NoResultFound, ("No row was found",)))
        if k == 2:
            P.event('db.one', 'multiple')
            raise _pyvc().Raised(ExcVal(exc.MultipleResultsFound, ("Multiple rows were found",)))
        return _row(I, q)

    @model
    def one_or_none(I, args, kw):
        q = args[0]
        P = I.path
        exc = importlib.import_module("sqlalchemy.orm.exc")
        k = P.choose(3, "query.one_or_none")
        if k == 1:
            return None
        if k == 2:
            P.event('db.one', 'multiple')
            raise _pyvc().Raised(ExcVal(exc.MultipleResultsFound, ("Multiple rows were found",)))
        return _row(I, q)

    @model
    def first(I, args, kw):
        q = args[0]
        if I.path.choose(2, "query.first") == 1:
            return None
        return _row(I, q)

    @model
    def all(I, args, kw):
        q = args[0]
        n = fresh("rows")
        I.path.assume(n >= 0)
        ents = q.fields['entities']
        I.path.event('db.all', tuple(getattr(e, '__name__', str(e)) for e in ents))
        return _pyvc().SList("rows", n, lambda I2, tag, q=q: _row(I2, q))

    @model
    def delete(I, args, kw):
        q = args[0]
        ents = q.fields['entities']
        I.path.event('db.delete', tuple(getattr(e, '__name__', str(e)) for e in ents),
                     tuple(id(c) for c in q.fields.get('conds', [])), q.fields.get('conds', []))
        return Opaque('int', 'rows-deleted')

    @model
    def count(I, args, kw):
        n = fresh("count")
        I.path.assume(n >= 0)
        return SInt(n)


def _row(I, q):
    ents = q.fields['entities']
    out = []
    o = _objs()
    for e in ents:
        if isinstance(e, type):
            cls = e
            if cls is o.ManagedObject or cls in (o.CryptographicObject, o.Key, o.Certificate):
                subs = [c for c in stored_classes() if issubclass(c, cls)]
                cls = subs[I.path.choose(len(subs), "row-class")]
            out.append(new_managed(I, cls, "row%d" % len(I.path.trace)))
        elif is_orm_attribute(e):
            name = getattr(e, 'key', None) or getattr(e, 'name', '?')
            if name == '_object_type':
                from .modular import make_symbolic
                out.append(make_symbolic(I, ('enum', 'kmip.core.enums.ObjectType'), 'row._object_type'))
            else:
                kind = column_kind(name)
                from .modular import make_symbolic
                out.append(make_symbolic(I, kind or 'opaque', 'row.' + name))
        else:
            raise OutOfFragment("query entity %r" % (e,))
    if len(out) == 1 and isinstance(ents[0], type):
        return out[0]
    return tuple(out)


class DbSession(object):
    @model
    def query(I, args, kw):
        q = Obj(DbQuery, {'entities': list(args[1:]), 'conds': []}, 'query')
        I.path.event('db.query', tuple(getattr(e, '__name__', getattr(e, 'key', str(e))) for e in args[1:]))
        return q

    @model
    def add(I, args, kw):
        o = args[1]
        if isinstance(o, Obj):
            o.meta['db'] = True
            o.meta['attached'] = True
            o.meta['added'] = True
        I.path.event('db.add', id(o), getattr(getattr(o, 'cls', None), '__name__', '?'), o)
        args[0].meta.setdefault('pending', []).append(o)
        return None

    @model
    def delete(I, args, kw):
        I.path.event('db.delete.obj', id(args[1]))
        return None

    @model
    def commit(I, args, kw):
        I.path.session.assumptions.add("SQLAlchemy session.commit()/flush()/add()/query.delete() do not raise")
        I.path.event('db.commit')
        # AUTOINCREMENT (assumed): committing an added row assigns it a fresh identifier
        sess = args[0]
        for o in sess.meta.get('pending', []):
            uid = fresh("new_uid")
            I.path.assume(uid >= 1)
            o.fields['unique_identifier'] = SInt(uid)
            o.meta.setdefault('initial_columns', {})['unique_identifier'] = o.fields['unique_identifier']
            I.path.event('db.assign_uid', id(o), uid)
        sess.meta['pending'] = []
        return None

    @model
    def flush(I, args, kw):
        I.path.event('db.flush')
        return None

    @model
    def begin_nested(I, args, kw):
        """SAVEPOINT: a transaction boundary of its own (with the stock SQLite driver its release
        can commit what was written so far); recorded so that the discipline predicates see it."""
        I.path.event('db.savepoint')
        return Obj(Savepoint, {}, 'savepoint')

    @model
    def begin(I, args, kw):
        I.path.event('db.savepoint')
        return Obj(Savepoint, {}, 'transaction')

    @model
    def rollback(I, args, kw):
        I.path.event('db.rollback')
        return None

    @model
    def __enter__(I, args, kw):
        return args[0]

    @model
    def __exit__(I, args, kw):
        I.path.event('db.session.exit')
        return False

    @model
    def close(I, args, kw):
        return None


class Savepoint(object):
    @model
    def __enter__(I, args, kw):
        return args[0]

    @model
    def __exit__(I, args, kw):
        I.path.event('db.savepoint.release')
        return False

    @model
    def commit(I, args, kw):
        I.path.event('db.savepoint.release')
        return None


class Lock(object):
    """threading.RLock (assumed: mutual exclusion, re-entrant)."""

    @model
    def __enter__(I, args, kw):
        I.path.event('lock.enter')
        return args[0]

    @model
    def __exit__(I, args, kw):
        I.path.event('lock.exit')
        return False

    @model
    def acquire(I, args, kw):
        """acquire(blocking=True, timeout=-1): with blocking=False or a timeout the call may return
        False without the lock being held."""
        blocking = args[1] if len(args) > 1 else kw.get('blocking', True)
        timeout = args[2] if len(args) > 2 else kw.get('timeout', -1)
        may_fail = not (blocking is True and (timeout is None or (isinstance(timeout, (int, float))
                                                                  and not isinstance(timeout, bool) and timeout < 0)))
        if may_fail and I.path.choose(2, "lock.acquire") == 1:
            return False
        I.path.event('lock.enter')
        return True

    @model
    def release(I, args, kw):
        I.path.event('lock.exit')
        return None


class SessionFactory(object):
    """sessionmaker: calling it yields a new session usable as a context manager."""

    @model
    def __call__(I, args, kw):
        I.path.event('db.session.new')
        return make_session(I, 'session%d' % len(I.path.trace))


class SqlCond(object):
    """column <op> value"""


def sql_compare(I, op, a, b):
    c = Obj(SqlCond, {'op': op, 'left': a, 'right': b}, 'sqlcond')
    return c


def make_session(I, label="session"):
    return Obj(DbSession, {}, label)


# ------------------------------------------------------------------ the engine object

def make_engine(I, label="self", version=None, identity=True):
    from kmip.services.server import engine as E
    from kmip.services.server import policy as server_policy
    from kmip.core.messages import contents
    from kmip.core import enums
    from .modular import make_symbolic
    P = I.path
    e = Obj(E.KmipEngine, {}, label)
    e.fields['_logger'] = Opaque('object', 'logger', facts={'noraise', 'logger', 'truthy'})
    import contracts.c_access as CA
    e.fields['_operation_policies'] = make_symbolic(I, CA.POLICIES, label + "._operation_policies")
    e.fields['_data_session'] = make_session(I)
    e.fields['_object_map'] = object_map()
    e.fields['_protocol_versions'] = protocol_versions()
    e.fields['default_protocol_version'] = e.fields['_protocol_versions'][3]
    e.fields['_lock'] = Obj(Lock, {}, 'lock')
    e.fields['_data_store_session_factory'] = Obj(SessionFactory, {}, 'session-factory')
    e.meta['track_reads'] = set(PER_REQUEST_FIELDS)
    versions = [(1, 0), (1, 1), (1, 2), (1, 3), (1, 4), (2, 0)]

    def set_version(I2, obj, version=version):
        # the protocol version (and the attribute rules derived from it) is chosen when first used
        v = version if version is not None else versions[I2.path.choose(len(versions), "protocol-version")]
        obj.fields['_protocol_version'] = contents.ProtocolVersion(*v)
        obj.fields['_attribute_policy'] = server_policy.AttributePolicy(contents.ProtocolVersion(*v))
        lc = obj.meta.setdefault('lazy_created', {})
        lc['_protocol_version'] = obj.fields['_protocol_version']
        lc['_attribute_policy'] = obj.fields['_attribute_policy']
    e.meta['lazy'] = {'_protocol_version': set_version, '_attribute_policy': set_version}
    user = make_symbolic(I, 'str', label + ".user")
    groups = make_symbolic(I, ('lazyopt', ('slist', 'nonempty_str')), label + ".groups")
    e.fields['_client_identity'] = [user, groups]
    e.fields['_id_placeholder'] = make_symbolic(I, ('lazyopt', 'str'), label + "._id_placeholder")
    e.fields['is_asynchronous'] = False
    e.fields['_cryptography_engine'] = make_symbolic(I, ('model', 'Crypto'), label + "._cryptography_engine")
    e.meta['initial_fields'] = dict(e.fields)

    def other_attribute(I2, obj, fname):
        # an engine in the middle of its life: any instance attribute the contracts do not know
        # (a cache, a flag left by an earlier request) holds an arbitrary, possibly None value
        from .sym import SOpt
        v = SOpt(fresh("%s.%s_isnone" % (label, fname), z3.BoolSort()), Opaque('object', "%s.%s" % (label, fname)))
        obj.fields[fname] = v
        obj.meta.setdefault('lazy_created', {})[fname] = v
        obj.meta.setdefault('initial_fields', {})[fname] = v
        return v
    e.meta['dynamic'] = other_attribute
    return e
