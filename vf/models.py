"""Models of Python built-ins and operators for pyvc (part 1: operators,
sequences, built-in functions).  Anything not modelled raises OutOfFragment."""
import binascii
import builtins
import copy
import enum
import struct
import types

import z3

from .sym import (SInt, SBool, SSeq, SEnum, SOpt, Opaque, Obj, ExcVal, OutOfFragment,
                  IntSeq, fresh, seq_of, seq_lower, seq_concat, int_term, bool_term,
                  lower_int, lower_bool, is_symbolic, taint_of)

SPEC_BUILTINS = {}
_MODELS = {}          # id(native callable) -> model(interp, args, kwargs)
_MODEL_KEEP = []


def model_for(*natives):
    def deco(f):
        for n in natives:
            _MODELS[id(n)] = f
            _MODEL_KEEP.append(n)
        return f
    return deco


def spec_builtin(name):
    def deco(f):
        class _S(object):
            def __repr__(self):
                return "<spec %s>" % name
        marker = _S()
        SPEC_BUILTINS[name] = marker
        _MODELS[id(marker)] = f
        _MODEL_KEEP.append(marker)
        return f
    return deco


def lookup_model(f):
    return _MODELS.get(id(f))


def _pyvc():
    from . import pyvc
    return pyvc


def is_int_like(v):
    return isinstance(v, (int, SInt, SBool)) and not isinstance(v, enum.Enum)


def is_seq_like(v):
    return isinstance(v, (bytes, str, SSeq))


# ------------------------------------------------------------------ operators

def binop(I, op, a, b):
    a = I.resolve_opt(a)
    b = I.resolve_opt(b)
    from . import symset as _ss
    if (isinstance(a, _ss.SSet) and _ss.is_strset_like(b)) or (isinstance(b, _ss.SSet) and _ss.is_strset_like(a)):
        return _ss.binop(I, op, a, b)
    if not is_symbolic(a) and not is_symbolic(b) and not _has_sym(a) and not _has_sym(b):
        try:
            return _native_binop(op, a, b)
        except OutOfFragment:
            raise
        except Exception as e:
            I.raise_py(type(e), *e.args)
    MB = _pyvc().MutBytes
    if isinstance(a, MB) and op == 'Add':
        a = a.v
    if is_int_like(a) and is_int_like(b):
        x, y = int_term(a), int_term(b)
        taint = taint_of(a) | taint_of(b)
        if op == 'Add':
            return lower_int(x + y, taint)
        if op == 'Sub':
            return lower_int(x - y, taint)
        if op == 'Mult':
            return lower_int(x * y, taint)
        if op in ('FloorDiv', 'Mod'):
            # Python floor semantics; z3 div/mod are Euclidean: equal for y > 0
            if isinstance(b, int) and b > 0:
                return lower_int(x / y if op == 'FloorDiv' else x % y, taint)
            if I.path.is_valid(y > 0):
                return lower_int(x / y if op == 'FloorDiv' else x % y, taint)
            if I.path.branch(y == 0):
                I.raise_py(ZeroDivisionError, "integer division or modulo by zero")
            if I.path.branch(y > 0):
                return lower_int(x / y if op == 'FloorDiv' else x % y, taint)
            # y < 0: floor(x/y) = -ceil(x/-y) ; x mod y = -((-x) mod (-y))
            if op == 'FloorDiv':
                return lower_int(-((-x) / y) if False else z3.If((x % (-y)) == 0, -(x / (-y)), -(x / (-y)) - 1), taint)
            return lower_int(z3.If((x % (-y)) == 0, z3.IntVal(0), (x % (-y)) + y), taint)
        if op == 'Div':
            r = Opaque('float', 'truediv', taint)
            if I.path.is_valid(z3.And(x >= 0, y > 0)):
                # int(a / b) == a // b for 0 <= a < 2**53, b > 0 (float division exact enough)
                I.path.session.assumptions.add(
                    "int(a / b) on non-negative ints is floor division (operands below 2**53)")
                r.fields['int_value'] = lower_int(x / y, taint)
            return r
        if op == 'Pow':
            if isinstance(b, int) and 0 <= b <= 64:
                r = z3.IntVal(1)
                for _ in range(b):
                    r = r * x
                return lower_int(r, taint)
            if isinstance(a, int) and a == 2:
                raise OutOfFragment("2 ** symbolic")
        if op in ('BitAnd', 'BitOr', 'BitXor', 'LShift', 'RShift'):
            return _bitop(I, op, a, b, taint)
        raise OutOfFragment("int op %s" % op)
    if is_seq_like(a) and is_seq_like(b) and op == 'Add':
        sa, sb = seq_of(a), seq_of(b)
        if sa.kind != sb.kind:
            I.raise_py(TypeError, "can't concat %s to %s" % (sb.kind, sa.kind))
        return seq_concat(a, b)
    if is_seq_like(a) and is_int_like(b) and op == 'Mult':
        return _seq_repeat(I, a, b)
    if is_int_like(a) and is_seq_like(b) and op == 'Mult':
        return _seq_repeat(I, b, a)
    if is_seq_like(a) and op == 'Mod':
        return format_opaque(I, a, b if isinstance(b, tuple) else (b,))
    if isinstance(a, (list, tuple)) and isinstance(b, (list, tuple)) and op == 'Add':
        return a + b
    if isinstance(a, str) and op == 'Mod':
        return format_opaque(I, a, b if isinstance(b, tuple) else (b,))
    if isinstance(a, Opaque) or isinstance(b, Opaque):
        t = taint_of(a) | taint_of(b)
        kind = a.pykind if isinstance(a, Opaque) else b.pykind
        if op == 'Add' and (isinstance(a, (str, SSeq)) or isinstance(b, (str, SSeq)) or kind == 'str'):
            facts = set()
            for x in (a, b):
                if isinstance(x, str) and x:
                    facts.add('nonempty')
                if isinstance(x, Opaque) and 'nonempty' in x.facts:
                    facts.add('nonempty')
            return Opaque('str', 'concat', t, facts)
        return Opaque(kind, 'binop', t)
    if isinstance(a, (set, frozenset)) and isinstance(b, (set, frozenset)):
        return _native_binop(op, a, b)
    raise OutOfFragment("binop %s on %r, %r" % (op, type(a).__name__, type(b).__name__))


def _has_sym(v, depth=0):
    if depth > 3:
        return False
    if isinstance(v, (list, tuple, set, frozenset)):
        return any(is_symbolic(x) or _has_sym(x, depth + 1) for x in v)
    if isinstance(v, dict):
        return any(is_symbolic(x) or _has_sym(x, depth + 1) for x in v.values())
    return isinstance(v, _pyvc().MutBytes)


_NATIVE_OPS = {
    'Add': lambda a, b: a + b, 'Sub': lambda a, b: a - b, 'Mult': lambda a, b: a * b,
    'Div': lambda a, b: a / b, 'FloorDiv': lambda a, b: a // b, 'Mod': lambda a, b: a % b,
    'Pow': lambda a, b: a ** b, 'BitAnd': lambda a, b: a & b, 'BitOr': lambda a, b: a | b,
    'BitXor': lambda a, b: a ^ b, 'LShift': lambda a, b: a << b, 'RShift': lambda a, b: a >> b,
}


def _native_binop(op, a, b):
    f = _NATIVE_OPS.get(op)
    if f is None:
        raise OutOfFragment("operator %s" % op)
    return f(a, b)


def _bitop(I, op, a, b, taint):
    # bit operations against a concrete power-of-two style mask: arithmetic encoding
    if op == 'BitAnd' and isinstance(b, int) and b >= 0 and (b & (b + 1)) == 0:
        x = int_term(a)
        if I.path.is_valid(x >= 0):
            return lower_int(x % (b + 1), taint)
    if op == 'BitAnd' and isinstance(b, int) and b > 0 and (b & (b - 1)) == 0:
        x = int_term(a)
        if I.path.is_valid(x >= 0):
            return lower_int(((x / b) % 2) * b, taint)
    if op == 'BitAnd' and isinstance(a, int):
        return _bitop(I, op, b, a, taint)
    if op == 'LShift' and isinstance(b, int) and b >= 0:
        return lower_int(int_term(a) * (1 << b), taint)
    if op == 'RShift' and isinstance(b, int) and b >= 0:
        return lower_int(int_term(a) / (1 << b), taint)
    raise OutOfFragment("bit operation %s on symbolic ints" % op)


def _seq_repeat(I, s, n):
    s = seq_of(s)
    if isinstance(n, bool):
        n = int(n)
    if isinstance(n, int):
        chunks = []
        for _ in range(max(n, 0)):
            chunks.extend(s.chunks)
        return seq_lower(SSeq(s.kind, chunks, s.taint))
    vals = I.path.enumerate_small(int_term(n))
    if vals is not None:
        k = None
        for cand in vals:
            if I.path.branch(int_term(n) == cand):
                k = cand
                break
        if k is None:
            raise _pyvc().Infeasible()
        return _seq_repeat(I, s, k)
    # symbolic repeat of a single concrete element: a fresh sequence of that length
    if s.concrete() and isinstance(s.length(), int) and s.length() == 1:
        e = s.chunks[0][1][0]
        return rep_seq(I, s.kind, e, n)
    raise OutOfFragment("sequence repeated a symbolic number of times")


def rep_seq(I, kind, elem, n):
    """n copies of the concrete element `elem` (n symbolic, clamped at 0)."""
    nt = int_term(n)
    nts = z3.simplify(nt)
    I.path._keep.append(nts)
    key = ('rep', kind, elem, nts.get_id())
    cache = I.path.ghost.setdefault('rep', {})
    if key in cache:
        return cache[key]
    z = fresh("rep", IntSeq)
    I.path.assume(z3.Length(z) == z3.If(nt > 0, nt, 0))
    i = z3.Int("rep_i!%d" % len(cache))
    I.path.assume(z3.ForAll([i], z3.Implies(z3.And(i >= 0, i < z3.Length(z)), z[i] == elem)))
    r = SSeq(kind, [('s', z)])
    cache[key] = r
    return r


def _is_sql(x):
    return not isinstance(x, type) and (type(x).__module__ or '').startswith('sqlalchemy')


def compare(I, op, a, b):
    a0, b0 = a, b
    if _is_sql(a) or _is_sql(b):
        from . import dbmodel
        return dbmodel.sql_compare(I, op, a, b)
    if op in ('Is', 'IsNot'):
        r = _identity(I, a, b)
        if op == 'Is':
            return r
        return (not r) if isinstance(r, bool) else lower_bool(z3.Not(bool_term(r)))
    if op in ('In', 'NotIn'):
        r = contains(I, b, a)
        if op == 'In':
            return r
        return (not r) if isinstance(r, bool) else lower_bool(z3.Not(bool_term(r)))
    a = I.resolve_opt(a) if isinstance(a, SOpt) and op not in ('Eq', 'NotEq') else a
    b = I.resolve_opt(b) if isinstance(b, SOpt) and op not in ('Eq', 'NotEq') else b
    if op not in ('Eq', 'NotEq'):
        a, b = I.resolve_enum(a), I.resolve_enum(b)
    from . import symset as _ss
    if (isinstance(a, _ss.SSet) and _ss.is_strset_like(b)) or (isinstance(b, _ss.SSet) and _ss.is_strset_like(a)):
        if op == 'NotEq':
            r = _ss.compare(I, 'Eq', a, b)
            return (not r) if isinstance(r, bool) else lower_bool(z3.Not(bool_term(r)))
        return _ss.compare(I, op, a, b)
    if op in ('Eq', 'NotEq'):
        r = equals(I, a, b)
        if op == 'Eq':
            return r
        return (not r) if isinstance(r, bool) else lower_bool(z3.Not(bool_term(r)))
    if a is None or b is None:
        I.raise_py(TypeError, "'%s' not supported between instances of '%s' and '%s'" % (
            {'Lt': '<', 'LtE': '<=', 'Gt': '>', 'GtE': '>='}[op],
            getattr(I.pytype(a), '__name__', '?'), getattr(I.pytype(b), '__name__', '?')))
    if is_int_like(a) and is_int_like(b):
        if not is_symbolic(a) and not is_symbolic(b):
            return {'Lt': a < b, 'LtE': a <= b, 'Gt': a > b, 'GtE': a >= b}[op]
        x, y = int_term(a), int_term(b)
        return lower_bool({'Lt': x < y, 'LtE': x <= y, 'Gt': x > y, 'GtE': x >= y}[op])
    if isinstance(a, Obj) or isinstance(b, Obj):
        name = {'Lt': '__lt__', 'LtE': '__le__', 'Gt': '__gt__', 'GtE': '__ge__'}[op]
        if isinstance(a, Obj):
            m = I._class_attr(a.cls, name)
            if m is not None:
                r = I.call_value(_pyvc().BoundMethod(a, m), [b], {})
                if r is not NotImplemented:
                    return r
        elif (type(a).__module__ or '').startswith('kmip'):
            # a native instance of a repository class on the left (e.g. one of the engine's supported
            # protocol versions): its comparison method is interpreted like any other repository code
            m = I._class_attr(type(a), name)
            if isinstance(m, types.FunctionType):
                r = I.call_value(_pyvc().BoundMethod(a, m), [b], {})
                if r is not NotImplemented:
                    return r
        if isinstance(b, Obj):
            refl = {'__lt__': '__gt__', '__le__': '__ge__', '__gt__': '__lt__', '__ge__': '__le__'}[name]
            m = I._class_attr(b.cls, refl)
            if m is not None:
                r = I.call_value(_pyvc().BoundMethod(b, m), [a], {})
                if r is not NotImplemented:
                    return r
        I.raise_py(TypeError, "'%s' not supported" % op)
    if not is_symbolic(a) and not is_symbolic(b):
        try:
            return {'Lt': lambda: a < b, 'LtE': lambda: a <= b, 'Gt': lambda: a > b,
                    'GtE': lambda: a >= b}[op]()
        except Exception as e:
            I.raise_py(type(e), *e.args)
    if isinstance(a, Opaque) or isinstance(b, Opaque):
        return SBool(fresh("cmp", z3.BoolSort()))
    raise OutOfFragment("compare %s on %r, %r" % (op, a, b))


def _identity(I, a, b):
    if isinstance(a, SOpt) and b is None:
        return lower_bool(a.isnone)
    if isinstance(b, SOpt) and a is None:
        return lower_bool(b.isnone)
    if isinstance(a, SOpt) or isinstance(b, SOpt):
        a = I.resolve_opt(a)
        b = I.resolve_opt(b)
    if a is None or b is None:
        return a is b
    if isinstance(a, SEnum) or isinstance(b, SEnum):
        return equals(I, a, b)
    if isinstance(a, (SInt,)) or isinstance(b, (SInt,)):
        other = b if isinstance(a, SInt) else a
        if isinstance(other, int) and not isinstance(other, bool) and -5 <= other <= 256:
            I.path.session.assumptions.add(
                "CPython small-int caching: `x is %d` on an int is equality" % other)
            return equals(I, a, b)
        if isinstance(other, SInt):
            raise OutOfFragment("identity of two symbolic ints")
        if isinstance(other, bool) or not isinstance(other, int):
            return False
        raise OutOfFragment("`is` between symbolic int and %r" % (other,))
    if isinstance(a, SBool) or isinstance(b, SBool):
        other = b if isinstance(a, SBool) else a
        if isinstance(other, (bool, SBool)):
            return equals(I, a, b)
        return False
    for x, y in ((a, b), (b, a)):
        if isinstance(x, Opaque) and x.pykind in ('object', 'bool') and isinstance(y, bool):
            # a value of unknown kind may be that very singleton: undetermined, but the same
            # answer every time on one path
            memo = I.path.ghost.setdefault('opaque_is', {})
            key = (id(x), y)
            if key not in memo:
                I.path._keep.append(x)
                memo[key] = SBool(fresh("is_%s" % y, z3.BoolSort()))
                other = memo.get((id(x), not y))
                if other is not None:
                    I.path.assume(z3.Not(z3.And(memo[key].t, other.t)))
            return memo[key]
    if isinstance(a, (Obj, ExcVal, Opaque)) or isinstance(b, (Obj, ExcVal, Opaque)):
        return a is b
    if isinstance(a, SSeq) or isinstance(b, SSeq):
        raise OutOfFragment("identity on strings")
    if isinstance(a, bool) or isinstance(b, bool):
        return a is b
    if isinstance(a, int) and isinstance(b, int):
        if -5 <= a <= 256 and -5 <= b <= 256:
            return a == b
        return a == b   # concrete ints from constants of one code object: treat by value
    return a is b


def dict_find(I, d, key):
    """The key object of native dictionary d that equals `key` on this path (forking on symbolic
    comparisons), or None.  Needed as soon as a key or the probe is symbolic."""
    from .sym import SymKey, unkey
    key = unkey(key)
    for kk in list(d.keys()):
        r = equals(I, unkey(kk), key)
        if r is True or (r is not False and I.cond(r)):
            return kk
    return None


def dict_has_symkeys(d):
    from .sym import SymKey
    return any(isinstance(k, SymKey) for k in d)


def equals(I, a, b):
    """Python == ; returns bool | SBool."""
    from .sym import SymKey as _SK
    if isinstance(a, _SK):
        a = a.v
    if isinstance(b, _SK):
        b = b.v
    if isinstance(a, SOpt) or isinstance(b, SOpt):
        if isinstance(a, SOpt) and b is None:
            return lower_bool(a.isnone)
        if isinstance(b, SOpt) and a is None:
            return lower_bool(b.isnone)
        a = I.resolve_opt(a)
        b = I.resolve_opt(b)
    if a is None or b is None:
        return a is b
    if isinstance(a, Obj) or isinstance(b, Obj):
        for x, y in ((a, b), (b, a)):
            if isinstance(x, Obj):
                m = I._class_attr(x.cls, '__eq__')
                if m is not None and isinstance(m, types.FunctionType):
                    r = I.call_value(_pyvc().BoundMethod(x, m), [y], {})
                    if r is not NotImplemented:
                        return r
        return a is b
    if isinstance(a, SEnum) or isinstance(b, SEnum):
        if isinstance(a, SEnum) and isinstance(b, SEnum):
            if a.cls is not b.cls:
                return False
            if (a.members is None) != (b.members is None) or \
                    (a.members is not None and a.members != b.members):
                return equals(I, I.resolve_enum(a), b)
            return lower_bool(a.t == b.t)
        e, o = (a, b) if isinstance(a, SEnum) else (b, a)
        if isinstance(o, enum.Enum):
            if type(o) is not e.cls:
                return False
            if e.members is not None:
                if o not in e.members:
                    return False
                return lower_bool(e.t == e.members.index(o))
            return lower_bool(e.t == o.value)
        return False
    if isinstance(a, enum.Enum) or isinstance(b, enum.Enum):
        o = b if isinstance(a, enum.Enum) else a
        if isinstance(o, Opaque) and I.pytype(o) in (None, object):
            pass        # an uninterpreted value may be this member: unknown (decided below, memoised)
        elif is_symbolic(a) or is_symbolic(b):
            return False
        else:
            return a == b
    if is_int_like(a) and is_int_like(b):
        if not is_symbolic(a) and not is_symbolic(b):
            return a == b
        return lower_bool(int_term(a) == int_term(b))
    MB = _pyvc().MutBytes
    if isinstance(a, MB):
        a = a.v
    if isinstance(b, MB):
        b = b.v
    if is_seq_like(a) and is_seq_like(b):
        if not is_symbolic(a) and not is_symbolic(b):
            return a == b
        return seq_equal(I, seq_of(a), seq_of(b))
    if isinstance(a, (list, tuple)) and isinstance(b, (list, tuple)):
        if type(a) is not type(b):
            return False
        if len(a) != len(b):
            return False
        acc = True
        for x, y in zip(a, b):
            r = equals(I, x, y)
            if isinstance(r, bool):
                if not r:
                    return False
            else:
                acc = r.t if acc is True else z3.And(acc, r.t)
        return acc if isinstance(acc, bool) else lower_bool(acc)
    if isinstance(a, dict) and isinstance(b, dict):
        if set(a.keys()) != set(b.keys()):
            return False
        return equals(I, [a[k] for k in a], [b[k] for k in a])
    from .sym import SDict
    if isinstance(a, SDict) or isinstance(b, SDict):
        return a is b
    if isinstance(a, Opaque) or isinstance(b, Opaque):
        if a is b:
            return True
        if isinstance(a, Opaque) and isinstance(b, Opaque):
            fa, fb = a.fields.get('__fmt__'), b.fields.get('__fmt__')
            if fa is not None and fb is not None and fa[0] == fb[0] and len(fa[1]) == len(fb[1]) \
                    and not fa[2] and not fb[2]:
                # the same template applied to pairwise equal arguments gives the same text
                r = equals(I, list(fa[1]), list(fb[1]))
                if r is True:
                    return True
        # an uninterpreted comparison: the same two values always compare the same way on a path
        def _k(x):
            if isinstance(x, Opaque):
                so = x.fields.get('__str_of__')
                return ('strof', so.t.get_id()) if isinstance(so, SInt) else ('o', id(x))
            if isinstance(x, SSeq):
                return ('s', x.to_z3().get_id())
            if isinstance(x, (SInt, SBool)):
                return ('t', x.t.get_id())
            return ('v', id(x)) if is_symbolic(x) else ('c', repr(x))
        memo = I.path.ghost.setdefault('opaque_eq', {})
        key = frozenset([_k(a), _k(b)])
        if key not in memo:
            I.path._keep.extend([a, b])
            memo[key] = SBool(fresh("eq", z3.BoolSort()))
        return memo[key]
    if isinstance(a, ExcVal) or isinstance(b, ExcVal):
        return a is b
    if is_symbolic(a) or is_symbolic(b):
        # different kinds: e.g. SInt == 'x'
        ta, tb = I.pytype(a), I.pytype(b)
        if ta is not tb and not (ta in (int, bool) and tb in (int, bool)):
            return False
        raise OutOfFragment("== on %r, %r" % (a, b))
    try:
        return a == b
    except Exception as e:
        I.raise_py(type(e), *e.args)


def seq_equal(I, a, b):
    if a.kind != b.kind:
        return False
    conj = []
    i = j = 0
    ca = [('u', list(c[1])) if c[0] == 'u' else c for c in a.chunks]
    cb = [('u', list(c[1])) if c[0] == 'u' else c for c in b.chunks]
    ok = True
    while i < len(ca) and j < len(cb):
        x, y = ca[i], cb[j]
        if x[0] == 'u' and y[0] == 'u':
            n = min(len(x[1]), len(y[1]))
            for k in range(n):
                e, f = x[1][k], y[1][k]
                if isinstance(e, int) and isinstance(f, int):
                    if e != f:
                        return False
                else:
                    conj.append(int_term_e(e) == int_term_e(f))
            rx, ry = x[1][n:], y[1][n:]
            if rx:
                ca[i] = ('u', rx)
            else:
                i += 1
            if ry:
                cb[j] = ('u', ry)
            else:
                j += 1
        elif x[0] == 's' and y[0] == 's' and x[1].eq(y[1]):
            i += 1
            j += 1
        else:
            ok = False
            break
    if ok and i == len(ca) and j == len(cb):
        if not conj:
            return True
        return lower_bool(z3.And(*conj) if len(conj) > 1 else conj[0])
    if ok:
        # one side exhausted: the remainder of the other must be empty
        rem = ca[i:] if i < len(ca) else cb[j:]
        if any(c[0] == 'u' for c in rem):
            return False
        for c in rem:
            conj.append(z3.Length(c[1]) == 0)
        return lower_bool(z3.And(*conj) if len(conj) > 1 else conj[0])
    # fall back to the sequence theory for the unaligned remainder
    ra = SSeq(a.kind, ca[i:])
    rb = SSeq(b.kind, cb[j:])
    conj.append(ra.to_z3() == rb.to_z3())
    return lower_bool(z3.And(*conj) if len(conj) > 1 else conj[0])


def int_term_e(e):
    return z3.IntVal(e) if isinstance(e, int) else e


def contains(I, container, item):
    container = I.resolve_opt(container)
    from .sym import SDict
    from . import symset as _ss
    if isinstance(container, _ss.SSet):
        return _ss.contains(I, container, I.resolve_opt(item))
    if isinstance(container, _pyvc().SList):
        base = container
        while getattr(base, 'op', None) == 'sorted':
            base = base.base
        od = getattr(base, 'of_dict', None)
        if od is not None and od[1] == 'keys':
            container = od[0]          # membership in (the sorted list of) a dictionary's keys
    if isinstance(container, SDict):
        from .builtins_model import sdict_get
        return lower_bool(z3.Not(sdict_get(I, container, item).isnone))
    if isinstance(container, (list, tuple, set, frozenset)):
        acc = False
        for x in container:
            r = equals(I, x, item)
            if isinstance(r, bool):
                if r:
                    return True
            else:
                acc = r.t if acc is False else z3.Or(acc, r.t)
        return acc if isinstance(acc, bool) else lower_bool(acc)
    if isinstance(container, dict):
        item = I.resolve_opt(item)
        if (is_symbolic(item) and not isinstance(item, Obj)) or dict_has_symkeys(container):
            from .sym import unkey
            return contains(I, [unkey(k) for k in container.keys()], item)
        try:
            return item in container
        except TypeError:
            return False
    if isinstance(container, (str, bytes)) and not is_symbolic(item):
        return item in container
    if isinstance(container, type) and issubclass(container, enum.Enum):
        if isinstance(item, SEnum):
            return item.cls is container
        return item in container
    if isinstance(container, Opaque):
        # membership in an uninterpreted collection: the same question gets the same answer, and
        # the question is recorded (trace predicates ask what a path established about it)
        from .builtins_model import key_identity
        memo = container.fields.setdefault('__contains__', {})
        kid = key_identity(I, I.resolve_opt(item))[0]
        if kid not in memo:
            memo[kid] = SBool(fresh("in", z3.BoolSort()))
        I.path.event('contains', id(container), container.name, item, memo[kid].t)
        return memo[kid]
    if isinstance(container, _pyvc().SList):
        return SBool(fresh("in", z3.BoolSort()))
    if isinstance(container, Obj):
        m = I._class_attr(container.cls, '__contains__')
        if m is not None:
            return I.call_value(_pyvc().BoundMethod(container, m), [item], {})
    raise OutOfFragment("`in` on %r" % (container,))


# ------------------------------------------------------------------ slicing / indexing

def _seq_take(I, s, n):
    """Split SSeq s at concrete n >= 0 : (prefix chunks, suffix chunks).
    Python slice semantics: if the sequence is shorter the prefix is everything."""
    pre, i = [], 0
    need = n
    chunks = list(s.chunks)
    while need > 0 and i < len(chunks):
        c = chunks[i]
        if c[0] == 'u':
            if len(c[1]) <= need:
                pre.append(c)
                need -= len(c[1])
                i += 1
            else:
                pre.append(('u', c[1][:need]))
                chunks[i] = ('u', c[1][need:])
                need = 0
        else:
            t = c[1]
            mx = c[2][1]
            bd = c[2]
            ln = z3.Length(t)
            if I.path.is_valid(ln >= need):
                els, rest = I.path.split_fixed(t, need, mx)
                pre.append(('u', els))
                chunks[i] = ('s', rest, bd)
                need = 0
            elif I.path.branch(ln >= need):
                els, rest = I.path.split_fixed(t, need, mx)
                pre.append(('u', els))
                chunks[i] = ('s', rest, bd)
                need = 0
            else:
                # the symbolic chunk is shorter than needed: learn its exact length by cases
                k = None
                for cand in range(need):
                    if I.path.branch(ln == cand):
                        k = cand
                        break
                if k is None:
                    raise _pyvc().Infeasible()
                els, rest = I.path.split_fixed(t, k, mx)
                I.path.assume(z3.Length(rest) == 0)
                pre.append(('u', els))
                need -= k
                i += 1
    return pre, chunks[i:]


def _slice_symlist(I, v, lo, hi):
    """L[lo:hi] on a list of symbolic length with non-negative bounds: the list term slice(L, lo, hi);
    its length is max(0, min(hi, n) - min(lo, n))."""
    n = v.length if not isinstance(v.length, int) else z3.IntVal(v.length)
    lo_t = z3.IntVal(0) if lo is None else int_term(I.resolve_opt(lo))
    hi_t = n if hi is None else int_term(I.resolve_opt(hi))
    for t in (lo_t, hi_t):
        if not I.path.is_valid(t >= 0):
            if not I.path.branch(t >= 0):
                raise OutOfFragment("negative slice bound on a list of symbolic length")
    start = z3.If(lo_t < n, lo_t, n)
    stop = z3.If(hi_t < n, hi_t, n)
    ln = fresh("slicelen")
    I.path.assume(ln == z3.If(stop > start, stop - start, 0))
    return _pyvc().LTerm('slice', v, {'lo': None if lo is None else lo_t, 'hi': None if hi is None else hi_t},
                         v.name + ".slice", ln, v.elem_factory, v.taint)


def slice_(I, v, lo, hi, step):
    v = I.resolve_opt(v)
    if step is not None and step != 1:
        if not is_symbolic(v) and not is_symbolic(lo) and not is_symbolic(hi):
            return v[lo:hi:step]
        raise OutOfFragment("slice step")
    if isinstance(v, _pyvc().MutBytes):
        v = v.v
    if not is_symbolic(v) and not is_symbolic(lo) and not is_symbolic(hi) and not _has_sym(v):
        try:
            return v[lo:hi]
        except Exception as e:
            I.raise_py(type(e), *e.args)
    if isinstance(v, (list, tuple)):
        if not is_symbolic(lo) and not is_symbolic(hi):
            return v[lo:hi]
        raise OutOfFragment("list slice with symbolic bounds")
    if isinstance(v, Opaque):
        return Opaque(v.pykind, 'slice', v.taint)
    if isinstance(v, _pyvc().SList):
        return _slice_symlist(I, v, lo, hi)
    if not is_seq_like(v):
        raise OutOfFragment("slice of %r" % (v,))
    s = seq_of(v)
    lo = 0 if lo is None else lo
    total = s.length()
    if isinstance(lo, (SInt, SBool)):
        c = I.path.try_concretize(int_term(lo))
        lo = c if c is not None else lo
    if isinstance(hi, (SInt, SBool)):
        c = I.path.try_concretize(int_term(hi))
        hi = c if c is not None else hi
    # --- concrete bounds
    if isinstance(lo, int) and (hi is None or isinstance(hi, int)):
        if lo < 0 or (hi is not None and hi < 0):
            if isinstance(total, int):
                return seq_lower(_slice_conc(s, lo, hi))
            raise OutOfFragment("negative slice bound on symbolic-length sequence")
        if hi is None:
            _, suf = _seq_take(I, s, lo)
            return seq_lower(SSeq(s.kind, suf, s.taint, s.bound))
        if hi <= lo:
            return b'' if s.kind == 'bytes' else ''
        pre, _ = _seq_take(I, s, hi)
        p2 = SSeq(s.kind, pre, s.taint, s.bound)
        _, suf = _seq_take(I, p2, lo)
        return seq_lower(SSeq(s.kind, suf, s.taint, s.bound))
    # --- symbolic bounds: ghost prefix/suffix split
    lo_t = int_term(lo)
    tot_t = total if not isinstance(total, int) else z3.IntVal(total)
    if not I.path.is_valid(z3.And(lo_t >= 0)):
        if not I.path.branch(lo_t >= 0):
            raise OutOfFragment("negative symbolic slice bound")
    if hi is None:
        hi_t = tot_t
    else:
        hi_t = int_term(hi)
        if not I.path.is_valid(hi_t >= 0):
            if not I.path.branch(hi_t >= 0):
                raise OutOfFragment("negative symbolic slice bound")
        if not I.path.is_valid(hi_t <= tot_t):
            if not I.path.branch(hi_t <= tot_t):
                hi_t = tot_t
    if not I.path.is_valid(lo_t <= hi_t):
        if not I.path.branch(lo_t <= hi_t):
            return b'' if s.kind == 'bytes' else ''
    whole = s.to_z3()
    if not z3.is_const(whole) or whole.decl().kind() != z3.Z3_OP_UNINTERPRETED:
        w = fresh("w", IntSeq)
        I.path.assume(w == whole)
        whole = w
    # [lo:hi] : split at hi, then split the prefix at lo
    if I.path.is_valid(hi_t == tot_t):
        pre = whole
    else:
        pre, _ = I.path.split_sym(whole, hi_t)
    if I.path.is_valid(lo_t == 0):
        res = pre
    else:
        _, res = I.path.split_sym(pre, lo_t)
    return SSeq(s.kind, [('s', res)], s.taint, s.bound)


def _slice_conc(s, lo, hi):
    els = [e for c in s.chunks for e in c[1]]
    return SSeq(s.kind, [('u', els[lo:hi])], s.taint)


def index(I, v, idx):
    v = I.resolve_opt(v)
    idx = I.resolve_opt(idx)
    from .sym import SDict
    if isinstance(v, SDict):
        from .builtins_model import sdict_get
        r = sdict_get(I, v, idx)
        if I.path.branch(r.isnone):
            I.raise_py(KeyError, "symbolic key")
        return r.v
    MB = _pyvc().MutBytes
    if isinstance(v, MB):
        v = v.v
    if isinstance(v, dict):
        if (is_symbolic(idx) and not isinstance(idx, Obj)) or dict_has_symkeys(v):
            return _dict_sym_lookup(I, v, idx)
        try:
            return v[idx]
        except KeyError as e:
            I.raise_py(KeyError, *e.args)
        except TypeError as e:
            I.raise_py(TypeError, *e.args)
    if isinstance(v, (list, tuple)):
        if isinstance(idx, SInt):
            n = len(v)
            for k in range(-n, n):
                if I.path.branch(idx.t == k):
                    return v[k]
            I.raise_py(IndexError, "list index out of range")
        try:
            return v[idx]
        except Exception as e:
            I.raise_py(type(e), *e.args)
    if is_seq_like(v):
        s = seq_of(v)
        if isinstance(idx, int) and not isinstance(idx, bool):
            total = s.length()
            if idx < 0:
                if isinstance(total, int):
                    idx = total + idx
                    if idx < 0:
                        I.raise_py(IndexError, "index out of range")
                else:
                    raise OutOfFragment("negative index into symbolic-length sequence")
            if isinstance(total, int):
                if idx >= total:
                    I.raise_py(IndexError, "index out of range")
            else:
                if not I.path.is_valid(total > idx):
                    if not I.path.branch(total > idx):
                        I.raise_py(IndexError, "index out of range")
            pre, _ = _seq_take(I, s, idx + 1)
            els = [e for c in pre for e in c[1]]
            e = els[idx]
            if s.kind == 'bytes':
                return e if isinstance(e, int) else SInt(e, s.taint)
            return seq_lower(SSeq('str', [('u', [e])], s.taint))
        raise OutOfFragment("symbolic index into sequence")
    import enum as _enum
    if isinstance(v, type) and issubclass(v, _enum.Enum) and isinstance(idx, (SInt, SBool)):
        I.path.event('enum.lookup', v, idx, False)       # member names are strings
        I.raise_py(KeyError, idx)
    if isinstance(v, type) and issubclass(v, _enum.Enum) and not is_symbolic(idx) and not isinstance(idx, str):
        I.path.event('enum.lookup', v, idx, False)
        try:
            hash(idx)
        except TypeError as e:
            I.raise_py(TypeError, *e.args)
        I.raise_py(KeyError, idx)
    if isinstance(v, type) and issubclass(v, _enum.Enum) and isinstance(idx, (SSeq, Opaque)):
        # EnumClass[name] with an unknown name: some member, or KeyError
        found = I.path.choose(2, "enum-name-known") == 0
        if isinstance(idx, Opaque) and I.pytype(idx) not in (None, str):
            found = False
        I.path.event('enum.lookup', v, idx, found)
        if not found:
            I.raise_py(KeyError, idx)
        from .modular import make_symbolic
        return make_symbolic(I, ('enum', v), "%s[...]" % v.__name__)
    if isinstance(v, Opaque):
        return Opaque('object', v.name + '[]', v.taint)
    if isinstance(v, Obj):
        m = I._class_attr(v.cls, '__getitem__')
        if m is not None:
            return I.call_value(_pyvc().BoundMethod(v, m), [idx], {})
    if isinstance(v, _pyvc().SList):
        if isinstance(idx, int) and idx >= 0:
            ln = v.length if not isinstance(v.length, int) else z3.IntVal(v.length)
            if not I.path.is_valid(ln > idx):
                if not I.path.branch(ln > idx):
                    I.raise_py(IndexError, "list index out of range")
            while len(v.prefix) <= idx:
                x = v.elem_factory(I, "p%d" % len(v.prefix))
                v.prefix.append(x)
                v.members.append(x)
            return v.prefix[idx]
        raise OutOfFragment("index into symbolic list")
    if not is_symbolic(v) and not is_symbolic(idx):
        try:
            return v[idx]
        except Exception as e:
            I.raise_py(type(e), *e.args)
    raise OutOfFragment("index %r[%r]" % (v, idx))


def _dict_sym_lookup(I, d, key):
    kk = dict_find(I, d, key)
    if kk is not None:
        return d[kk]
    I.raise_py(KeyError, "symbolic key")


def note_list_mutation(I, lst):
    """In-place mutation of a list that is a column/relationship of a stored object is a store
    effect (pending change of an attached object)."""
    own = I.path.ghost.get('owned_lists', {}).get(id(lst))
    if own is not None:
        o, f = own
        I.path.event('db.mutate', id(o), f, None, None, bool(o.meta.get('attached')), o.cls.__name__)


def setitem(I, obj, idx, value):
    obj = I.resolve_opt(obj)
    from .sym import SDict
    if isinstance(obj, SDict):
        # d[k] = v on a dictionary of unknown content: entries learnt for other keys may alias k
        # (symbolic keys), so they are forgotten; the entry for k itself is now known
        from .builtins_model import key_identity
        kid, key = key_identity(I, idx)
        from .builtins_model import sdict_get
        was_absent = sdict_get(I, obj, idx).isnone       # known before the write (for trace predicates)
        obj.freeze_initial()
        obj.memo.clear()
        obj.keys_.clear()
        obj.memo[kid] = SOpt(z3.BoolVal(False), value)
        obj.keys_[kid] = key
        if obj.keyset is not None and isinstance(key, (str, SSeq)):
            from . import symset
            obj.keyset = z3.SetAdd(obj.keyset, symset.elem_term(key))
            obj.empty = z3.BoolVal(False)
        I.path.event('dict.set', id(obj), obj.name, idx, value, was_absent)
        obj.version = getattr(obj, 'version', 0) + 1
        return
    if isinstance(obj, dict):
        idx = I.resolve_opt(idx)
        if (is_symbolic(idx) and not isinstance(idx, (Obj, Opaque, SEnum))) or dict_has_symkeys(obj):
            from .sym import SymKey
            kk = dict_find(I, obj, idx)
            if kk is None:
                kk = SymKey(idx) if (is_symbolic(idx) and not isinstance(idx, (Obj, Opaque))) else I.hashable(idx)
            obj[kk] = value
            return
        obj[I.hashable(idx)] = value
        return
    if isinstance(obj, list):
        note_list_mutation(I, obj)
        if isinstance(idx, SInt):
            n = len(obj)
            for k in range(-n, n):
                if I.path.branch(idx.t == k):
                    obj[k] = value
                    return
            I.raise_py(IndexError, "list assignment index out of range")
        try:
            obj[idx] = value
        except IndexError as e:
            I.raise_py(IndexError, *e.args)
        return
    if isinstance(obj, Opaque):
        return
    raise OutOfFragment("setitem on %r" % (obj,))


def delitem(I, obj, idx):
    obj = I.resolve_opt(obj)
    if isinstance(obj, list):
        note_list_mutation(I, obj)
    if isinstance(obj, (dict, list)) and not is_symbolic(idx):
        try:
            del obj[idx]
        except (KeyError, IndexError) as e:
            I.raise_py(type(e), *e.args)
        return
    from .sym import SDict
    if isinstance(obj, SDict) and not is_symbolic(idx):
        from .builtins_model import sdict_get
        ent = sdict_get(I, obj, idx)
        if I.path.branch(ent.isnone):
            I.raise_py(KeyError, idx)
        # the key is gone afterwards (other keys keep what was learnt about them)
        kid = ('c', idx)
        obj.freeze_initial()
        obj.memo[kid] = SOpt(z3.BoolVal(True), ent.v)
        if obj.keyset is not None and isinstance(idx, str):
            from . import symset
            obj.keyset = z3.SetDel(obj.keyset, symset.elem_term(idx))
            obj.empty = fresh("empty_" + obj.name, z3.BoolSort())
            I.path.assume(obj.empty == (obj.keyset == symset.EMPTY))
        I.path.event('dict.del', id(obj), obj.name, idx, None)
        obj.version = getattr(obj, 'version', 0) + 1
        return
    raise OutOfFragment("delitem on %r" % (obj,))


# ------------------------------------------------------------------ strings

def to_str(I, v):
    v = I.resolve_opt(v)
    if isinstance(v, str):
        return v
    if isinstance(v, SSeq) and v.kind == 'str':
        return v
    if isinstance(v, Obj):
        m = I._class_attr(v.cls, '__str__')
        if m is not None and isinstance(m, types.FunctionType):
            return I.call_value(_pyvc().BoundMethod(v, m), [], {})
        m = I._class_attr(v.cls, '__repr__')
        if m is not None and isinstance(m, types.FunctionType):
            return I.call_value(_pyvc().BoundMethod(v, m), [], {})
        return Opaque('str', 'str(obj)', taint_of(v), {'nonempty'})
    if isinstance(v, ExcVal):
        m = I._class_attr(v.cls, '__str__')
        if m is not None and isinstance(m, types.FunctionType):
            return I.call_value(_pyvc().BoundMethod(v, m), [], {})
        if len(v.args) == 1:
            return to_str(I, v.args[0])
        if not v.args:
            return ''
        return Opaque('str', 'str(exc)', taint_of(v), {'nonempty'})
    if isinstance(v, Opaque) and v.pykind == 'str':
        return v
    if isinstance(v, SInt):
        r = Opaque('str', 'str(int)', taint_of(v), {'nonempty'})
        r.fields['__str_of__'] = v
        return r
    if is_symbolic(v):
        facts = {'nonempty'} if isinstance(v, (SInt, SBool, SEnum)) else set()
        if isinstance(v, Opaque):
            facts = set(v.facts) & {'nonempty'}
            if v.pykind in ('int', 'float', 'bool'):
                facts.add('nonempty')
        return Opaque('str', 'str()', taint_of(v), facts)
    if _has_sym(v):
        return Opaque('str', 'str(container)', taint_of(v), {'nonempty'})
    try:
        return str(v)
    except Exception as e:
        I.raise_py(type(e), *e.args)


def join_str(I, parts):
    if all(isinstance(p, str) for p in parts):
        return ''.join(parts)
    taint = frozenset()
    nonempty = False
    for p in parts:
        taint |= taint_of(p)
        if isinstance(p, str) and p:
            nonempty = True
        if isinstance(p, Opaque) and 'nonempty' in p.facts:
            nonempty = True
    return Opaque('str', 'joined', taint, {'nonempty'} if nonempty else set())


def format_opaque(I, fmt, args, kwargs=None):
    kwargs = kwargs or {}
    vals = list(args) + list(kwargs.values())
    strs = [to_str(I, a) if not isinstance(a, (int, str)) or isinstance(a, enum.Enum) else a for a in vals]
    if isinstance(fmt, str) and all(isinstance(s, (int, str)) for s in strs):
        try:
            if args and isinstance(args, tuple) and '%' in fmt and '{' not in fmt:
                return fmt % tuple(strs[:len(args)])
        except Exception:
            pass
    taint = taint_of(fmt)
    for s in strs:
        taint |= taint_of(s)
    facts = set()
    if isinstance(fmt, str):
        import re
        if re.sub(r'\{[^}]*\}|%[sdrx]', '', fmt):
            facts.add('nonempty')
    r = Opaque('str', 'format', taint, facts)
    r.fields['__fmt__'] = (fmt, tuple(args), tuple(sorted((kwargs or {}).items())))
    return r


# ------------------------------------------------------------------ parts 2 and 3
from .builtins_model import snapshot_value, native_method_call, SymRange, be_chunks, builtin_method  # noqa: E402,F401
from .models_rt import (instantiate, class_data_attr, native_descriptor, native_call,  # noqa: E402,F401
                        opaque_call, opaque_getattr, decorator_model, with_enter, with_exit,
                        symbolic_for, symbolic_while, opaque_external, INSTANTIATE_HOOKS,
                        EXTERNAL_HOOK)
