"""ttlvsym - parametric execution of the real TTLV *structure* classes.

The unmodified read()/write() methods of every structure class run in CPython.
Every callee they reach that is under a pyvc-proved contract (the primitives'
read/write/validate, BytearrayStream, Base.read_tag/read_type/read_length/
write_tag/write_type/write_length/is_tag_next/is_type_next/is_oversized) is
replaced, in this process only, by a stub that *is* that contract, operating on
an item-level view of the byte string:

    Item(tag, type, length, leaf symbol | children | raw symbol)

Leaf values are fail-stop symbols: any operation on them other than identity
raises Inspect(symbol); the explorer then re-runs the path with that leaf
enumerated over its (finite) domain.  One run per *shape* is therefore a proof
for all leaf values of that shape.

Exploration is decoder-driven: read() runs on an *oracle* stream which, whenever
the code looks at bytes not yet determined, forks over the possible
continuations (the tag asked for / not that tag / end of structure).  Every
accepting path yields a byte string b the decoder accepts together with
x = decode(b).  Obligations per accepting path and KMIP version:

  enc.ok      write(x) returns normally
  wf          every structure header written carries length == size of its children
  dec2.ok     read(write(x)) returns normally
  rt.eq       read(write(x)) == x   (class __eq__ where defined AND leaf identity field-wise)
  reenc.same  write(read(write(x))) == write(x)
  canon       write(x) == b   (the oracle only builds canonical encodings)
"""
import enum
import struct
import sys
import types

from kmip.core import enums, exceptions, primitives, utils


class Inspect(Exception):
    """Structure code inspected a leaf symbol."""

    def __init__(self, sym, op):
        Exception.__init__(self, "inspected %r via %s" % (sym, op))
        self.sym = sym
        self.op = op


class OutOfFragmentT(Exception):
    pass


class PathDone(Exception):
    pass


# ------------------------------------------------------------------ linear sizes

class Lin(object):
    """const + sum coef * atom ; atoms are hashable (('P', sid) = padded size of a
    variable-length leaf, ('L', k) = length of an oracle structure still open)."""
    __slots__ = ("c", "t")

    def __init__(self, c=0, t=None):
        self.c = c
        self.t = dict(t or {})

    @staticmethod
    def of(x):
        if isinstance(x, Lin):
            return x
        if isinstance(x, int):
            return Lin(x)
        raise TypeError("Lin.of(%r)" % (x,))

    def __add__(self, o):
        o = Lin.of(o)
        t = dict(self.t)
        for k, v in o.t.items():
            t[k] = t.get(k, 0) + v
            if t[k] == 0:
                del t[k]
        return Lin(self.c + o.c, t)

    __radd__ = __add__

    def subst(self, env):
        r = Lin(self.c)
        for k, v in self.t.items():
            if k in env:
                e = Lin.of(env[k]).subst(env)
                r = r + Lin(e.c * v, {a: b * v for a, b in e.t.items()})
            else:
                r = r + Lin(0, {k: v})
        return r

    def key(self):
        return (self.c, tuple(sorted(self.t.items())))

    def is_int(self):
        return not self.t

    def __repr__(self):
        if not self.t:
            return str(self.c)
        return "%d+%s" % (self.c, "+".join("%s%s" % ("" if v == 1 else "%d*" % v, k) for k, v in sorted(self.t.items())))


def lin_eq(a, b, env):
    return Lin.of(a).subst(env).key() == Lin.of(b).subst(env).key()


# ------------------------------------------------------------------ symbols

class _SymBase(object):
    pass


def _failstop(name):
    def f(self, *a, **k):
        raise Inspect(self, name)
    f.__name__ = name
    return f


class SymInt(int, _SymBase):
    def __new__(cls, sid, kind):
        o = int.__new__(cls, 0)
        o.sid = sid
        o.kind = kind
        return o

    def __repr__(self):
        return "<int#%d %s>" % (self.sid, self.kind)

    def __eq__(self, other):
        if isinstance(other, SymInt):
            if other.sid == self.sid:
                return True
            raise Inspect(self, "== other symbol")
        raise Inspect(self, "==")

    def __ne__(self, other):
        return not self.__eq__(other)

    def __hash__(self):
        return hash(("symint", self.sid))


for _n in ("__lt__", "__le__", "__gt__", "__ge__", "__add__", "__radd__", "__sub__", "__rsub__", "__mul__",
           "__rmul__", "__floordiv__", "__mod__", "__truediv__", "__neg__", "__abs__", "__and__", "__or__",
           "__xor__", "__lshift__", "__rshift__", "__bool__", "__index__", "__int__", "__float__", "__str__",
           "__format__", "__pow__", "__rand__", "__ror__", "__invert__", "__divmod__", "__pos__"):
    setattr(SymInt, _n, _failstop(_n))


class SymStr(str, _SymBase):
    def __new__(cls, sid, kind="text"):
        o = str.__new__(cls, "⟪sym%d⟫" % sid)
        o.sid = sid
        o.kind = kind
        return o

    def __repr__(self):
        return "<str#%d>" % self.sid

    def __eq__(self, other):
        if isinstance(other, SymStr):
            if other.sid == self.sid:
                return True
            raise Inspect(self, "== other symbol")
        raise Inspect(self, "==")

    def __ne__(self, other):
        return not self.__eq__(other)

    def __hash__(self):
        raise Inspect(self, "hash")


for _n in ("__lt__", "__le__", "__gt__", "__ge__", "__add__", "__radd__", "__mul__", "__mod__", "__contains__",
           "__getitem__", "__iter__", "__bool__", "__format__", "__str__", "encode", "format", "split", "lower",
           "upper", "strip", "startswith", "endswith", "replace", "join", "find", "index", "count", "capitalize"):
    setattr(SymStr, _n, _failstop(_n))


class SymBytes(bytes, _SymBase):
    def __new__(cls, sid, kind="bytes"):
        o = bytes.__new__(cls, b"\x00")
        o.sid = sid
        o.kind = kind
        return o

    def __repr__(self):
        return "<bytes#%d>" % self.sid

    def __eq__(self, other):
        if isinstance(other, SymBytes):
            if other.sid == self.sid:
                return True
            raise Inspect(self, "== other symbol")
        raise Inspect(self, "==")

    def __ne__(self, other):
        return not self.__eq__(other)

    def __hash__(self):
        raise Inspect(self, "hash")


for _n in ("__lt__", "__le__", "__gt__", "__ge__", "__add__", "__radd__", "__mul__", "__contains__",
           "__getitem__", "__iter__", "__bool__", "decode", "hex", "split", "startswith", "find"):
    setattr(SymBytes, _n, _failstop(_n))

_PSEUDO = {}


def pseudo_member(cls, sid):
    """A symbolic member of enum class cls: an instance of cls that is not any of
    its members.  Enum equality is patched to be fail-stop on these."""
    m = object.__new__(cls)
    m._name_ = "SYM%d" % sid
    m._value_ = SymInt(sid, "enumvalue")
    m.__objclass__ = cls
    m._sid = sid
    _PSEUDO[id(m)] = m
    return m


def is_pseudo(x):
    return isinstance(x, enum.Enum) and getattr(x, "_sid", None) is not None


def sym_id(v):
    if isinstance(v, _SymBase):
        return ("s", v.sid)
    if is_pseudo(v):
        return ("e", v._sid)
    if type(v).__name__ == 'OpaqueSym':
        return ("o", v.sid)
    d = getattr(type(v), '__mro__', ())
    if len(d) > 1 and type(v).__name__.startswith('Sym'):
        try:
            o = object.__getattribute__(v, '__dict__').get('_ttlvsym_opaque')
        except Exception:
            o = None
        if o is not None:
            return ("o", o.sid)
    return None


def _enum_eq(self, other):
    if is_pseudo(self) or is_pseudo(other):
        if self is other or (is_pseudo(self) and is_pseudo(other) and self._sid == other._sid
                             and type(self) is type(other)):
            return True
        raise Inspect(self if is_pseudo(self) else other, "enum ==")
    return self is other


def _enum_ne(self, other):
    return not _enum_eq(self, other)


def _enum_hash(self):
    if is_pseudo(self):
        raise Inspect(self, "enum hash")
    return hash(self._name_)


# ------------------------------------------------------------------ items and streams

class Item(object):
    __slots__ = ("tag", "type", "length", "kind", "sym", "children", "enum_cls", "pending", "lvar",
                 "declared")

    def __init__(self, tag=None, type_=None, length=None, kind=None, sym=None, children=None, enum_cls=None):
        self.tag = tag
        self.type = type_
        self.length = length      # value of the length field (int | Lin)
        self.kind = kind          # 'struct' | 'raw' | primitive class name
        self.sym = sym
        self.children = children
        self.enum_cls = enum_cls
        self.pending = False
        self.lvar = None
        self.declared = None

    def size(self):
        """encoded size (header + padded value)"""
        if self.kind == 'struct':
            s = Lin(8)
            for c in self.children:
                s = s + c.size()
            return s
        if self.kind == 'raw':
            return Lin(0, {('R', sym_key(self.sym)): 1})
        if self.kind == 'opaque':
            return Lin(8, {('O', self.sym.sid): 1})
        if self.kind in ('TextString', 'ByteString', 'BigInteger'):
            if isinstance(self.sym, (_SymBase,)):
                return Lin(8, {('P', self.sym.sid): 1})
            n = len(self.sym) if not isinstance(self.sym, int) else 8
            return Lin(8 + n + (8 - n % 8) % 8)
        return Lin(16)

    def body_size(self):
        s = Lin(0)
        for c in self.children:
            s = s + c.size()
        return s

    def signature(self):
        if self.kind == 'struct':
            return (self.tag, 'struct', tuple(c.signature() for c in self.children))
        return (self.tag, self.type, self.kind, leaf_sig(self.sym), self.enum_cls)

    def tree(self):
        """JSON-able description (used to rebuild real bytes in replays)."""
        d = {"tag": getattr(self.tag, 'name', None), "kind": self.kind}
        if self.kind == 'struct':
            d["children"] = [c.tree() for c in self.children]
        elif self.kind == 'opaque':
            d["cls"] = self.sym.cls.__module__ + '.' + self.sym.cls.__qualname__
            rv = getattr(self.sym, 'read_version', None)
            if rv is not None:
                # the version the enclosing decoder hands to the nested read (a message decodes
                # its batch items under the version its header announces, not the caller's)
                d["version"] = getattr(rv, 'name', str(rv))
        elif self.kind == 'raw':
            pass
        else:
            v = self.sym
            if sym_id(v) is not None:
                d["value"] = {"sym": sym_id(v)[1]}
            elif isinstance(v, enum.Enum):
                d["value"] = {"member": v.name}
            elif isinstance(v, bytes):
                d["value"] = {"hex": v.hex()}
            else:
                d["value"] = {"const": v}
            if self.enum_cls is not None:
                d["enum"] = self.enum_cls.__name__
        return d

    def __repr__(self):
        if self.kind == 'struct':
            return "S(%s,[%s])" % (getattr(self.tag, 'name', self.tag), ",".join(map(repr, self.children)))
        return "%s(%s=%r)" % (self.kind, getattr(self.tag, 'name', self.tag), self.sym)


def sym_key(v):
    k = sym_id(v)
    return k if k is not None else ('c', repr(v))


def leaf_sig(v):
    k = sym_id(v)
    if k is not None:
        return k
    if isinstance(v, enum.Enum):
        return ('m', type(v).__name__, v.name)
    return ('c', type(v).__name__, repr(v))


class Body(object):
    """Handle on a list of items (the value of a structure / a stream's content)."""

    def __init__(self, items, opener=None):
        self.items = items
        self.opener = opener      # Item whose body this is when produced by an oracle stream

    def __eq__(self, other):
        if isinstance(other, Body):
            return [i.signature() for i in self.items] == [i.signature() for i in other.items]
        return NotImplemented

    def __ne__(self, other):
        r = self.__eq__(other)
        return r if r is NotImplemented else not r

    def __len__(self):
        return len(self.items) * 8

    __hash__ = None


class State(object):
    """Per-path state."""

    def __init__(self, decisions, concretize):
        self.decisions = list(decisions)
        self.pos = 0
        self.alternatives = []
        self.next_sid = 0
        self.leaf_ordinal = 0
        self.concretize = concretize      # set of leaf ordinals that must be enumerated
        self.env = {}                     # ('L', k) -> Lin
        self.nl = 0
        self.wf_errors = []
        self.list_bound = 2
        self.notes = []
        self.sym_origin = {}
        self.domains_used = []
        self.list_bounded = False

    def choose(self, n, label=""):
        if n <= 1:
            return 0
        if self.pos < len(self.decisions):
            d = self.decisions[self.pos]
            self.pos += 1
            return d
        for k in range(n - 1, 0, -1):
            self.alternatives.append(self.decisions[:] + [k])
        self.decisions.append(0)
        self.pos += 1
        return 0

    def fresh_sid(self):
        self.next_sid += 1
        return self.next_sid


ST = [None]       # current State


def st():
    return ST[0]


# ------------------------------------------------------------------ leaf creation

INT_SAMPLE_DOMAIN = [0, 1, 2147483647, -1]
# Leaves consumed by C-level code that reads an int subclass's machine value without any
# interceptable operation (range(batch_count.value)): always enumerated.  The byte-level
# cross-check on the real code (obligation native.accepts) is the safety net for this class.
FORCE_CONCRETE = {enums.Tags.BATCH_COUNT}
# Discriminator hints: finite domains for leaves the structure code dispatches on
# but whose type is not itself finite.  (Enumerations and booleans need no hint.)
STR_DOMAINS = {
    enums.Tags.ATTRIBUTE_NAME: [m.value for m in enums.AttributeType] + ['x-vendor-attribute'],
}
INT_DOMAINS = {
    enums.Tags.PROTOCOL_VERSION_MAJOR: [1, 2, 3],
    enums.Tags.PROTOCOL_VERSION_MINOR: [0, 1, 2, 3, 4, 5],
    enums.Tags.BATCH_COUNT: [0, 1, 2],
}


def leaf_domain(prim, tag):
    """Finite domain used when structure code inspects this leaf."""
    name = type(prim).__name__
    if isinstance(prim, primitives.Enumeration):
        return list(prim.enum), True
    if isinstance(prim, primitives.Boolean):
        return [True, False], True
    if isinstance(prim, primitives.TextString):
        d = STR_DOMAINS.get(tag)
        if d is not None:
            return list(d), False
        return ['', 'x'], False
    if isinstance(prim, (primitives.Integer, primitives.LongInteger, primitives.Interval,
                         primitives.BigInteger)):
        d = INT_DOMAINS.get(tag)
        if d is not None:
            return list(d), False
        return list(INT_SAMPLE_DOMAIN) if not isinstance(prim, primitives.Interval) else [0, 1, 4294967295], False
    if isinstance(prim, primitives.ByteString):
        return [b'', b'x'], False
    return None, False


def prim_kind(prim):
    for k in (primitives.DateTime, primitives.LongInteger, primitives.BigInteger, primitives.Integer,
              primitives.Enumeration, primitives.Boolean, primitives.TextString, primitives.ByteString,
              primitives.Interval):
        if isinstance(prim, k):
            return k.__name__
    raise OutOfFragmentT("unknown primitive %r" % (prim,))


_IDENTITY_ENUMS = []


def identity_dispatched_enums():
    """Enumeration classes whose members the library compares with `is` / `is not`
    (found by scanning the source of kmip.core).  Identity tests cannot be made
    fail-stop, so leaves of these classes are always enumerated concretely."""
    if _IDENTITY_ENUMS:
        return _IDENTITY_ENUMS[0]
    import ast
    import os
    import kmip.core as core
    found = set()
    root = os.path.dirname(core.__file__)
    for dp, dn, fn in os.walk(root):
        for f in fn:
            if not f.endswith('.py'):
                continue
            try:
                tree = ast.parse(open(os.path.join(dp, f)).read())
            except SyntaxError:
                continue
            for n in ast.walk(tree):
                if isinstance(n, ast.Compare) and any(isinstance(o, (ast.Is, ast.IsNot)) for o in n.ops):
                    for side in [n.left] + list(n.comparators):
                        if isinstance(side, ast.Attribute) and isinstance(side.value, (ast.Attribute, ast.Name)):
                            cname = side.value.attr if isinstance(side.value, ast.Attribute) else side.value.id
                            k = getattr(enums, cname, None)
                            if isinstance(k, type) and issubclass(k, enum.Enum) and side.attr in k.__members__:
                                found.add(k)
    found.discard(enums.Tags)
    found.discard(enums.Types)
    found.discard(enums.KMIPVersion)
    _IDENTITY_ENUMS.append(found)
    return found


def fresh_leaf(prim):
    """Fresh leaf value for primitive object `prim` at the oracle frontier."""
    S = st()
    S.leaf_ordinal += 1
    ordinal = S.leaf_ordinal
    kind = prim_kind(prim)
    if prim.tag in FORCE_CONCRETE:
        dom, exact = leaf_domain(prim, prim.tag)
        v = dom[S.choose(len(dom), "forced-domain")]
        S.domains_used.append((getattr(prim.tag, 'name', str(prim.tag)), kind, len(dom), exact))
        return v
    if kind == 'Enumeration' and prim.enum in identity_dispatched_enums():
        dom = list(prim.enum)
        v = dom[S.choose(len(dom), "identity-enum")]
        S.domains_used.append((getattr(prim.tag, 'name', str(prim.tag)), kind, len(dom), True))
        return v
    if (prim.tag, kind) in S.concretize:
        dom, exact = leaf_domain(prim, prim.tag)
        if dom is None:
            raise OutOfFragmentT("leaf %s (%s) is inspected by structure code and has no finite domain"
                                 % (getattr(prim.tag, 'name', prim.tag), kind))
        v = dom[S.choose(len(dom), "leaf-domain")]
        S.domains_used.append((getattr(prim.tag, 'name', str(prim.tag)), kind, len(dom), exact))
        return v
    sid = S.fresh_sid()
    if kind == 'Enumeration':
        v = pseudo_member(prim.enum, sid)
    elif kind == 'TextString':
        v = SymStr(sid)
    elif kind == 'ByteString':
        v = SymBytes(sid)
    else:
        v = SymInt(sid, kind)
    S.sym_origin[sid] = (prim.tag, kind)
    return v


# ------------------------------------------------------------------ stubs: BytearrayStream

def _bs_init(self, data=None):
    self._hdr = []
    self._cur = 0
    self._stage = 0
    self._open = False
    self._excluded = set()
    self._count = {}
    self._opener = None
    self._stack = []
    if data is None:
        self._items = []
    elif isinstance(data, Body):
        self._items = data.items
        if data.opener is not None:
            self._open = True
            self._opener = data.opener
    elif isinstance(data, (bytes, bytearray)):
        if len(data) == 0:
            self._items = []
        else:
            raise OutOfFragmentT("BytearrayStream over concrete bytes inside ttlvsym")
    else:
        raise OutOfFragmentT("BytearrayStream(%r)" % (data,))


def _settle(stream):
    """A complete header with no body written after it is an empty structure."""
    if len(stream._hdr) == 3:
        _flush_header(stream, [])


def _bs_buffer_get(self):
    _settle(self)
    return Body(self._items)


def _bs_buffer_set(self, v):
    if isinstance(v, Body):
        self._items = v.items
    elif isinstance(v, (bytes, bytearray)) and len(v) == 0:
        self._items = []
    else:
        raise OutOfFragmentT("stream.buffer = %r" % (v,))


def _flush_header(self, body_items):
    tag, typ, length = self._hdr
    self._hdr = []
    it = Item(tag, typ, length, 'struct', None, list(body_items))
    it.declared = length
    S = st()
    if not lin_eq(length, it.body_size(), S.env):
        S.wf_errors.append("structure %s declares length %r but its children take %r"
                           % (getattr(tag, 'name', tag), length, it.body_size()))
    self._items.append(it)


def _bs_write(self, b):
    if isinstance(b, Body):
        if len(self._hdr) == 3:
            _flush_header(self, b.items)
        elif self._hdr:
            raise OutOfFragmentT("body written after a partial header")
        else:
            self._items.extend(b.items)
        return 0
    if isinstance(b, (bytes, bytearray)) and len(b) == 0:
        if len(self._hdr) == 3:
            _flush_header(self, [])
        return 0
    raise OutOfFragmentT("raw write of %r" % (b,))


def _bs_length(self):
    _settle(self)
    s = Lin(0)
    for it in self._items[self._cur:]:
        s = s + it.size()
    s = s.subst(st().env)
    return s.c if s.is_int() else s


def _bs_len(self):
    # exhausted -> 0 ; otherwise at least one item (>= 8 bytes) remains.  Only the
    # `len(stream) < 3` test of Attributes.read uses this (checked by a scan).
    if self._cur < len(self._items):
        return 8
    if self._open:
        # undetermined: fork end / more
        S = st()
        if S.choose(2, "len-open") == 0:
            _close(self)
            return 0
        return 8
    return 0


def _close(stream):
    """The oracle decides that the structure body ends here."""
    stream._open = False
    op = stream._opener
    if op is not None and op.lvar is not None:
        S = st()
        S.env[op.lvar] = op.body_size()
        op.length = Lin.of(op.body_size())


def _bs_read(self, n=None):
    S = st()
    if n is None or (isinstance(n, int) and n == -1):
        # read everything that remains: an opaque body
        if self._open and self._cur >= len(self._items):
            sid = S.fresh_sid()
            raw = Item(None, None, None, 'raw', SymBytes(sid, 'raw'), None)
            self._items.append(raw)
            _close(self)
        rest = self._items[self._cur:]
        self._cur = len(self._items)
        return Body(list(rest))
    if self._stage == 3:
        it = self._items[self._cur]
        if it.pending:
            # oracle: the body of this structure is undetermined -> open child stream
            if not lin_eq(n, it.length, S.env):
                raise OutOfFragmentT("read(%r) of an open structure of length %r" % (n, it.length))
            it.pending = False
            it.kind = 'struct'
            it.children = []
            self._cur += 1
            self._stage = 0
            return Body(it.children, opener=it)
        if not lin_eq(n, it.length, S.env):
            raise OutOfFragmentT("read(%r) but the item declares length %r" % (n, it.length))
        self._cur += 1
        self._stage = 0
        if it.kind == 'struct':
            return Body(it.children)
        raise OutOfFragmentT("raw read of a leaf value")
    if isinstance(n, int) and n == 0:
        return b''
    raise OutOfFragmentT("stream.read(%r) at header stage %d" % (n, self._stage))


def _bs_peek(self, n=None):
    if n == 3 and self._stage == 0:
        it = _front(self, None)
        if it is None:
            return b''
        return struct.pack('!I', it.tag.value)[1:]
    raise OutOfFragmentT("stream.peek(%r)" % (n,))


# candidate tags when code peeks "whatever tag comes next" (Attributes.read)
_ANY_TAGS = []


def _any_tag_candidates():
    if not _ANY_TAGS:
        _ANY_TAGS.extend(t for t in enums.Tags if any(enums.is_attribute(t, v) for v in enums.KMIPVersion))
    return _ANY_TAGS


UNKNOWN_TAG = object()


def _enter_inplace(stream):
    """The code read a structure header and now reads the children from the *same*
    stream (RequestMessage/ResponseMessage): descend into the item's body."""
    it = stream._items[stream._cur]
    if it.pending:
        it.pending = False
        it.kind = 'struct'
        it.children = []
        opened = True
    else:
        if it.kind != 'struct':
            raise OutOfFragmentT("in-place read of a leaf body")
        opened = False
    stream._stack.append((stream._items, stream._cur, stream._open, stream._excluded, stream._count, it))
    stream._items = it.children
    stream._cur = 0
    stream._stage = 0
    stream._excluded = set()
    stream._count = {}
    if opened:
        stream._open = True
    else:
        stream._open = False


def finish_inplace(stream):
    """At the end of the top-level read: close bodies entered in place."""
    S = st()
    while stream._stack:
        items, cur, was_open, excl, count, it = stream._stack.pop()
        leftover = stream._cur < len(stream._items)
        if it.lvar is not None:
            S.env[it.lvar] = it.body_size()
            it.length = Lin.of(it.body_size())
        stream._items, stream._cur, stream._open = items, cur + 1, was_open
        stream._excluded, stream._count = excl, count
        stream._stage = 0
        if leftover:
            stream._cur = cur       # signal: not everything was consumed
            return False
    return True


def _front(stream, want_tag):
    """Item at the cursor; at the open frontier the oracle decides what comes next.
    want_tag: the tag the code asks for (None = any)."""
    S = st()
    if stream._stage == 3:
        _enter_inplace(stream)
    if stream._cur < len(stream._items):
        return stream._items[stream._cur]
    if not stream._open:
        return None
    if want_tag is None:
        cands = [t for t in _any_tag_candidates() if t not in stream._excluded]
        total = sum(stream._count.values())
        if total >= S.list_bound:
            S.list_bounded = True
            _close(stream)
            return None
        k = S.choose(len(cands) + 1, "any-tag")
        if k == 0:
            _close(stream)
            return None
        tag = cands[k - 1]
        stream._count[tag] = stream._count.get(tag, 0) + 1
    elif want_tag is UNKNOWN_TAG:
        tag = None
    else:
        if want_tag in stream._excluded:
            return None
        if stream._count.get(want_tag, 0) >= S.list_bound:
            stream._excluded.add(want_tag)
            S.list_bounded = True
            return None
        if S.choose(2, "tag-present") == 1:
            stream._excluded.add(want_tag)
            return None
        tag = want_tag
        stream._count[tag] = stream._count.get(tag, 0) + 1
    it = Item(tag)
    it.pending = True
    stream._items.append(it)
    return it


# ------------------------------------------------------------------ stubs: Base

def _is_tag_next(tag, stream):
    if stream._stage not in (0, 3):
        raise OutOfFragmentT("is_tag_next in the middle of a header")
    it = _front(stream, tag)
    if it is not None and it.tag is None and it.pending:
        # an item whose type was fixed by is_type_next but whose tag is still open
        S = st()
        if S.choose(2, "tag-of-typed-item") == 0:
            it.tag = tag
            return True
        return False
    return it is not None and it.tag is tag


def _is_type_next(kmip_type, stream):
    if stream._stage not in (0, 3):
        raise OutOfFragmentT("is_type_next in the middle of a header")
    if stream._stage == 3:
        _enter_inplace(stream)
    if stream._cur >= len(stream._items) and stream._open:
        if _front(stream, UNKNOWN_TAG) is None:
            return False
    if stream._cur < len(stream._items):
        it = stream._items[stream._cur]
        if it.type is None and it.pending:
            S = st()
            if S.choose(2, "type-present") == 0:
                it.type = kmip_type
                return True
            it_ex = getattr(stream, '_type_excluded', set())
            it_ex.add(kmip_type)
            stream._type_excluded = it_ex
            return False
        return it.type is kmip_type
    if stream._open:
        raise OutOfFragmentT("is_type_next at the open frontier before any tag test")
    return False


def _is_oversized(self, stream):
    if stream._stage == 3:
        # a header was read but not its body (e.g. MessageExtension, which has no decoder of
        # its own): the stream is exhausted only if that body is empty
        it = stream._items[stream._cur]
        if it.pending:
            it.pending = False
            it.kind = 'struct'
            it.children = []
            if it.lvar is not None:
                st().env[it.lvar] = Lin(0)
            it.length = 0
        elif it.kind != 'struct' or it.children:
            raise exceptions.StreamNotEmptyError(primitives.Base.__name__, 8)
        stream._cur += 1
        stream._stage = 0
    if stream._cur < len(stream._items):
        raise exceptions.StreamNotEmptyError(primitives.Base.__name__, 8)
    if stream._open:
        _close(stream)


def _read_tag(self, istream):
    if istream._stage not in (0, 3):
        raise OutOfFragmentT("read_tag at stage %d" % istream._stage)
    it = _front(istream, self.tag)
    if it is not None and it.tag is None and it.pending:
        it.tag = self.tag
    if it is None:
        if istream._open is False and istream._cur >= len(istream._items):
            # the real code would unpack a short buffer
            raise struct.error("unpack requires a buffer of 4 bytes")
    if it is None or it.tag is not self.tag:
        raise exceptions.ReadValueError(primitives.Base.__name__, 'tag', hex(self.tag.value),
                                        hex(it.tag.value) if it is not None else 'excluded')
    istream._stage = 1


def _read_type(self, istream):
    if istream._stage != 1:
        raise OutOfFragmentT("read_type at stage %d" % istream._stage)
    it = istream._items[istream._cur]
    if it.pending and it.type is None:
        if self.type in getattr(istream, '_type_excluded', ()):
            raise exceptions.ReadValueError(primitives.Base.__name__, 'type', self.type.value, 'excluded')
        it.type = self.type
    if it.type is not self.type:
        raise exceptions.ReadValueError(primitives.Base.__name__, 'type', self.type.value,
                                        getattr(it.type, 'value', it.type))
    istream._stage = 2


def _read_length(self, istream):
    if istream._stage != 2:
        raise OutOfFragmentT("read_length at stage %d" % istream._stage)
    it = istream._items[istream._cur]
    S = st()
    if it.pending and it.length is None:
        S.nl += 1
        it.lvar = ('L', S.nl)
        it.length = Lin(0, {it.lvar: 1})
    ln = Lin.of(it.length).subst(S.env)
    self.length = ln.c if ln.is_int() else ln
    istream._stage = 3


def _write_tag(self, ostream):
    _settle(ostream)
    if ostream._hdr:
        raise OutOfFragmentT("write_tag while a header is pending")
    ostream._hdr = [self.tag]


def _write_type(self, ostream):
    if type(self.type) is not enums.Types:
        raise TypeError("type")
    if len(ostream._hdr) != 1:
        raise OutOfFragmentT("write_type out of order")
    ostream._hdr.append(self.type)


def _write_length(self, ostream):
    if type(self.length) is not int and not isinstance(self.length, Lin):
        msg = exceptions.ErrorStrings.BAD_EXP_RECV
        raise TypeError(msg.format(primitives.Base.__name__, 'length', int, type(self.length)))
    if len(ostream._hdr) != 2:
        raise OutOfFragmentT("write_length out of order")
    ostream._hdr.append(self.length)


# ------------------------------------------------------------------ stubs: primitives

def _prim_write(self, ostream, kmip_version=enums.KMIPVersion.KMIP_1_0):
    _settle(ostream)
    if ostream._hdr:
        raise OutOfFragmentT("primitive written while a header is pending")
    kind = prim_kind(self)
    v = self.value
    if v is None:
        # the real writers fail on a missing value (struct.error / AttributeError / TypeError)
        raise TypeError("%s has no value" % kind)
    it = Item(self.tag, self.type, None, kind, v, None,
              self.enum if kind == 'Enumeration' else None)
    ostream._items.append(it)


def _prim_read(self, istream, kmip_version=enums.KMIPVersion.KMIP_1_0):
    if istream._stage not in (0, 3):
        raise OutOfFragmentT("primitive read at header stage %d" % istream._stage)
    it = _front(istream, self.tag)
    if it is not None and it.tag is None and it.pending:
        it.tag = self.tag
    kind = prim_kind(self)
    if it is None:
        if not istream._open and istream._cur >= len(istream._items):
            raise struct.error("unpack requires a buffer of 4 bytes")
        raise exceptions.ReadValueError(primitives.Base.__name__, 'tag', hex(self.tag.value), 'excluded')
    if it.tag is not self.tag:
        raise exceptions.ReadValueError(primitives.Base.__name__, 'tag', hex(self.tag.value), hex(it.tag.value))
    if it.pending:
        if it.type is not None and it.type is not self.type:
            raise exceptions.ReadValueError(primitives.Base.__name__, 'type', self.type.value, it.type.value)
        if self.type in getattr(istream, '_type_excluded', ()):
            raise exceptions.ReadValueError(primitives.Base.__name__, 'type', self.type.value, 'excluded')
        it.pending = False
        it.type = self.type
        it.kind = kind
        it.sym = fresh_leaf(self)
        it.enum_cls = self.enum if kind == 'Enumeration' else None
    if it.type is not self.type:
        raise exceptions.ReadValueError(primitives.Base.__name__, 'type', self.type.value,
                                        getattr(it.type, 'value', it.type))
    if it.kind != kind:
        raise OutOfFragmentT("item of kind %s read as %s" % (it.kind, kind))
    v = it.sym
    if kind == 'Enumeration' and it.enum_cls is not self.enum:
        # same integer decoded under another enumeration class: a different value
        if is_pseudo(v):
            v = pseudo_member(self.enum, st().fresh_sid())
        else:
            v = self.enum(v.value)      # may raise ValueError like the real code
    self.value = v
    istream._cur += 1


def _prim_validate(self):
    v = getattr(self, 'value', None)
    if isinstance(v, _SymBase) or is_pseudo(v):
        return
    return type(self)._ttlvsym_real_validate(self)


# ------------------------------------------------------------------ patching

_PATCHED = []


def _patch(obj, name, new):
    old = obj.__dict__.get(name, _MISSING)
    _PATCHED.append((obj, name, old))
    setattr(obj, name, new)


_MISSING = object()
PRIMS = [primitives.Integer, primitives.LongInteger, primitives.BigInteger, primitives.Enumeration,
         primitives.Boolean, primitives.TextString, primitives.ByteString, primitives.Interval]


def install():
    if _PATCHED:
        return
    B = utils.BytearrayStream
    _patch(B, '__init__', _bs_init)
    _patch(B, 'write', _bs_write)
    _patch(B, 'read', _bs_read)
    _patch(B, 'peek', _bs_peek)
    _patch(B, 'length', _bs_length)
    _patch(B, '__len__', _bs_len)
    _patch(B, 'buffer', property(_bs_buffer_get, _bs_buffer_set))
    Base = primitives.Base
    _patch(Base, 'is_tag_next', staticmethod(_is_tag_next))
    _patch(Base, 'is_type_next', staticmethod(_is_type_next))
    _patch(Base, 'is_oversized', _is_oversized)
    _patch(Base, 'read_tag', _read_tag)
    _patch(Base, 'read_type', _read_type)
    _patch(Base, 'read_length', _read_length)
    _patch(Base, 'write_tag', _write_tag)
    _patch(Base, 'write_type', _write_type)
    _patch(Base, 'write_length', _write_length)
    for P in PRIMS:
        P._ttlvsym_real_validate = P.__dict__['validate']
        _patch(P, 'validate', _prim_validate)
        _patch(P, 'read', _prim_read)
        _patch(P, 'write', _prim_write)
        for n in ('read_value', 'write_value'):
            if n in P.__dict__:
                _patch(P, n, _failstop(n))
    _patch(enum.Enum, '__eq__', _enum_eq)
    _patch(enum.Enum, '__ne__', _enum_ne)
    _patch(enum.Enum, '__hash__', _enum_hash)


def uninstall():
    while _PATCHED:
        obj, name, old = _PATCHED.pop()
        if old is _MISSING:
            try:
                delattr(obj, name)
            except AttributeError:
                pass
        else:
            setattr(obj, name, old)
    for P in PRIMS:
        if '_ttlvsym_real_validate' in P.__dict__:
            del P._ttlvsym_real_validate


def stubbed_functions():
    """Qualified names of the functions replaced by contract stubs (must all be
    under a discharged pyvc contract or a listed bounded stand-in)."""
    out = ["kmip.core.utils.BytearrayStream." + n for n in ('__init__', 'write', 'read', 'peek', 'length', '__len__')]
    out += ["kmip.core.primitives.Base." + n for n in ('is_tag_next', 'is_type_next', 'is_oversized', 'read_tag',
                                                        'read_type', 'read_length', 'write_tag', 'write_type',
                                                        'write_length')]
    for P in PRIMS:
        out += ["kmip.core.primitives.%s.%s" % (P.__name__, n) for n in ('read', 'write', 'validate')]
    return out
