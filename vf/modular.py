"""Modular reasoning: proving a function against its contract, and using a
callee's contract (never its body) at call sites."""
import ast
import builtins
import enum
import importlib

import z3

from . import extract
from .contracts import parse_expr, lookup as lookup_contract
from .sym import (SInt, SBool, SSeq, SEnum, SOpt, Opaque, Obj, ExcVal, OutOfFragment,
                  IntSeq, fresh, seq_of, lower_int, lower_bool, is_symbolic, taint_of, int_term,
                  member_constraint)
from . import pyvc
from . import models as M


# ------------------------------------------------------------------ symbolic inputs

def make_symbolic(I, kind, name):
    P = I.path
    if isinstance(kind, str):
        if kind == 'int':
            return SInt(fresh(name))
        if kind == 'nat':
            t = fresh(name)
            P.assume(t >= 0)
            return SInt(t)
        if kind == 'int32nat':
            # a value that entered through a KMIP Integer: 0 .. 2**31 - 1
            t = fresh(name)
            P.assume(z3.And(t >= 0, t <= 2 ** 31 - 1))
            return SInt(t)
        if kind == 'date':
            # seconds since the epoch as stored by the server (a KMIP DateTime: signed 64 bit)
            t = fresh(name)
            P.assume(z3.And(t >= 0, t < 2 ** 55))      # assigned from the server's clock (time.time())
            return SInt(t)
        if kind == 'pos':
            t = fresh(name)
            P.assume(z3.And(t >= 1, t < 2 ** 55))      # a stored date: positive, from the server's clock
            return SInt(t)
        if kind == 'byte':
            t = fresh(name)
            P.assume(z3.And(t >= 0, t <= 255))
            return SInt(t)
        if kind == 'bool':
            return SBool(fresh(name, z3.BoolSort()))
        if kind == 'bytes':
            # element ranges (0..255) are asserted on elements as they are skolemised
            return SSeq('bytes', [('s', fresh(name, IntSeq))])
        if kind == 'str':
            return SSeq('str', [('s', fresh(name, IntSeq))])
        if kind == 'ascii':
            return SSeq('str', [('s', fresh(name, IntSeq))], bound=(0, 127))
        if kind == 'none':
            return None
        if kind == 'nonempty_str':
            t = fresh(name, IntSeq)
            P.assume(z3.Length(t) > 0)
            return SSeq('str', [('s', t)])
        if kind == 'logger':
            return Opaque('object', 'logger', facts={'noraise', 'logger', 'truthy'})
        if kind == 'opaque':
            return Opaque('object', name)
        if kind == 'opaque_str':
            return Opaque('str', name)
        if kind == 'opaque_list':
            return Opaque('list', name)
        raise OutOfFragment("unknown kind %r" % kind)
    tag = kind[0]
    if tag == 'const':
        v = kind[1]
        if isinstance(v, str) and v[:2] in ('T:', 'E:'):
            import kmip.core.enums as _en
            return getattr(_en.Types, v[2:]) if v[0] == 'T' else getattr(_en, v[2:])
        if v == 'EMPTYLIST':
            return []
        if isinstance(v, str) and v[:2] == 'K:':
            import kmip.pie.objects as _po
            return getattr(_po, v[2:])
        return v
    if tag == 'enum':
        cls = _resolve_class(kind[1])
        members = list(cls)
        if len(kind) > 2:
            members = [m for m in members if m in kind[2]]
        t = fresh(name)
        if all(isinstance(m.value, int) and not isinstance(m.value, bool) for m in members):
            vals = sorted(set(m.value for m in members))
            if vals[0] >= 0 and vals[-1] < 2 ** 32:
                # represent the value by its base-256 digits so that be(n, value) is digit-exact
                nd = 1
                while 256 ** nd <= vals[-1]:
                    nd += 1
                ds = [fresh("%s_d%d" % (name, i)) for i in range(nd)]
                for d in ds:
                    P.assume(z3.And(d >= 0, d <= 255))
                t = z3.IntVal(0)
                for d in ds:
                    t = t * 256 + d
                t = z3.simplify(t)
                from .builtins_model import remember_digits
                remember_digits(I, SInt(t), ds)
            P.assume(member_constraint(vals, t))
            return SEnum(cls, t)
        P.assume(z3.And(t >= 0, t < len(members)))
        return SEnum(cls, t, members)
    if tag == 'opt':
        if P.choose(2, "opt:" + name) == 0:
            return None
        return make_symbolic(I, kind[1], name)
    if tag == 'lazyopt':
        return SOpt(fresh(name + "_isnone", z3.BoolSort()), make_symbolic(I, kind[1], name))
    if tag == 'oneof':
        k = P.choose(len(kind) - 1, "oneof:" + name)
        return make_symbolic(I, kind[1 + k], name)
    if tag == 'obj':
        cls = _resolve_class(kind[1])
        o = Obj(cls, {}, name)
        for f, fk in kind[2].items():
            if isinstance(fk, tuple) and fk and fk[0] == 'lazy':
                _lazy_field(o, f, fk[1], name)
            else:
                o.fields[f] = make_symbolic(I, fk, "%s.%s" % (name, f))
        o.meta['initial_fields'] = dict(o.fields)
        return o
    if tag == 'obj_open':
        # an object in the middle of its life: besides the given fields it may carry any other
        # instance attribute (left by earlier calls) with an unknown, possibly None value
        o = make_symbolic(I, ('obj',) + tuple(kind[1:]), name)

        def dyn(I2, obj, fname):
            v = SOpt(fresh("%s.%s_isnone" % (name, fname), z3.BoolSort()),
                     Opaque('object', "%s.%s" % (name, fname)))
            obj.fields[fname] = v
            obj.meta.setdefault('lazy_created', {})[fname] = v
            obj.meta.setdefault('initial_fields', {})[fname] = v
            return v
        o.meta['dynamic'] = dyn
        return o
    if tag == 'ctor':
        cls = _resolve_class(kind[1])
        kw = {a: make_symbolic(I, k, "%s.%s" % (name, a)) for a, k in kind[2].items()}
        try:
            o = M.instantiate(I, cls, [], kw)
        except pyvc.Raised:
            raise pyvc.Infeasible()     # the constructor rejects these arguments
        if isinstance(o, Obj):
            o.label = name
            o.meta['ctor_args'] = kw
            o.meta['initial_fields'] = dict(o.fields)
        return o
    if tag == 'list':
        # concrete spine of the given lengths
        lens = kind[2] if len(kind) > 2 else (0, 1, 2)
        k = P.choose(len(lens), "len:" + name)
        lst = [make_symbolic(I, kind[1], "%s[%d]" % (name, i)) for i in range(lens[k])]
        # what the list holds on entry (the code under proof may change it in place; counterexamples
        # report inputs, not the state left behind)
        P.ghost.setdefault('initial_lists', {})[id(lst)] = (lst, list(lst))
        return lst
    if tag == 'where':
        # refinement: a value of kind[1] that satisfies the native predicate kind[2](I, value) -> z3 Bool/bool
        v = make_symbolic(I, kind[1], name)
        t = kind[2](I, v)
        if t is False:
            raise pyvc.Infeasible()
        if t is not True:
            P.assume(t)
        return v
    if tag == 'tuple':
        return tuple(make_symbolic(I, k, "%s[%d]" % (name, i)) for i, k in enumerate(kind[1:]))
    if tag == 'dict':
        # a native dictionary with the given (concrete) keys and values of the given kinds
        return {k: make_symbolic(I, vk, "%s[%r]" % (name, k)) for k, vk in kind[1].items()}
    if tag == 'payload':
        # request payload: every field that is not given a kind is created on first use as a
        # maybe-absent holder with an uninterpreted, request-tainted `.value`
        cls = _resolve_class(kind[1])
        o = Obj(cls, {}, name)
        given = kind[2] if len(kind) > 2 else {}
        for f, fk in given.items():
            if isinstance(fk, tuple) and fk and fk[0] == 'lazy':
                _lazy_field(o, f, fk[1], name)
            else:
                o.fields[f] = make_symbolic(I, fk, "%s.%s" % (name, f))

        def dyn(I2, obj, fname):
            from .envmodel import _Val
            holder = Obj(_Val, {}, "%s.%s" % (name, fname))
            holder.meta['dynamic'] = lambda I3, h, a: h.fields.setdefault(
                a, Opaque('object', "%s.%s.%s" % (name, fname, a), taint=frozenset(['request'])))
            v = SOpt(fresh("%s.%s_absent" % (name, fname), z3.BoolSort()), holder)
            obj.fields[fname] = v
            obj.meta.setdefault('lazy_created', {})[fname] = v
            return v
        o.meta['dynamic'] = dyn
        o.meta['initial_fields'] = dict(o.fields)
        return o
    if tag == 'engine':
        from . import dbmodel
        return dbmodel.make_engine(I, name, *kind[1:])
    if tag == 'managed':
        from . import dbmodel
        classes = kind[1] if len(kind) > 1 else None
        if classes:
            cs = [_resolve_class(c) for c in classes]
            cls = cs[P.choose(len(cs), "managed-class")]
        else:
            cls = dbmodel.choose_stored_class(I, "managed-class")
        o = dbmodel.new_managed(I, cls, name)
        # optional per-contract column kinds (e.g. bounded concrete spines for multivalued attributes)
        if len(kind) > 2 and kind[2]:
            o.meta['column_kinds'] = dict(kind[2])
        return o
    if tag == 'managed_fresh':
        # a pie object just constructed (not in the store): class chosen among the stored classes
        from . import dbmodel
        cls = dbmodel.choose_stored_class(I, "fresh-class")
        return dbmodel.new_managed(I, cls, name, attached=False)
    if tag == 'tainted_bytes':
        return SSeq('bytes', [('s', fresh(name, IntSeq))], frozenset([kind[1]]))
    if tag == 'tainted_str':
        return SSeq('str', [('s', fresh(name, IntSeq))], frozenset([kind[1]]))
    if tag == 'opaque_facts':
        return Opaque('object', kind[1], facts=set(kind[2]))
    if tag == 'model':
        from . import envmodel
        return envmodel.make(kind[1], I, name)
    if tag == 'sdict':
        from .sym import SDict
        d = SDict(name, kind[1], make_symbolic)
        if len(kind) > 2:
            d.kkind = kind[2]        # kind of the keys an iteration yields
            if kind[2] in ('str', 'nonempty_str', 'ascii'):
                d.enable_keyset(P)
        return d
    if tag == 'slist':
        ek = kind[1]
        n = fresh(name + "_len")
        P.assume(n >= 0)
        return pyvc.SList(name, n, lambda I2, tg: make_symbolic(I2, ek, "%s.%s" % (name, tg)))
    if tag == 'accumulator':
        # a list a loop appends to: after an arbitrary number of iterations its content is some
        # list of such elements; `append` inside the iteration under proof is recorded as an event
        ek = kind[1]
        n = fresh(name + "_len")
        P.assume(n >= 0)
        sl = pyvc.SList(name, n, lambda I2, tg: make_symbolic(I2, ek, "%s.%s" % (name, tg)))
        sl.accumulator = True
        return sl
    if tag == 'mutbytes':
        return pyvc.MutBytes(make_symbolic(I, 'bytes', name))
    raise OutOfFragment("unknown kind %r" % (kind,))


def _lazy_field(o, f, fk, name):
    """Field whose (possibly forking) value is chosen when the code first reads it: the choices of
    fields a path never looks at do not multiply the paths."""
    def create(I2, obj, f=f, fk=fk):
        if callable(fk):
            fk = fk(I2, obj)        # kind depending on sibling fields (which it may materialise)
        v = make_symbolic(I2, fk, "%s.%s" % (name, f))
        obj.fields[f] = v
        obj.meta.setdefault('lazy_created', {})[f] = v
        obj.meta.setdefault('initial_fields', {})[f] = v
    o.meta.setdefault('lazy', {})[f] = create


def _resolve_class(c):
    if isinstance(c, type):
        return c
    mod, _, name = c.rpartition('.')
    try:
        obj = importlib.import_module(mod) if mod else builtins
        return getattr(obj, name)
    except (AttributeError, ImportError):
        # nested class path
        parts = c.split('.')
        for i in range(len(parts) - 1, 0, -1):
            try:
                m = importlib.import_module('.'.join(parts[:i]))
                o = m
                for p in parts[i:]:
                    o = getattr(o, p)
                return o
            except (ImportError, AttributeError):
                continue
        raise


def resolve_exc_class(name, module):
    if isinstance(name, type):
        return name
    if isinstance(name, (tuple, list)):
        return tuple(resolve_exc_class(n, module) for n in name)
    obj = None
    parts = name.split('.')
    if parts[0] in module.__dict__:
        obj = module.__dict__[parts[0]]
    elif hasattr(builtins, parts[0]):
        obj = getattr(builtins, parts[0])
    else:
        try:
            return _resolve_class(name)
        except Exception:
            raise OutOfFragment("cannot resolve exception class %s" % name)
    for p in parts[1:]:
        obj = getattr(obj, p)
    return obj


# ------------------------------------------------------------------ proving a contract

def _param_names(node):
    a = node.args
    return [p.arg for p in a.posonlyargs + a.args] + [p.arg for p in a.kwonlyargs]


def P_choose_default(path, p):
    return path.choose(2, "default:" + p) == 1


def prove_contract(session, c, max_paths=4000, time_budget=None, known=()):
    """Generate and discharge every obligation of contract c against the body
    extracted from the current tree.  Results go into `session`."""
    qn = c.qualname
    key = c.key
    try:
        ex = extract.by_qualname(qn)
    except extract.FunctionNotFound:
        session.record(pyvc.ObligationResult(qn + "/extract", "safety", 'oof', "function-not-found"))
        return 0
    session.functions[qn] = ex.sha256
    session.allow_external = getattr(c, 'allow_external_', False)
    if c.trusted:
        session.trusted.add("contract of %s assumed (%s)" % (qn, "; ".join(c.notes)))
        return 0
    params = _param_names(ex.node)
    all_srcs = [s for _, s in c.ensures_] + [e for (_, _, e, _) in c.raises_] + \
               [w for (_, w, _, _) in c.raises_]
    for ls in c.loops.values():
        all_srcs.extend(ls.inv)
        all_srcs.extend(ls.ghost_step.values())
        all_srcs.extend(ls.ghost_init.values())

    def task(path):
        I = pyvc.Interp(path, top=qn)
        I.top_contract = c
        I.prefer_variant = c.callee_variant
        I.opaque_outside = getattr(c, 'opaque_outside_', None)
        path.current_fn = qn
        denv = pyvc.Env({}, ex.module.__dict__, ex.cls, qn, ex)
        args = {}
        a = ex.node.args
        pos = a.posonlyargs + a.args
        defaults = dict(zip([p.arg for p in pos[len(pos) - len(a.defaults):]], a.defaults))
        for p, d in zip(a.kwonlyargs, a.kw_defaults):
            if d is not None:
                defaults[p.arg] = d
        deferred = []
        for p in params:
            if p in c.arg_kinds and isinstance(c.arg_kinds[p], tuple) and c.arg_kinds[p][0] == 'dep':
                deferred.append(p)      # kind computed from the other (already chosen) arguments
                args[p] = None
            elif p in c.arg_kinds:
                args[p] = make_symbolic(I, c.arg_kinds[p], p)
            elif getattr(c, 'default_arg_kind', None) is not None:
                if p in defaults and P_choose_default(path, p):
                    args[p] = I.eval(defaults[p], denv)
                else:
                    args[p] = make_symbolic(I, c.default_arg_kind, p)
            elif p in defaults:
                args[p] = I.eval(defaults[p], denv)
            else:
                raise OutOfFragment("contract %s gives no kind for parameter %s" % (qn, p))
        for p in deferred:
            args[p] = make_symbolic(I, c.arg_kinds[p][1](args), p)
        if a.vararg is not None:
            k = c.arg_kinds.get(a.vararg.arg)
            args[a.vararg.arg] = tuple(make_symbolic(I, k, a.vararg.arg)) if k is not None else ()
        if a.kwarg is not None:
            k = c.arg_kinds.get(a.kwarg.arg)
            args[a.kwarg.arg] = dict(make_symbolic(I, k, a.kwarg.arg)) if k is not None else {}
        path.inputs = {k: M.snapshot_value(v) for k, v in args.items()}
        path.live_inputs = args
        spec_locals = dict(args)
        for name, src in c.lets:
            if src in ('int', 'nat', 'bytes', 'str', 'bool', 'ascii'):
                spec_locals[name] = make_symbolic(I, src, name)
                path.inputs[name] = spec_locals[name]
            else:
                spec_locals[name] = I.eval_spec(src, spec_locals, ex.module.__dict__, None, ex.cls)
            I.ghost_globals[name] = spec_locals[name]
        for rname, src in c.requires_:
            node = parse_expr(src)
            val = I.eval_spec(src, spec_locals, ex.module.__dict__, None, ex.cls)
            path.assume(I.truth(val))
            # `<input path> == E` about a still-unconstrained symbolic input: also bind the
            # path to E, which keeps E's chunk structure (same meaning as the equation)
            if isinstance(node, ast.Compare) and len(node.ops) == 1 and isinstance(node.ops[0], ast.Eq) \
                    and isinstance(node.left, ast.Attribute):
                e2 = pyvc.Env(dict(spec_locals), ex.module.__dict__, ex.cls, '<spec>', None)
                e2.spec = True
                o = I.resolve_opt(I.eval(node.left.value, e2))
                cur = o.fields.get(node.left.attr) if isinstance(o, Obj) else None
                if isinstance(cur, SSeq) and len(cur.chunks) == 1 and cur.chunks[0][0] == 's':
                    o.fields[node.left.attr] = I.eval(node.comparators[0], e2)
        session.cover(key + "/cover.pre")
        # listed known findings: split the input space by the finding's witness, so that a
        # failure of the same obligation *outside* the witness is still reported
        for (obl, witness, fid) in known:
            if witness:
                w = I.truth(I.eval_spec(witness, spec_locals, ex.module.__dict__, None, ex.cls))
                inside = w if isinstance(w, bool) else path.branch(w)
            else:
                inside = True
            if inside:
                path.known_region.append((obl, fid))
        old = I.snapshot_old(all_srcs, spec_locals, ex.module.__dict__, ex.cls)
        when_vals = []
        for (exc, when, ens, rname) in c.raises_:
            if when is not None:
                when_vals.append((rname, I.truth(
                    I.eval_spec(when, spec_locals, ex.module.__dict__, old, ex.cls))))
        heap0 = M.models_rt_heap_snapshot(I, args) if c.modifies_ is not None else None
        body_locals = dict(args)
        for cv, ck in getattr(c, 'closure_kinds_', {}).items():
            body_locals[cv] = make_symbolic(I, ck, cv)
        body_locals['__old__'] = old
        for name, _ in c.lets:
            body_locals[name] = spec_locals[name]
        try:
            result = I.run_body(ex, None, None, pre_bound=body_locals)
        except pyvc.PathEnd:
            # end of one arbitrary loop iteration: the events of the body are checked too
            _check_traces(I, c, key, 'iteration', None)
            raise
        except pyvc.Raised as r:
            _check_raise(I, c, ex, r.exc, spec_locals, old, heap0, args, dict(when_vals))
            _check_traces(I, c, key, 'raise', r.exc)
            return
        session.cover(key + "/cover.return")
        post_locals = dict(spec_locals)
        post_locals['result'] = result
        I.ghost_globals['__result__'] = result
        for (ename, src) in c.ensures_:
            v = I.eval_spec(src, post_locals, ex.module.__dict__, old, ex.cls)
            path.prove("%s/post.%s" % (key, ename), I.truth(v), kind="post")
        for rname, w in when_vals:
            # a clause with `when` is exact: on a normal return its condition is false
            t = w if not isinstance(w, bool) else z3.BoolVal(w)
            path.prove("%s/raises.%s.exact" % (key, rname), z3.Not(t), kind="raises")
        _check_frame(I, c, key, heap0, args)
        _check_traces(I, c, key, 'return', None)

    n = pyvc.explore(session, task, name=key, max_paths=max_paths, time_budget=time_budget)
    return n


def _check_raise(I, c, ex, exc, spec_locals, old, heap0, args, when_vals):
    path = I.path
    qn = c.key
    matched = []
    for (ename, when, ens, rname) in c.raises_:
        cls = resolve_exc_class(ename, ex.module)
        if issubclass(exc.cls, cls):
            matched.append((ename, when, ens, rname))
    path.session.cover(qn + "/cover.raise." + exc.cls.__name__)
    if not matched:
        if c.no_other_raises:
            msg = ""
            if exc.args and isinstance(exc.args[0], str):
                msg = ": " + exc.args[0][:120]
            if exc.fields.get('__origin__'):
                msg += " (from %s)" % (exc.fields['__origin__'],)
            w = getattr(exc, 'where', None)
            if w and w[1]:
                msg += " (raised in %s, line %s)" % (w[0], w[1])
            path.fail("%s/raises.unexpected" % qn, "raises",
                      "raises %s which no raises-clause allows%s" % (exc.cls.__name__, msg))
        return
    conds = []
    uncond = False
    for (ename, when, ens, rname) in matched:
        if when is None:
            uncond = True
        else:
            conds.append(when_vals[rname])      # evaluated in the pre-state
    if not uncond:
        if any(t is True for t in conds):
            path.ok("%s/raises.%s" % (qn, matched[0][3]), "raises")
        else:
            ts = [t for t in conds if t is not False]
            cond = z3.Or(*ts) if len(ts) > 1 else (ts[0] if ts else z3.BoolVal(False))
            path.prove("%s/raises.%s" % (qn, matched[0][3]), cond, kind="raises",
                       detail="raised %s outside its `when` condition" % exc.cls.__name__)
    else:
        path.ok("%s/raises.%s" % (qn, matched[0][3]), "raises")
    for (ename, when, ens, rname) in matched:
        if ens:
            loc = dict(spec_locals)
            loc['raised'] = exc
            v = I.eval_spec(ens, loc, ex.module.__dict__, old, ex.cls)
            path.prove("%s/raises.%s.ensures" % (qn, rname), I.truth(v), kind="raises")
    if c.__dict__.get('frame_on_raise', False):
        _check_frame(I, c, qn, heap0, args)


def _check_traces(I, c, key, outcome, exc):
    """Trace predicates: native predicates over the event list of this path."""
    for (name, fn) in getattr(c, 'traces_', []):
        try:
            import inspect as _insp
            npar = len(_insp.signature(fn).parameters)
            if npar >= 5:
                r = fn(I.path.trace, outcome, exc, I.path, I)
            elif npar >= 4:
                r = fn(I.path.trace, outcome, exc, I.path)
            else:
                r = fn(I.path.trace, outcome, exc)
        except Exception as e:
            r = "trace predicate crashed: %s: %s" % (type(e).__name__, e)
        if r is True or r is None:
            I.path.ok("%s/trace.%s" % (key, name), "trace")
        else:
            I.path.fail("%s/trace.%s" % (key, name), "trace", str(r))


def heap_snapshot(I, roots):
    seen = {}

    def walk(v, depth):
        if depth > 5:
            return
        if isinstance(v, Obj):
            if id(v) in seen:
                return
            snap = dict(v.fields)
            # native containers held in fields: remember their content (in-place mutation)
            content = {f: (list(x) if isinstance(x, list) else dict(x))
                       for f, x in v.fields.items() if isinstance(x, (list, dict))}
            v.meta['__content_snapshot__'] = content
            seen[id(v)] = (v, snap)
            for f in list(v.fields.values()):
                walk(f, depth + 1)
        elif isinstance(v, (list, tuple)):
            for x in v:
                walk(x, depth + 1)
        elif isinstance(v, dict):
            for x in v.values():
                walk(x, depth + 1)
        elif isinstance(v, SOpt):
            walk(v.v, depth + 1)
    for v in roots.values():
        walk(v, 0)
    return seen


M.models_rt_heap_snapshot = heap_snapshot


def _path_pairs(I, args, paths):
    pairs = set()
    for p in paths:
        parts = p.split('.')
        if parts[0] not in args or len(parts) < 2:
            continue
        v = args[parts[0]]
        try:
            for q in parts[1:-1]:
                v = I.resolve_opt(I.getattr(v, q))
        except pyvc.Raised:
            continue
        if parts[-1] == '*':
            if isinstance(v, list):
                for x in v:             # every element object of the list
                    pairs.add((id(x), '*'))
            else:
                pairs.add((id(v), '*'))
        else:
            pairs.add((id(v), parts[-1]))
    return pairs


def _check_frame(I, c, qn, heap0, args):
    if heap0 is None:
        return
    allowed = _path_pairs(I, args, c.modifies_)
    conj = []
    bad = None
    for oid, (o, fields) in heap0.items():
        if (oid, '*') in allowed:
            continue
        for f, oldv in fields.items():
            if (oid, f) in allowed:
                continue
            if f not in o.fields:
                bad = "%s.%s deleted" % (o.cls.__name__, f)
                break
            newv = o.fields[f]
            if newv is oldv:
                before = o.meta.get('__content_snapshot__', {}).get(f)
                if before is not None and isinstance(newv, (list, dict)):
                    same = (len(before) == len(newv)) and (
                        all(a is b for a, b in zip(before, newv)) if isinstance(newv, list)
                        else all(k in newv and newv[k] is x for k, x in before.items()))
                    if not same:
                        bad = "%s.%s (container mutated in place)" % (o.cls.__name__, f)
                        break
                continue
            r = M.equals(I, newv, oldv) if not isinstance(newv, (Obj, list, dict)) else (newv is oldv)
            if r is True:
                continue
            if r is False:
                bad = "%s.%s" % (o.cls.__name__, f)
                break
            conj.append((("%s.%s" % (o.cls.__name__, f)), I.truth(r)))
        if bad:
            break
        for f in o.fields:
            if f not in fields and (o.meta.get('lazy_created', {}).get(f) is o.fields[f]
                                    or o.meta.get('initial_columns', {}).get(f) is o.fields[f]):
                continue        # materialised by a read
            if f not in fields and (oid, f) not in allowed:
                bad = "%s.%s (new field)" % (o.cls.__name__, f)
                break
        if bad:
            break
    if bad:
        I.path.fail("%s/frame" % qn, "frame", "modifies %s outside the declared frame" % bad)
        return
    if conj:
        ts = [t for _, t in conj]
        I.path.prove("%s/frame" % qn, z3.And(*ts) if len(ts) > 1 else ts[0], kind="frame",
                     detail="fields: " + ", ".join(n for n, _ in conj))
    else:
        I.path.ok("%s/frame" % qn, "frame")


# ------------------------------------------------------------------ using a contract at a call site

def _kind_admits_none(kind):
    if kind in ('none', 'opaque_or_none'):
        return True
    if isinstance(kind, str):
        return False
    if isinstance(kind, tuple) and kind:
        t = kind[0]
        if t in ('opt', 'lazyopt', 'dep', 'where', 'lazy'):
            return True if t != 'where' else _kind_admits_none(kind[1])
        if t == 'const':
            return kind[1] is None
        if t == 'oneof':
            return any(_kind_admits_none(k) for k in kind[1:])
        return False
    return True


def apply_contract(I, c, ex, args, kwargs):
    P = I.path
    caller = I.call_stack[-1] if I.call_stack else (I.top or '<top>')
    qn = c.qualname
    short = qn.split('.')[-2] + '.' + qn.split('.')[-1] if qn.count('.') >= 2 else qn
    if c.variant:
        short += '#' + c.variant
    env = pyvc.Env({}, ex.module.__dict__, ex.cls, qn, ex)
    I.bind_params(ex.node.args, args, kwargs, env, ex.name)
    loc = dict(env.locals)
    G = ex.module.__dict__
    if c.trusted:
        P.session.trusted.add("contract of %s assumed (%s)" % (qn, "; ".join(c.notes)))
    for name, src in c.lets:
        if src in ('int', 'nat', 'bytes', 'str', 'bool', 'ascii'):
            # ghost parameter: the caller supplies the witness under the same name
            loc[name] = I.ghost_globals[name] if name in I.ghost_globals else make_symbolic(I, src, name)
        else:
            loc[name] = I.eval_spec(src, loc, G, None, ex.cls)
    # the contract was proved for arguments of the declared kinds only: a None handed to a
    # parameter whose kind never is None lies outside what was proved of the callee
    for pname, kind in c.arg_kinds.items():
        if pname in loc and loc[pname] is None and not _kind_admits_none(kind):
            P.fail("%s/pre@%s.argument-domain" % (caller, short), "pre",
                   "None is passed for parameter %s of %s, whose contract is proved for %r only" % (pname, short, kind))
    site = P.ghost.setdefault('callsites', {})
    k = site.get((caller, qn), 0)
    site[(caller, qn)] = k + 1
    for rname, src in c.requires_:
        t = I.truth(I.eval_spec(src, loc, G, None, ex.cls))
        P.prove("%s/pre@%s#%d.%s" % (caller, short, k, rname), t, kind="pre")
        P.assume(t)
    srcs = [s for _, s in c.ensures_] + [e for (_, _, e, _) in c.raises_] + [w for (_, w, _, _) in c.raises_]
    old = I.snapshot_old(srcs, loc, G, ex.cls)
    P.event('call', qn, dict(loc))      # the arguments as bound to the callee's parameters
    for fn in getattr(c, 'effects_', []):
        fn(P, loc)
    # exceptional outcomes
    for (ename, when, ens, rname) in c.raises_:
        cls = resolve_exc_class(ename, ex.module)
        if when is not None:
            t = I.truth(I.eval_spec(when, loc, G, old, ex.cls))
            taken = t if isinstance(t, bool) else P.branch(t)
        else:
            taken = P.choose(2, "may-raise") == 1
        if taken:
            if isinstance(cls, tuple):
                cls = cls[P.choose(len(cls), "exc-class")]
            e = ExcVal(cls, (Opaque('str', 'message', facts={'nonempty'}),))
            _exc_fields(I, e, cls)
            for fa, fk in getattr(c, 'raise_fields_', {}).get(rname, {}).items():
                e.fields[fa] = make_symbolic(I, fk, "raised." + fa)
            if ens:
                l2 = dict(loc)
                l2['raised'] = e
                node = parse_expr(ens)
                if isinstance(node, ast.Compare) and len(node.ops) == 1 and isinstance(node.ops[0], ast.Eq) \
                        and ast.unparse(node.left) == 'str(raised)':
                    # the message text is given by the clause: bind it (keeps its template structure)
                    e2 = pyvc.Env(l2, G, ex.cls, '<spec>', None)
                    e2.spec, e2.old = True, old
                    e.args = (I.eval(node.comparators[0], e2),)
                    if 'message' in e.fields:
                        e.fields['message'] = e.args[0]
                else:
                    P.assume(I.truth(I.eval_spec(ens, l2, G, old, ex.cls)))
            for ev in getattr(c, 'raise_emits_', {}).get(rname, []):
                P.event(*ev)
            _havoc_on_raise(I, c, loc)
            P.event('raise', cls.__name__)
            raise pyvc.Raised(e)
    if not c.no_other_raises:
        if P.choose(2, "may-raise-any") == 1:
            e = ExcVal(Exception, (Opaque('str', 'message'),))
            e.fields['__unknown_subclass__'] = True
            if getattr(c, 'raised_repr_taint', None):
                # repr() of what this callee raises may expose its raw arguments (e.g. the input of
                # a UnicodeDecodeError); str() does not
                e.fields['__repr_taint__'] = frozenset(c.raised_repr_taint)
            _havoc_on_raise(I, c, loc)
            P.event('raise', 'Exception')
            raise pyvc.Raised(e)
    # havoc the frame
    bound = set()
    for p in c.modifies_:
        parts = p.split('.')
        if parts[0] not in loc or len(parts) < 2 or parts[-1] == '*':
            continue
        o = loc[parts[0]]
        for q in parts[1:-1]:
            o = I.resolve_opt(I.getattr(o, q))
        if isinstance(o, Obj):
            cur = o.fields.get(parts[-1])
            kind = getattr(c, 'modifies_kinds', {}).get(p)
            try:
                o.fields[parts[-1]] = M.models_rt_havoc(I, cur, "h_" + parts[-1], kind)
            except OutOfFragment:
                o.fields[parts[-1]] = Opaque('object', 'havoc_' + parts[-1])
            P.event('field.write', id(o), parts[-1])
    result = None
    has_result = c.result_kind is not None
    if has_result:
        result = make_symbolic(I, c.result_kind, "ret_" + ex.name)
    loc['result'] = result
    result_bound = False

    def covered(ltxt):
        if ltxt in c.modifies_ or ltxt.startswith('result.'):
            return True
        pre = ltxt.rsplit('.', 1)[0]
        return (pre + '.*') in c.modifies_

    def conjuncts(node):
        if isinstance(node, ast.BoolOp) and isinstance(node.op, ast.And):
            out = []
            for v in node.values:
                out.extend(conjuncts(v))
            return out
        return [node]

    for (ename, src) in c.ensures_:
        if ename in getattr(c, 'not_assumed_', ()):
            continue
        for node in conjuncts(parse_expr(src)):
            e2 = pyvc.Env(dict(loc), G, ex.cls, '<spec>', None)
            e2.spec, e2.old = True, old
            if isinstance(node, ast.Compare) and len(node.ops) == 1 and isinstance(node.ops[0], (ast.Eq, ast.Is)):
                left = node.left
                ltxt = ast.unparse(left)
                if ltxt == 'result' and not result_bound:
                    result = I.eval(node.comparators[0], e2)
                    loc['result'] = result
                    result_bound = True
                    continue
                if isinstance(left, ast.Attribute) and covered(ltxt) and ltxt not in bound:
                    try:
                        val = I.eval(node.comparators[0], e2)
                        o = I.resolve_opt(I.eval(left.value, e2))
                    except (pyvc.Raised, OutOfFragment):
                        P.ghost.setdefault('unassumed', set()).add((qn, ename))
                        continue
                    if isinstance(o, Obj):
                        o.fields[left.attr] = val
                        bound.add(ltxt)
                        continue
            try:
                t = I.truth(I.eval(node, e2))
            except pyvc.Raised:
                # the clause cannot be evaluated on this caller's view of the post-state (e.g. the
                # result's kind is not stated): it is not assumed - pruning the path instead could
                # make every path of the caller vanish and its proof vacuous
                P.ghost.setdefault('unassumed', set()).add((qn, ename))
                continue
            except OutOfFragment:
                # a postcondition the executor cannot state on this caller's (more abstract) values
                # is simply not assumed: the caller knows less, never more
                P.ghost.setdefault('unassumed', set()).add((qn, ename))
                continue
            P.assume(t)
    if not has_result and not result_bound:
        # the contract says nothing about the returned value: callers must not assume None
        loc['result'] = Opaque('object', 'unspecified-result-of-' + ex.name)
    P.event('return', qn, id(loc['result']))
    P.ghost.setdefault('results', {})[c.key] = loc['result']      # last value returned by this callee (for trace predicates)
    return loc['result']


def _havoc_on_raise(I, c, loc):
    """State a callee may leave behind when it raises (partial effects)."""
    for p, kind in getattr(c, 'havoc_on_raise', {}).items():
        parts = p.split('.')
        if parts[0] not in loc:
            continue
        o = loc[parts[0]]
        for q in parts[1:-1]:
            o = I.resolve_opt(I.getattr(o, q))
        if isinstance(o, Obj):
            o.fields[parts[-1]] = make_symbolic(I, kind, "partial_" + parts[-1])


def _exc_fields(I, e, cls):
    """Populate class-determined fields (status/reason of KmipError subclasses)."""
    try:
        import inspect
        sig = inspect.signature(cls.__init__)
        n = len([p for p in sig.parameters.values()
                 if p.default is inspect.Parameter.empty and p.kind in (p.POSITIONAL_OR_KEYWORD,)]) - 1
        inst = cls(*(['m'] * max(n, 0)))
        for k, v in getattr(inst, '__dict__', {}).items():
            if k in ('status', 'reason'):
                e.fields[k] = v
            elif k == 'message':
                e.fields[k] = e.args[0] if e.args else None
    except Exception:
        pass


def _havoc(I, v, name, kind=None):
    from .models_rt import _havoc_like
    return _havoc_like(I, v, name, kind)


M.models_rt_havoc = _havoc
