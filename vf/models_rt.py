"""Models (part 3): instantiation, external calls, loops with invariants,
spec built-ins."""
import ast
import enum
import io
import types

import z3

from .sym import (SInt, SBool, SSeq, SEnum, SOpt, Opaque, Obj, ExcVal, OutOfFragment,
                  IntSeq, fresh, seq_of, seq_lower, seq_concat, int_term, bool_term,
                  lower_int, lower_bool, is_symbolic, taint_of)
from . import models as M
from .models import model_for, spec_builtin, is_int_like, is_seq_like, equals
from .builtins_model import snapshot_value, SymRange, be_chunks
from .contracts import parse_expr


def _pyvc():
    from . import pyvc
    return pyvc


PURE_NATIVE_MODULES = ('kmip.core.enums',)


# ------------------------------------------------------------------ instantiation

def instantiate(I, cls, args, kw):
    if issubclass(cls, BaseException):
        e = ExcVal(cls, args)
        init = I._class_attr(cls, '__init__')
        if isinstance(init, types.FunctionType):
            I.call_value(_pyvc().BoundMethod(e, init), list(args), kw)
        return e
    if issubclass(cls, enum.Enum):
        v = I.resolve_opt(args[0]) if args else None
        if isinstance(v, SEnum):
            if v.cls is cls:
                return v
            I.raise_py(ValueError, "not a valid %s" % cls.__name__)
        if isinstance(v, SInt):
            from .sym import member_constraint
            member = member_constraint(cls, v.t)
            if not I.path.branch(member):
                I.raise_py(ValueError, "%s is not a valid %s" % ('<int>', cls.__name__))
            return SEnum(cls, v.t)
        if is_symbolic(v):
            raise OutOfFragment("enum lookup of %r" % (v,))
        try:
            return cls(v)
        except ValueError as e:
            I.raise_py(ValueError, *e.args)
    mod = getattr(cls, '__module__', '') or ''
    if I.opaque_outside is not None and (mod.startswith('kmip')) and \
            not any(mod == m or mod.startswith(m + '.') for m in I.opaque_outside):
        return opaque_external(I, "%s.%s()" % (mod, cls.__name__), args, kw)
    if cls.__name__ == 'ProtocolVersion' and mod == 'kmip.core.messages.contents' and \
            all(isinstance(a, int) for a in list(args) + list(kw.values())):
        # a pure value class built from concrete integers: the real object (its methods are the real code)
        try:
            return cls(*args, **kw)
        except Exception as e:
            I.raise_py(type(e), *e.args)
    if mod.startswith('kmip') or mod.startswith('contracts'):
        hook = INSTANTIATE_HOOKS.get(cls)
        if hook is not None:
            return hook(I, cls, args, kw)
        obj = Obj(cls)
        if hasattr(cls, '__table__') or hasattr(cls, '__mapper__'):
            obj.meta['db'] = True          # a mapped (pie) object, not yet attached to a session
            obj.meta['attached'] = False
        init = I._class_attr(cls, '__init__')
        init = getattr(init, '_sa_original_init', init)     # SQLAlchemy wraps mapped classes' __init__
        if isinstance(init, types.FunctionType):
            I.call_value(_pyvc().BoundMethod(obj, init), list(args), kw)
        return obj
    if cls is object:
        return Obj(object)
    return native_call(I, cls, args, kw)


INSTANTIATE_HOOKS = {}


def class_data_attr(I, obj, k, name, a):
    """Plain class attribute (constant) reached through an instance."""
    return a


def native_descriptor(I, obj, k, name, a):
    if name == '__init__':
        return _pyvc().BoundMethod(obj, _NOOP_INIT)
    if name in ('__str__', '__repr__'):
        return _pyvc().BoundMethod(obj, _OPAQUE_STR)
    if name == '__eq__':
        return _pyvc().BoundMethod(obj, _ID_EQ)
    if name == '__ne__':
        return _pyvc().BoundMethod(obj, _ID_NE)
    if name == '__hash__':
        return _pyvc().BoundMethod(obj, _ID_HASH)
    if isinstance(obj, ExcVal) and name == 'with_traceback':
        return _pyvc().BoundMethod(obj, _SELF)
    raise OutOfFragment("native descriptor %s.%s" % (k.__name__, name))


class _Marker(object):
    def __init__(self, n):
        self.__name__ = n


_NOOP_INIT = _Marker('noop_init')
_OPAQUE_STR = _Marker('opaque_str')
_ID_EQ = _Marker('id_eq')
_ID_NE = _Marker('id_ne')
_ID_HASH = _Marker('id_hash')
_SELF = _Marker('self')


def _noop_init(I, args, kw):
    o = args[0]
    if isinstance(o, ExcVal):
        o.args = tuple(args[1:])
    return None


M._MODELS[id(_NOOP_INIT)] = _noop_init
M._MODELS[id(_OPAQUE_STR)] = lambda I, a, k: (
    M.to_str(I, a[0].args[0]) if isinstance(a[0], ExcVal) and len(a[0].args) == 1 else
    ('' if isinstance(a[0], ExcVal) and not a[0].args else
     Opaque('str', 'str(native)', taint_of(a[0]), {'nonempty'})))
M._MODELS[id(_ID_EQ)] = lambda I, a, k: a[0] is a[1]
M._MODELS[id(_ID_NE)] = lambda I, a, k: a[0] is not a[1]
M._MODELS[id(_ID_HASH)] = lambda I, a, k: id(a[0])
M._MODELS[id(_SELF)] = lambda I, a, k: a[0]


# ------------------------------------------------------------------ external / native calls

def m_enumerations_from_bit_mask(I, args, kw):
    """kmip.core.enums.get_enumerations_from_bit_mask(enumeration, mask) with a symbolic mask:
    `[x for x in enumeration if (x.value & mask) == x.value]` is kept as a list of symbolic length
    whose members are exactly the members whose (single) bit is set in the mask.  Iterating it
    visits one arbitrary such member (chosen concretely, one path per member).  Assumed contract,
    cross-checked by the bounded unit `bitmask-members`."""
    cls, mask = args[0], I.resolve_opt(args[1]) if len(args) > 1 else kw.get('mask')
    if not isinstance(mask, SInt):
        return NotImplemented
    members = [m for m in cls if isinstance(m.value, int) and m.value > 0 and (m.value & (m.value - 1)) == 0]
    if len(members) != len(list(cls)):
        return NotImplemented
    P = I.path
    if not P.is_valid(mask.t >= 0):
        if not P.branch(mask.t >= 0):
            raise OutOfFragment("negative bit mask")
    # the length is only bounded (0..#members): which members there are is fixed by the element
    # constraint below; an exact popcount would put 20 div/mod terms into every later query
    n = fresh("nbits")
    P.assume(z3.And(n >= 0, n <= len(members)))
    I.path.session.assumptions.add(
        "enums.get_enumerations_from_bit_mask(E, mask) returns exactly the members of E whose bit is set "
        "in mask (one-line comprehension; bounded cross-check `bitmask-members`)")

    def factory(I2, tag):
        k = I2.path.choose(len(members), "mask-member")
        I2.path.assume((mask.t / members[k].value) % 2 == 1)
        return members[k]
    return _pyvc().SList("mask_members", n, factory)


def m_all_attribute_names(I, args, kw):
    """AttributePolicy.get_all_attribute_names(): the keys of the rule table, kept as a list whose
    iteration visits one arbitrary name (one path per name) instead of all of them in sequence."""
    pol = args[0]
    if is_symbolic(pol) or not hasattr(pol, '_attribute_rule_sets'):
        return NotImplemented
    names = list(pol._attribute_rule_sets.keys())

    def factory(I2, tag):
        return names[I2.path.choose(len(names), "table-name")]
    return _pyvc().SList("all_attribute_names", z3.IntVal(len(names)), factory)


def m_secret_factory_create(I, args, kw):
    """kmip.core.factories.secrets.SecretFactory.create(object_type, value): abstracted as a new
    core secret of the class belonging to the object type that holds the given value dictionary
    (event 'core.create'); key-like secrets carry a key block.  Assumed contract (its
    field-by-field construction is C05's subject)."""
    import importlib
    tc = getattr(I, 'top_contract', None)
    if tc is not None and tc.qualname.startswith('contracts.c_secretfactory.'):
        return NotImplemented       # the lemmas that prove this abstraction run the real factory
    sec = importlib.import_module('kmip.core.secrets')
    cobj = importlib.import_module('kmip.core.objects')
    enums = importlib.import_module('kmip.core.enums')
    ot = I.resolve_enum(I.resolve_opt(args[1]))
    value = args[2] if len(args) > 2 else kw.get('value')
    cls = {enums.ObjectType.CERTIFICATE: sec.Certificate, enums.ObjectType.SYMMETRIC_KEY: sec.SymmetricKey,
           enums.ObjectType.PUBLIC_KEY: sec.PublicKey, enums.ObjectType.PRIVATE_KEY: sec.PrivateKey,
           enums.ObjectType.SPLIT_KEY: sec.SplitKey, enums.ObjectType.SECRET_DATA: sec.SecretData,
           enums.ObjectType.OPAQUE_DATA: sec.OpaqueObject}.get(ot)
    if cls is None:
        return NotImplemented
    # the abstraction used here is proved of the real factory by the lemmas of
    # contracts/c_secretfactory.py, for dictionaries with exactly these keys
    shapes = {sec.Certificate: {'certificate_type', 'certificate_value'},
              sec.SymmetricKey: {'cryptographic_algorithm', 'cryptographic_length', 'key_format_type', 'key_value',
                                 'key_wrapping_data'},
              sec.SecretData: {'key_format_type', 'key_value', 'secret_data_type'},
              sec.OpaqueObject: {'opaque_data_type', 'opaque_data_value'},
              sec.SplitKey: {'cryptographic_algorithm', 'cryptographic_length', 'key_format_type', 'key_value',
                             'key_wrapping_data', 'split_key_parts', 'key_part_identifier', 'split_key_threshold',
                             'split_key_method', 'prime_field_size'}}
    shapes[sec.PublicKey] = shapes[sec.PrivateKey] = shapes[sec.SymmetricKey]
    if not isinstance(value, dict) or set(value) != shapes[cls]:
        raise OutOfFragment("SecretFactory.create with a dictionary the lemmas of contracts/c_secretfactory.py "
                            "do not cover: %r" % (sorted(value) if isinstance(value, dict) else value,))
    I.path.session.assumptions.add("SecretFactory.create: the abstraction used by the handlers (new secret of the "
                                   "type's class holding the given dictionary, no exception) is proved of the real "
                                   "factory by the lemmas in contracts/c_secretfactory.py for the dictionary "
                                   "shapes _build_core_object produces; assumed only: the stored column values "
                                   "have the kinds the lemmas quantify over")
    o = Obj(cls, {'__value__': value}, 'core-secret')
    if cls in (sec.SymmetricKey, sec.PublicKey, sec.PrivateKey, sec.SecretData):
        o.fields['key_block'] = Obj(cobj.KeyBlock, {'key_wrapping_data': None, '__value__': value}, 'key-block')
    elif cls is sec.SplitKey:
        o.fields['_key_block'] = Obj(cobj.KeyBlock, {'key_wrapping_data': None, '__value__': value}, 'key-block')
    I.path.event('core.create', ot, value, o)
    return o


def m_key_wrapping_data(I, args, kw):
    """kmip.pie.objects.Key.key_wrapping_data (getter): the dictionary assembled from the 33
    wrapping-data columns, kept as one uninterpreted value per object (its exactness is C05's
    subject; the request handlers only pass it on)."""
    if len(args) != 1 or kw:
        return NotImplemented
    obj = args[0]
    if not isinstance(obj, Obj) or not obj.meta.get('db'):
        return NotImplemented       # only for stored objects of the abstract store (handler pass)
    src = obj.meta.get('copy_of') or obj
    memo = I.path.ghost.setdefault('kwd', {})
    if id(src) not in memo:
        I.path._keep.append(src)
        memo[id(src)] = Opaque('dict', 'key_wrapping_data(%s)' % (src.label or 'mo'))
    return memo[id(src)]


QUALNAME_MODELS = {'kmip.core.enums.get_enumerations_from_bit_mask': m_enumerations_from_bit_mask,
                   'kmip.pie.objects.Key.key_wrapping_data': m_key_wrapping_data,
                   'kmip.core.factories.secrets.SecretFactory.create': m_secret_factory_create,
                   'kmip.services.server.policy.AttributePolicy.get_all_attribute_names': m_all_attribute_names}
M.QUALNAME_MODELS = QUALNAME_MODELS

NORAISE = set()        # ids of natives known not to raise
# descriptor objects of the cryptography package (hash algorithms, asymmetric paddings): their
# constructors are assumed not to raise for the argument-less / descriptor-only uses in this code base
NORAISE_PREFIXES = ('cryptography.hazmat.primitives.hashes.', 'cryptography.hazmat.primitives.asymmetric.padding.')
NORAISE_NAMES = {'posix.urandom', 'os.urandom', 'nt.urandom',
                 'cryptography.hazmat.backends.default_backend'}   # assumed not to raise
EXTERNAL_HOOK = [None]   # optional callback(I, f, args, kw) -> value or NotImplemented


def native_call(I, f, args, kw):
    """Call of something the fragment does not interpret."""
    if EXTERNAL_HOOK[0] is not None:
        r = EXTERNAL_HOOK[0](I, f, args, kw)
        if r is not NotImplemented:
            return r
    vals = list(args) + list(kw.values())
    conc = all(not is_symbolic(a) and not M._has_sym(a) and
               not isinstance(a, (_pyvc().BoundMethod, _pyvc().Closure, _pyvc().MutBytes))
               for a in vals)
    mod = getattr(f, '__module__', None) or getattr(getattr(f, '__self__', None), '__module__', '') or ''
    if conc and _is_pure_native(f):
        try:
            return f(*args, **kw)
        except Exception as e:
            I.raise_py(type(e), *e.args)
    name = getattr(f, '__qualname__', getattr(f, '__name__', repr(f)))
    if name == '_declarative_constructor' and mod.startswith('sqlalchemy') and not kw and len(args) == 1:
        # sqlalchemy's default mapped-class __init__(self, **kwargs) sets the given keyword
        # attributes: without keywords it does nothing (assumed from its documentation)
        I.path.session.assumptions.add("sqlalchemy declarative __init__() without keywords has no effect")
        return None
    ek = getattr(getattr(I, 'top_contract', None), 'external_kinds_', None) or {}
    if ("%s.%s" % (mod, name)) in ek:
        # the contract under proof states what this dependency returns (an assumed contract, listed)
        kind, raises = ek["%s.%s" % (mod, name)]
        from .modular import make_symbolic
        I.path.session.assumptions.add("external call %s.%s: returns a value of the kind the contract states%s" % (
            mod, name, ", may raise any Exception" if raises else ", assumed not to raise"))
        if raises and I.path.choose(2, "ext-raise") == 1:
            e = ExcVal(Exception, (Opaque('str', 'external-message'),))
            e.fields['__unknown_subclass__'] = True
            e.fields['__origin__'] = "%s.%s" % (mod, name)
            I.path.event('external', "%s.%s" % (mod, name), tuple(args), dict(kw), None)
            raise _pyvc().Raised(e)
        result = make_symbolic(I, kind, "%s.%s()" % (mod, name))
        I.path.event('external', "%s.%s" % (mod, name), tuple(args), dict(kw), result)
        return result
    if not I.path.session.__dict__.get('allow_external', False):
        raise OutOfFragment("call of external %s.%s" % (mod, name))
    return opaque_external(I, "%s.%s" % (mod, name), args, kw,
                           may_raise=("%s.%s" % (mod, name)) not in NORAISE_NAMES and
                           not ("%s.%s" % (mod, name)).startswith(NORAISE_PREFIXES))


def _is_pure_native(f):
    mod = getattr(f, '__module__', None)
    if isinstance(f, type):
        return mod in ('builtins', 'collections', 'enum') or (mod or '').startswith('kmip.core.enums')
    if isinstance(f, (types.BuiltinFunctionType, types.BuiltinMethodType)):
        s = getattr(f, '__self__', None)
        if s is None or isinstance(s, (types.ModuleType, str, bytes, int, tuple, frozenset, float)):
            return True
        if isinstance(s, type):
            return True
        return False
    if isinstance(f, types.MethodType):
        s = f.__self__
        if isinstance(s, enum.Enum) or (isinstance(s, type) and issubclass(s, enum.Enum)):
            return True
    if isinstance(f, types.FunctionType) and (mod or '') in PURE_NATIVE_MODULES:
        return True
    if isinstance(f, (types.MethodDescriptorType, types.WrapperDescriptorType)):
        return True
    return False


def opaque_external(I, name, args, kw, may_raise=True, pykind='object'):
    taint = frozenset()
    for a in list(args) + list(kw.values()):
        taint |= taint_of(a)
    result = Opaque(pykind, name, taint)
    I.path.event('external', name, tuple(args), dict(kw), result)
    I.path.session.assumptions.add("external call %s: result uninterpreted%s" % (
        name, ", may raise any Exception" if may_raise else ", assumed not to raise"))
    if may_raise:
        if I.path.choose(2, "ext-raise") == 1:
            e = ExcVal(Exception, (Opaque('str', 'external-message'),))
            e.fields['__unknown_subclass__'] = True
            e.fields['__origin__'] = name
            raise _pyvc().Raised(e)
    return result


def opaque_call(I, f, args, kw):
    if 'logger' in f.facts:
        level = f.name.rsplit('.', 1)[-1]
        I.path.event('log', level, taint_of(list(args)) | taint_of(list(kw.values())),
                     I.call_stack[-1] if I.call_stack else None)
        return None
    return opaque_external(I, f.name + "()", [f] + list(args), kw,
                           may_raise='noraise' not in f.facts)


def opaque_getattr(I, v, name):
    if name in v.fields:
        return v.fields[name]
    if v.pykind in ('str', 'bytes', 'int', 'list', 'dict'):
        return _pyvc().BoundMethod(v, _OpaqueMethod(name))
    r = Opaque('object', v.name + '.' + name, v.taint, v.facts & {'noraise', 'logger'})
    r.fields['__owner__'] = v          # the object this attribute / bound method belongs to
    v.fields[name] = r
    return r


class _OpaqueMethod(object):
    def __init__(self, name):
        self.__name__ = name


def _opaque_method_call(name):
    def f(I, args, kw):
        recv = args[0]
        t = taint_of(list(args)) | taint_of(list(kw.values()))
        if name in ('format', 'upper', 'lower', 'strip', 'replace', 'capitalize', 'join', 'decode',
                    'encode', 'lstrip', 'rstrip', 'title'):
            kind = recv.pykind
            if name == 'encode':
                kind = 'bytes'
            if name == 'decode':
                kind = 'str'
            return Opaque(kind, name, t, recv.facts & {'nonempty'})
        if name in ('startswith', 'endswith'):
            return SBool(fresh(name, z3.BoolSort()))
        if name in ('split',):
            return Opaque('list', name, t)
        if name in ('get', 'pop'):
            return Opaque('object', name, t)
        if name in ('append', 'extend', 'update'):
            recv.taint = recv.taint | t
            I.path.event('list.' + name, id(recv), args[1] if len(args) > 1 else None)
            return None
        if name in ('keys', 'values', 'items'):
            return Opaque('list', name, t)
        return Opaque('object', name, t)
    return f


_orig_lookup2 = M.lookup_model


def lookup_model(f):
    if isinstance(f, _OpaqueMethod):
        return _opaque_method_call(f.__name__)
    return _orig_lookup2(f)


M.lookup_model = lookup_model


def decorator_model(I, fn, ex):
    return None


def with_enter(I, cm):
    I.path.event('with.enter', getattr(cm, 'name', repr(cm)))
    if isinstance(cm, Obj):
        m = I._class_attr(cm.cls, '__enter__')
        if m is not None:
            return I.call_value(_pyvc().BoundMethod(cm, m), [], {})
    return cm


def with_exit(I, cm):
    I.path.event('with.exit', getattr(cm, 'name', repr(cm)))
    if isinstance(cm, Obj):
        m = I._class_attr(cm.cls, '__exit__')
        if m is not None:
            I.call_value(_pyvc().BoundMethod(cm, m), [None, None, None], {})


# ------------------------------------------------------------------ loops with invariants

def _havoc_like(I, v, name, kind=None):
    """Fresh symbolic value of the same Python kind as v."""
    MB = _pyvc().MutBytes
    if kind is not None:
        from .modular import make_symbolic
        return make_symbolic(I, kind, name)
    if isinstance(v, bool) or isinstance(v, SBool):
        return SBool(fresh(name, z3.BoolSort()))
    if isinstance(v, (int, SInt)) and not isinstance(v, enum.Enum):
        return SInt(fresh(name))
    if isinstance(v, (bytes, str, SSeq)):
        k = seq_of(v).kind
        return SSeq(k, [('s', fresh(name, IntSeq))], taint_of(v),
                    v.bound if isinstance(v, SSeq) else None)
    if isinstance(v, MB):
        return MB(SSeq('bytes', [('s', fresh(name, IntSeq))]))
    if isinstance(v, list):
        return Opaque('list', 'havoc_' + name)
    from .sym import SDict
    if isinstance(v, dict):
        from .modular import make_symbolic
        return SDict(name, 'opaque', make_symbolic)
    if isinstance(v, Opaque):
        return Opaque(v.pykind, 'havoc_' + name, taint_of(v))
    if isinstance(v, SDict):
        d = SDict(name, v.vkind, v.maker)
        d.kkind = v.kkind
        if v.keyset is not None:
            d.enable_keyset(I.path)
        return d
    if isinstance(v, SOpt):
        return SOpt(fresh(name + "_isnone", z3.BoolSort()), _havoc_like(I, v.v, name))
    if v is None:
        # a name bound to None before the loop and assigned inside it: after an arbitrary number
        # of iterations it holds None or some value of unknown kind
        return SOpt(fresh(name + "_isnone", z3.BoolSort()), Opaque('object', 'havoc_' + name))
    raise OutOfFragment("cannot havoc %s of kind %s (declare havoc kind in the loop spec)"
                        % (name, type(v).__name__))


def _assigned_names(body):
    names = []
    for s in body:
        for n in ast.walk(s):
            if isinstance(n, ast.Name) and isinstance(n.ctx, ast.Store):
                if n.id not in names:
                    names.append(n.id)
    return names


_MUTATORS = {'append', 'extend', 'insert', 'pop', 'remove', 'clear', 'update', 'add', 'discard',
             'setdefault', 'sort', 'reverse', 'popitem', 'appendleft', 'popleft'}


def _mutated_in_place_names(body):
    """Local names whose value the loop body may change without assigning the name: x[k] = v,
    del x[k], x[k] += v, x.append(v), ...  Their content after an arbitrary number of iterations
    is unknown, exactly like that of an assigned name."""
    names = []

    def base(n):
        while isinstance(n, (ast.Subscript, ast.Attribute)) and not isinstance(n, ast.Name):
            if isinstance(n, ast.Attribute):
                return None          # field of an object: judged by the heap frame, not here
            n = n.value
        return n.id if isinstance(n, ast.Name) else None

    for s in body:
        for n in ast.walk(s):
            b = None
            if isinstance(n, ast.Subscript) and isinstance(n.ctx, (ast.Store, ast.Del)):
                b = base(n.value)
            elif isinstance(n, ast.Call) and isinstance(n.func, ast.Attribute) and n.func.attr in _MUTATORS \
                    and isinstance(n.func.value, ast.Name):
                b = n.func.value.id
            if b is not None and b not in names:
                names.append(b)
    return names


def _resolve_path(I, env, path):
    """'self.value' -> (container object, field name)"""
    parts = path.split('.')
    if len(parts) == 1:
        return None, parts[0]
    v = env.locals[parts[0]]
    for p in parts[1:-1]:
        v = I.getattr(v, p)
    return I.resolve_opt(v), parts[-1]


def _heap_snapshot(I, env):
    seen = {}
    MB = _pyvc().MutBytes

    def walk(v, depth):
        if depth > 4:
            return
        if isinstance(v, Obj):
            if id(v) in seen:
                return
            seen[id(v)] = (v, dict(v.fields))
            # containers held in fields can also be changed in place: remember their content
            for fn, f in v.fields.items():
                if isinstance(f, list):
                    seen[id(v)][1]['__content__' + fn] = list(f)
                elif type(f).__name__ == 'SDict':
                    seen[id(v)][1]['__content__' + fn] = getattr(f, 'version', 0)
            for f in v.fields.values():
                walk(f, depth + 1)
        elif isinstance(v, (list, tuple)):
            for x in v:
                walk(x, depth + 1)
        elif isinstance(v, dict):
            for x in v.values():
                walk(x, depth + 1)
    for v in env.locals.values():
        walk(v, 0)
    return seen


def _check_frame(I, env, snap, allowed, qn, k):
    """Everything on the reachable heap outside `allowed` must be unchanged by the body."""
    allowed_pairs = set()
    allowed_objs = set()
    for p in allowed:
        o, f = _resolve_path(I, env, p)
        if o is not None:
            if f == '*':
                allowed_objs.add(id(o))
            else:
                allowed_pairs.add((id(o), f))
    for oid, (o, fields) in snap.items():
        if oid in allowed_objs:
            continue
        for f, old in fields.items():
            if f.startswith('__content__'):
                g = f[len('__content__'):]
                cur = o.fields.get(g)
                if (oid, g) in allowed_pairs or cur is not fields.get(g):
                    continue
                same = (len(cur) == len(old) and all(a is b for a, b in zip(cur, old))) if isinstance(cur, list) \
                    else getattr(cur, 'version', 0) == old
                if not same:
                    I.path.fail("%s/loop.%d.frame" % (qn, k), "frame",
                                "loop body changes the %s %s.%s in place, which is not in the loop's modifies list"
                                % ('list' if isinstance(cur, list) else 'dictionary', o.cls.__name__, g))
                    return
                continue
            new = o.fields.get(f, None)
            if new is old or (oid, f) in allowed_pairs:
                continue
            if not is_symbolic(new) and not is_symbolic(old) and new == old:
                continue
            I.path.fail("%s/loop.%d.frame" % (qn, k), "frame",
                        "loop body modifies %s.%s which is not in the loop's modifies list"
                        % (o.cls.__name__, f))
            return
        for f in o.fields:
            if f not in fields and o.meta.get('db') and \
                    o.meta.get('initial_columns', {}).get(f) is o.fields[f]:
                continue      # a column value materialised by a read, not a write
            if f not in fields and o.meta.get('lazy_created', {}).get(f) is o.fields[f]:
                continue      # a lazily chosen input (e.g. the engine's protocol version) first read here
            if f not in fields and (oid, f) not in allowed_pairs:
                I.path.fail("%s/loop.%d.frame" % (qn, k), "frame",
                            "loop body adds field %s.%s" % (o.cls.__name__, f))
                return


def _eval_inv(I, spec, env, extra):
    loc = dict(env.locals)
    loc.update(extra)
    conj = []
    for src in spec.inv:
        e = _pyvc().Env(loc, env.globals, env.cls_ctx, '<inv>', None)
        e.spec = True
        e.old = env.locals.get('__old__')
        v = I.eval(parse_expr(src), e)
        conj.append(I.truth(v))
    return conj


def _prove_inv(I, spec, env, extra, name):
    for i, t in enumerate(_eval_inv(I, spec, env, extra)):
        I.path.prove("%s.%d" % (name, i) if len(spec.inv) > 1 else name, t, kind="inv")


def _assume_inv(I, spec, env, extra, havocked=()):
    """Assume the invariant.  A conjunct `<havocked path> == E` *binds* the path
    to E (same meaning as assuming the equation about a fresh value, but keeps
    the chunk structure of E, which the solver needs for element facts)."""
    bound = set()

    def conjuncts(node):
        if isinstance(node, ast.BoolOp) and isinstance(node.op, ast.And):
            out = []
            for v in node.values:
                out.extend(conjuncts(v))
            return out
        return [node]
    for src in spec.inv:
        for node in conjuncts(parse_expr(src)):
            loc = dict(env.locals)
            loc.update(extra)
            e = _pyvc().Env(loc, env.globals, env.cls_ctx, '<inv>', None)
            e.spec = True
            e.old = env.locals.get('__old__')
            if isinstance(node, ast.Compare) and len(node.ops) == 1 and isinstance(node.ops[0], ast.Eq):
                ltxt = ast.unparse(node.left)
                if ltxt in havocked and ltxt not in bound:
                    val = I.eval(node.comparators[0], e)
                    if isinstance(node.left, ast.Name):
                        if ltxt in extra:
                            extra[ltxt] = val
                        else:
                            env.locals[ltxt] = val
                    else:
                        o = I.resolve_opt(I.eval(node.left.value, e))
                        o.fields[node.left.attr] = val
                    bound.add(ltxt)
                    continue
            I.path.assume(I.truth(I.eval(node, e)))


def _havoc_loop_state(I, node, env, spec, tag, extra_skip=()):
    names = [n for n in _assigned_names(node.body) if n in env.locals and n not in extra_skip]
    for n in _mutated_in_place_names(node.body):
        # containers held in locals and changed in place (only real containers: a call such as
        # obj.update(...) on a modelled object is judged by the heap frame)
        if n in env.locals and n not in names and n not in extra_skip and \
                isinstance(env.locals[n], (list, dict, set, Opaque)) and n not in spec.havoc:
            names.append(n)
    spec._havocked = set(names) | set(spec.havoc) | set(spec.modifies)
    for n in names:
        env.locals[n] = _havoc_like(I, env.locals[n], "%s_%s" % (tag, n), spec.havoc.get(n))
    for n, kind in spec.havoc.items():
        if n not in names and '.' not in n:
            env.locals[n] = _havoc_like(I, env.locals.get(n), "%s_%s" % (tag, n), kind)
    for p in spec.modifies:
        o, f = _resolve_path(I, env, p)
        if o is not None and f == '*':
            # every field of the object may have been written by earlier iterations
            if o.meta.get('db'):
                for g in [g for g in o.fields if g != '_object_type']:
                    del o.fields[g]
                o.meta['havocked'] = True       # unread columns now read as unknown values, not unset
            else:
                for g in list(o.fields):
                    o.fields[g] = _havoc_like(I, o.fields[g], "%s_%s" % (tag, g), None)
            continue
        if o is None:
            if f in env.locals and f not in names:
                env.locals[f] = _havoc_like(I, env.locals[f], "%s_%s" % (tag, f), spec.havoc.get(f))
            continue
        cur = I.getattr(o, f)
        o.fields[f] = _havoc_like(I, cur, "%s_%s" % (tag, f), spec.havoc.get(p))


def symbolic_for(I, node, env, it, spec, k, qn):
    P = I.path
    base = "%s/inv.%d" % (qn, k)
    MB = _pyvc().MutBytes
    SL = _pyvc().SList
    if isinstance(it, MB):
        it = it.v
    idx_name = spec.index or '_i'
    ghosts = {}
    for g, src in spec.ghost_init.items():
        ghosts[g] = I.eval_spec(src, env.locals, env.globals, env.locals.get('__old__'), env.cls_ctx)
    if isinstance(it, SymRange):
        start, stop = it.start, it.stop
        if it.step != 1 or not (isinstance(start, int) and start == 0):
            raise OutOfFragment("symbolic range with start/step")
        n_t = int_term(stop)
        n_t = z3.If(n_t > 0, n_t, 0)
        extra0 = dict(ghosts)
        extra0[idx_name] = 0
        _prove_inv(I, spec, env, extra0, base + ".init")
        _havoc_loop_state(I, node, env, spec, "L%d" % k)
        i = fresh("i")
        P.assume(z3.And(i >= 0, i <= n_t))
        gh = {g: (_havoc_like(I, v, "g_" + g) if g in spec.ghost_step else v) for g, v in ghosts.items()}
        extra = dict(gh)
        extra[idx_name] = SInt(i)
        _assume_inv(I, spec, env, extra, spec._havocked | set(gh))
        if P.choose(2, "loop%d" % k) == 0:
            # one arbitrary iteration
            P.assume(i < n_t)
            I.assign(node.target, SInt(i), env)
            snap = _heap_snapshot(I, env)
            try:
                I.exec_block(node.body, env)
            except _pyvc()._Break:
                I.path.event('loop.break', k)      # the loop is left before its iterable is exhausted
                return
            except _pyvc()._Continue:
                pass
            _check_frame(I, env, snap, spec.modifies, qn, k)
            extra2 = {}
            for g in gh:
                loc = dict(env.locals)
                loc.update(extra)
                extra2[g] = I.eval_spec(spec.ghost_step[g], loc, env.globals,
                                        env.locals.get('__old__'), env.cls_ctx) \
                    if g in spec.ghost_step else gh[g]
            extra2[idx_name] = lower_int(i + 1)
            _prove_inv(I, spec, env, extra2, base + ".preserved")
            raise _pyvc().PathEnd()
        P.assume(i == n_t)
        env.locals.update({('__ghost_' + g): v for g, v in gh.items()})
        env.locals.setdefault('__loopvars__', {}).update(extra)
        for g, v in extra.items():
            env.locals['__g%d_%s' % (k, g)] = v
        return
    if isinstance(it, SSeq):
        whole = it
        done_name = spec.done or 'done'
        rest_name = spec.rest or 'rest'
        empty = b'' if it.kind == 'bytes' else ''
        extra0 = dict(ghosts)
        extra0.update({done_name: empty, rest_name: whole, idx_name: 0})
        _prove_inv(I, spec, env, extra0, base + ".init")
        _havoc_loop_state(I, node, env, spec, "L%d" % k)
        d = fresh("done", IntSeq)
        r = fresh("rest", IntSeq)
        P.assume(whole.to_z3() == z3.Concat(d, r))
        done_v = SSeq(it.kind, [('s', d)], it.taint, it.bound)
        gh = {g: (_havoc_like(I, v, "g_" + g) if g in spec.ghost_step else v) for g, v in ghosts.items()}
        extra = dict(gh)
        extra.update({done_name: done_v, rest_name: SSeq(it.kind, [('s', r)], it.taint, it.bound),
                      idx_name: lower_int(z3.Length(d))})
        _assume_inv(I, spec, env, extra, spec._havocked | set(gh))
        if P.choose(2, "loop%d" % k) == 0:
            x = fresh("x")
            r2 = fresh("rest", IntSeq)
            P.assume(r == z3.Concat(z3.Unit(x), r2))
            P.assume(z3.And(x >= it.bound[0], x <= it.bound[1]))
            item = SInt(x, it.taint) if it.kind == 'bytes' else SSeq('str', [('u', [x])], it.taint, it.bound)
            I.assign(node.target, item, env)
            snap = _heap_snapshot(I, env)
            try:
                I.exec_block(node.body, env)
            except _pyvc()._Break:
                I.path.event('loop.break', k)      # the loop is left before its iterable is exhausted
                return
            except _pyvc()._Continue:
                pass
            _check_frame(I, env, snap, spec.modifies, qn, k)
            extra2 = {}
            for g in gh:
                loc = dict(env.locals)
                loc.update(extra)
                extra2[g] = I.eval_spec(spec.ghost_step[g], loc, env.globals,
                                        env.locals.get('__old__'), env.cls_ctx) \
                    if g in spec.ghost_step else gh[g]
            extra2.update({done_name: SSeq(it.kind, [('s', d), ('u', [x])], it.taint, it.bound),
                           rest_name: SSeq(it.kind, [('s', r2)], it.taint, it.bound),
                           idx_name: lower_int(z3.Length(d) + 1)})
            _prove_inv(I, spec, env, extra2, base + ".preserved")
            raise _pyvc().PathEnd()
        P.assume(z3.Length(r) == 0)
        P.assume(d == whole.to_z3())
        final = dict(gh)
        final.update({done_name: whole, rest_name: empty, idx_name: lower_int(whole.length())})
        # re-assume the invariant phrased over the whole sequence (helps the solver)
        _assume_inv(I, spec, env, final)
        return
    if isinstance(it, SL):
        from .looplist import symbolic_for_list
        return symbolic_for_list(I, node, env, it, spec, k, qn)
    raise OutOfFragment("symbolic iteration over %s" % type(it).__name__)


def symbolic_while(I, node, env, spec, k, qn):
    P = I.path
    base = "%s/inv.%d" % (qn, k)
    ghosts = {}
    for g, src in spec.ghost_init.items():
        ghosts[g] = I.eval_spec(src, env.locals, env.globals, env.locals.get('__old__'), env.cls_ctx)
    _prove_inv(I, spec, env, dict(ghosts), base + ".init")
    _havoc_loop_state(I, node, env, spec, "W%d" % k)
    gh = {g: (_havoc_like(I, v, "g_" + g) if g in spec.ghost_step else v) for g, v in ghosts.items()}
    extra = dict(gh)
    _assume_inv(I, spec, env, extra, spec._havocked | set(gh))
    dec0 = None
    if spec.decreases:
        loc = dict(env.locals)
        loc.update(extra)
        dec0 = I.eval_spec(spec.decreases, loc, env.globals, env.locals.get('__old__'), env.cls_ctx)
    if I.cond(I.eval(node.test, env)):
        if P.choose(2, "loop%d" % k) == 1:
            # the state after exit is not reachable from this fork
            raise _pyvc().Infeasible()
        snap = _heap_snapshot(I, env)
        try:
            I.exec_block(node.body, env)
        except _pyvc()._Break:
            I.path.event('loop.break', k)      # the loop is left before its iterable is exhausted
            return
        except _pyvc()._Continue:
            pass
        _check_frame(I, env, snap, spec.modifies, qn, k)
        extra2 = {}
        for g in gh:
            loc = dict(env.locals)
            loc.update(extra)
            extra2[g] = I.eval_spec(spec.ghost_step[g], loc, env.globals,
                                    env.locals.get('__old__'), env.cls_ctx) \
                if g in spec.ghost_step else gh[g]
        _prove_inv(I, spec, env, extra2, base + ".preserved")
        if dec0 is not None:
            loc = dict(env.locals)
            loc.update(extra2)
            dec1 = I.eval_spec(spec.decreases, loc, env.globals, env.locals.get('__old__'), env.cls_ctx)
            P.prove(base + ".decreases", z3.And(int_term(dec1) < int_term(dec0), int_term(dec0) >= 0),
                    kind="inv")
        raise _pyvc().PathEnd()
    for g, v in gh.items():
        env.locals['__g%d_%s' % (k, g)] = v
    if node.orelse:
        I.exec_block(node.orelse, env)


# ------------------------------------------------------------------ spec built-ins

@spec_builtin('implies')
def sb_implies(I, args, kw):
    a, b = args
    ta, tb = I.truth(a), I.truth(b)
    if isinstance(ta, bool):
        return tb if ta else True
    if isinstance(tb, bool):
        return True if tb else lower_bool(z3.Not(ta))
    return lower_bool(z3.Implies(ta, tb))


@spec_builtin('iff')
def sb_iff(I, args, kw):
    ta, tb = I.truth(args[0]), I.truth(args[1])
    if isinstance(ta, bool) and isinstance(tb, bool):
        return ta == tb
    ta = z3.BoolVal(ta) if isinstance(ta, bool) else ta
    tb = z3.BoolVal(tb) if isinstance(tb, bool) else tb
    return lower_bool(ta == tb)


@spec_builtin('conj')
def sb_conj(I, args, kw):
    ts = [I.truth(a) for a in args]
    if any(t is False for t in ts):
        return False
    ts = [t for t in ts if t is not True]
    if not ts:
        return True
    return lower_bool(z3.And(*ts) if len(ts) > 1 else ts[0])


@spec_builtin('disj')
def sb_disj(I, args, kw):
    ts = [I.truth(a) for a in args]
    if any(t is True for t in ts):
        return True
    ts = [t for t in ts if t is not False]
    if not ts:
        return False
    return lower_bool(z3.Or(*ts) if len(ts) > 1 else ts[0])


@spec_builtin('be')
def sb_be(I, args, kw):
    n, v = args
    if not isinstance(n, int):
        raise OutOfFragment("be() with symbolic width")
    if isinstance(v, int):
        return (v % (256 ** n)).to_bytes(n, 'big')
    from .builtins_model import known_digits
    d = known_digits(I, n, v)
    if d is None and isinstance(v, SInt):
        # digit lemma: if pc forces v == T for a composed T with known digits, use them
        reg = I.path.ghost.get('digits', {})
        for tid in reversed(list(reg)):
            T, els = reg[tid]
            if len(els) <= n and I.path.is_valid(v.t == T):
                d = [0] * (n - len(els)) + list(els)
                break
    if d is not None:
        return seq_lower(SSeq('bytes', [('u', d)], taint_of(v)))
    ds = be_chunks(n, int_term(v))
    if isinstance(v, SInt) and I.path.is_valid(z3.And(v.t >= 0, v.t < 256 ** n)):
        # remember that these digit terms compose back to v (be_int o be == id)
        rev = I.path.ghost.setdefault('undigits', {})
        rev[tuple(d.get_id() for d in ds)] = (ds, v)
    return seq_lower(SSeq('bytes', [('u', ds)], taint_of(v)))


@spec_builtin('be_int')
def sb_be_int(I, args, kw):
    b = I.resolve_opt(args[0])
    if isinstance(b, bytes):
        return int.from_bytes(b, 'big')
    s = seq_of(b)
    n = s.length()
    if not isinstance(n, int):
        raise OutOfFragment("be_int of symbolic-length bytes")
    t = z3.IntVal(0)
    els = []
    flat = [e for c in s.chunks for e in c[1]]
    if all(not isinstance(e, int) for e in flat):
        ent = I.path.ghost.get('undigits', {}).get(tuple(e.get_id() for e in flat))
        if ent is not None and all(a.eq(b) for a, b in zip(ent[0], flat)):
            return ent[1]
    for c in s.chunks:
        for e in c[1]:
            t = t * 256 + (z3.IntVal(e) if isinstance(e, int) else e)
            els.append(e)
            if not isinstance(e, int):
                I.path.assume(z3.And(e >= 0, e <= 255))
    r = lower_int(t, s.taint)
    from .builtins_model import remember_digits
    remember_digits(I, r, els)
    return r


@spec_builtin('zeros')
def sb_zeros(I, args, kw):
    n = args[0]
    if isinstance(n, int):
        return bytes(max(n, 0))
    vals = I.path.enumerate_small(int_term(n))
    if vals is not None:
        for cand in vals:
            if I.path.branch(int_term(n) == cand):
                return bytes(max(cand, 0))
        raise _pyvc().Infeasible()
    return M.rep_seq(I, 'bytes', 0, n)


@spec_builtin('ite')
def sb_ite(I, args, kw):
    c, a, b = args
    if I.cond(c):
        return a
    return b


@spec_builtin('text_bytes')
def sb_text_bytes(I, args, kw):
    s = I.resolve_opt(args[0])
    if isinstance(s, str):
        return bytes([ord(ch) for ch in s]) if all(ord(ch) < 256 for ch in s) else s.encode()
    s = seq_of(s)
    return SSeq('bytes', s.chunks, s.taint)


@spec_builtin('bytes_text')
def sb_bytes_text(I, args, kw):
    s = I.resolve_opt(args[0])
    if isinstance(s, bytes):
        return ''.join(chr(b) for b in s)
    s = seq_of(s)
    return SSeq('str', s.chunks, s.taint)


@spec_builtin('forall_elems')
def sb_forall_elems(I, args, kw):
    s, lo, hi = args
    s = I.resolve_opt(s)
    if isinstance(s, (bytes, str)):
        els = list(s) if isinstance(s, bytes) else [ord(c) for c in s]
        return all(lo <= e <= hi for e in els)
    s = seq_of(s)
    conj = []
    for c in s.chunks:
        if c[0] == 'u':
            for e in c[1]:
                if isinstance(e, int):
                    if not lo <= e <= hi:
                        return False
                else:
                    conj.append(z3.And(e >= lo, e <= hi))
        elif lo <= c[2][0] and c[2][1] <= hi:
            continue
        else:
            i = z3.Int("fa_i!%d" % c[1].get_id())
            conj.append(z3.ForAll([i], z3.Implies(z3.And(i >= 0, i < z3.Length(c[1])),
                                                  z3.And(c[1][i] >= lo, c[1][i] <= hi))))
    if not conj:
        return True
    return lower_bool(z3.And(*conj) if len(conj) > 1 else conj[0])


@spec_builtin('is_member')
def sb_is_member(I, args, kw):
    cls, v = args
    vals = sorted(set(m.value for m in cls if isinstance(m.value, int)))
    if isinstance(v, int):
        return v in vals
    t = int_term(v)
    from .sym import member_constraint
    return lower_bool(member_constraint(vals, t))


@spec_builtin('member_of')
def sb_member_of(I, args, kw):
    """member_of(cls, int_value) -> the enum member (symbolic)"""
    cls, v = args
    if isinstance(v, int):
        return cls(v)
    return SEnum(cls, int_term(v))


@spec_builtin('fresh_int')
def sb_fresh_int(I, args, kw):
    return SInt(fresh(args[0] if args else "g"))


@spec_builtin('type_is')
def sb_type_is(I, args, kw):
    return I.pytype(I.resolve_opt(args[0])) is args[1]


# link the native implementations (vf/specrt.py) to the same models, so that spec
# functions importing them resolve to the symbolic model when interpreted
from . import specrt as _specrt  # noqa: E402
for _n, _marker in list(M.SPEC_BUILTINS.items()):
    _f = getattr(_specrt, _n, None)
    if _f is not None:
        M._MODELS[id(_f)] = M._MODELS[id(_marker)]
        M._MODEL_KEEP.append(_f)


import logging as _logging  # noqa: E402


@model_for(_logging.getLogger)
def m_getlogger(I, args, kw):
    return Opaque('object', 'logger', facts={'noraise', 'logger', 'truthy'})


@spec_builtin('exists_in')
def sb_exists_in(I, args, kw):
    """exists_in(collection, f): some element satisfies f.  For a list of symbolic
    length only the members witnessed on this path are tried (a sound
    under-approximation when the clause has to be proved)."""
    coll, f = args
    coll = I.resolve_opt(coll)
    if coll is None:
        return False
    items = coll.members if isinstance(coll, _pyvc().SList) else I.iterate_concrete(coll)
    ts = []
    for x in items:
        t = I.truth(I.call_value(f, [x], {}))
        if t is True:
            return True
        if t is not False:
            ts.append(t)
    if not ts:
        return False
    return lower_bool(z3.Or(*ts) if len(ts) > 1 else ts[0])


UF_KINDS = {}


@spec_builtin('uf')
def sb_uf(I, args, kw):
    """uf(name, *args): value of an uninterpreted function (memoised per argument
    identity on this path); its kind is registered in UF_KINDS[name]."""
    name = args[0]
    from .builtins_model import key_identity
    key = (name,) + tuple(key_identity(I, a)[0] for a in args[1:])
    memo = I.path.ghost.setdefault('uf', {})
    if key not in memo:
        from .modular import make_symbolic
        memo[key] = make_symbolic(I, UF_KINDS.get(name, 'opaque'), "uf_%s%d" % (name, len(memo)))
    return memo[key]


def _link_specrt():
    for _n, _marker in list(M.SPEC_BUILTINS.items()):
        _f = getattr(_specrt, _n, None)
        if _f is not None and id(_f) not in M._MODELS:
            M._MODELS[id(_f)] = M._MODELS[id(_marker)]
            M._MODEL_KEEP.append(_f)


_link_specrt()


@spec_builtin('list_replace')
def sb_list_replace(I, args, kw):
    """list_replace(lst, i, v): copy of lst with element i replaced by v (0 <= i < len)."""
    lst, i, v = args
    lst = list(I.iterate_concrete(lst))
    if isinstance(i, SInt):
        for k in range(len(lst)):
            if I.path.branch(i.t == k):
                return lst[:k] + [v] + lst[k + 1:]
        raise _pyvc().Infeasible()
    return lst[:i] + [v] + lst[i + 1:]


@spec_builtin('list_remove_at')
def sb_list_remove_at(I, args, kw):
    lst, i = args
    lst = list(I.iterate_concrete(lst))
    if isinstance(i, SInt):
        for k in range(len(lst)):
            if I.path.branch(i.t == k):
                return lst[:k] + lst[k + 1:]
        raise _pyvc().Infeasible()
    return lst[:i] + lst[i + 1:]


@spec_builtin('same_items')
def sb_same_items(I, args, kw):
    """same_items(a, b): lists of equal length whose elements are pairwise identical objects or
    equal values."""
    a, b = list(I.iterate_concrete(args[0])), list(I.iterate_concrete(args[1]))
    if len(a) != len(b):
        return False
    ts = []
    for x, y in zip(a, b):
        if x is y:
            continue
        if isinstance(x, Obj) or isinstance(y, Obj):
            return False
        t = I.truth(M.equals(I, x, y))
        if t is False:
            return False
        if t is not True:
            ts.append(t)
    if not ts:
        return True
    return lower_bool(z3.And(*ts) if len(ts) > 1 else ts[0])


_link_specrt()


@spec_builtin('removed_first')
def sb_removed_first(I, args, kw):
    """removed_first(new, old, pred): `new` is `old` without its first element satisfying pred
    (and such an element exists).  Lists with a concrete spine."""
    new, old, pred = args
    new, old = list(I.iterate_concrete(new)), list(I.iterate_concrete(old))
    if len(new) != len(old) - 1:
        return False
    hits = [I.truth(I.call_value(pred, [x], {})) for x in old]
    alts = []
    for k in range(len(old)):
        same = sb_same_items(I, [new, old[:k] + old[k + 1:]], {})
        parts = [hits[k]] + [_neg(h) for h in hits[:k]] + [I.truth(same)]
        if any(p is False for p in parts):
            continue
        parts = [p for p in parts if p is not True]
        if not parts:
            return True
        alts.append(z3.And(*[_term(p) for p in parts]) if len(parts) > 1 else _term(parts[0]))
    if not alts:
        return False
    return lower_bool(z3.Or(*alts) if len(alts) > 1 else alts[0])


def _neg(t):
    if isinstance(t, bool):
        return not t
    return z3.Not(_term(t))


def _term(t):
    return t.t if isinstance(t, SBool) else t


_link_specrt()


@spec_builtin('keys_of')
def sb_keys_of(I, args, kw):
    """keys_of(d): the set of keys of a string-keyed dictionary, as a value (snapshot)"""
    from . import symset
    return symset.keys_of(I, I.resolve_opt(args[0]))


_link_specrt()
