"""Byte-level replay of a ttlvsym shape on the real, unpatched code.

instantiate(tree, samples) turns the item tree of an accepted input into real
bytes with an *independent* encoder written from KMIP 9.1 (contracts/spec_ttlv).
`python -m vf.ttlvreplay <repo> <json>` (fresh process: no stubs installed)
decodes those bytes with the real class, re-encodes, decodes again, and reports.
"""
import enum
import importlib
import json
import os
import subprocess
import sys

VERIF = os.path.dirname(os.path.dirname(os.path.abspath(__file__)))

SAMPLE_SETS = {
    "plain": {"Integer": 7, "LongInteger": 70000000000, "BigInteger": 1234567890123456789012,
              "DateTime": 1500000000, "Interval": 60, "Boolean": True, "TextString": "abc",
              "ByteString": b"\x01\x02\x03"},
    "zero": {"Integer": 0, "LongInteger": 0, "BigInteger": 0, "DateTime": 0, "Interval": 0,
             "Boolean": False, "TextString": "", "ByteString": b""},
    "edge": {"Integer": -2147483648, "LongInteger": -9223372036854775808, "BigInteger": -1,
             "DateTime": 2147483648, "Interval": 4294967295, "Boolean": True,
             "TextString": "1234567", "ByteString": b"\xff" * 8},
    "pad1": {"Integer": 2147483647, "LongInteger": 9223372036854775807, "BigInteger": 2 ** 64,
             "DateTime": 1, "Interval": 1, "Boolean": False, "TextString": "123456789",
             "ByteString": b"\x00"},
}


def _spec():
    sys.path.insert(0, VERIF)
    from contracts import spec_ttlv
    return spec_ttlv


def enc_bigint(v):
    n = 8
    while not (-(1 << (8 * n - 1)) <= v < (1 << (8 * n - 1))):
        n += 8
    return (v % (1 << (8 * n))).to_bytes(n, 'big')


def instantiate(tree, samples, enums_mod, nested=None, version=None, symvals=None):
    """item tree (list) -> bytes"""
    S = _spec()
    out = b''
    symvals = symvals if symvals is not None else {}
    for it in tree:
        kind = it["kind"]
        tag = getattr(enums_mod.Tags, it["tag"]) if it.get("tag") else None
        if kind == 'struct':
            body = instantiate(it["children"], samples, enums_mod, nested, version, symvals)
            out += S.hdr(tag.value, 1, len(body)) + body
        elif kind == 'raw':
            out += b''
        elif kind == 'opaque':
            if nested is None:
                raise ValueError("nested structure %s needs a sample encoding" % it["cls"])
            nv = version
            if it.get("version") and version is not None:
                nv = getattr(type(version), it["version"], version)
            out += nested(it["cls"], tag, nv)
        else:
            v = it["value"]
            if "sym" in v:
                key = (kind, v["sym"])
                if key not in symvals:
                    if kind == 'Enumeration':
                        cls = getattr(enums_mod, it["enum"])
                        members = list(cls)
                        symvals[key] = members[v["sym"] % len(members)]
                    else:
                        symvals[key] = samples[kind]
                val = symvals[key]
            elif "member" in v:
                val = getattr(getattr(enums_mod, it["enum"]), v["member"])
            elif "hex" in v:
                val = bytes.fromhex(v["hex"])
            else:
                val = v["const"]

            class _T(object):
                pass
            t = _T()
            t.value = tag.value
            if kind == 'Integer':
                out += S.enc_integer(t, val)
            elif kind == 'LongInteger':
                out += S.enc_long_integer(t, val)
            elif kind == 'DateTime':
                out += S.enc_date_time(t, val)
            elif kind == 'Interval':
                out += S.enc_interval(t, val)
            elif kind == 'Boolean':
                out += S.enc_boolean(t, bool(val))
            elif kind == 'Enumeration':
                out += S.enc_enumeration(t, val.value)
            elif kind == 'TextString':
                out += S.enc_text_string(t, val)
            elif kind == 'ByteString':
                out += S.enc_byte_string(t, bytes(val))
            elif kind == 'BigInteger':
                b = enc_bigint(val)
                out += S.hdr(tag.value, 4, len(b)) + b
            else:
                raise ValueError("kind %s" % kind)
    return out


# ---------------------------------------------------------------- independent parser (wf oracle)

def parse_ttlv(b, depth=0):
    """Independent TTLV parser from KMIP 9.1.  Returns list of (tag, type, length, value|children)
    or raises ValueError naming the malformation."""
    out = []
    i = 0
    while i < len(b):
        if len(b) - i < 8:
            raise ValueError("truncated header at offset %d" % i)
        tag = int.from_bytes(b[i:i + 3], 'big')
        typ = b[i + 3]
        ln = int.from_bytes(b[i + 4:i + 8], 'big')
        if typ not in range(1, 11):
            raise ValueError("unknown type byte %d" % typ)
        fixed = {2: 4, 3: 8, 5: 4, 6: 8, 9: 8, 10: 4}
        if typ in fixed and ln != fixed[typ]:
            raise ValueError("type %d must have length %d, has %d" % (typ, fixed[typ], ln))
        if typ == 4 and ln % 8:
            raise ValueError("big integer length %d not a multiple of 8" % ln)
        padded = ln + (8 - ln % 8) % 8
        if len(b) - i - 8 < padded:
            raise ValueError("value of item %06x runs past the end" % tag)
        val = b[i + 8:i + 8 + ln]
        pad = b[i + 8 + ln:i + 8 + padded]
        if any(pad):
            raise ValueError("non-zero padding in item %06x" % tag)
        if typ == 1:
            out.append((tag, typ, ln, parse_ttlv(val, depth + 1)))
        else:
            if typ == 6 and int.from_bytes(val, 'big') not in (0, 1):
                raise ValueError("boolean not 0/1")
            out.append((tag, typ, ln, val))
        i += 8 + padded
    return out


# ---------------------------------------------------------------- native check (fresh process)

def native_check(repo, clsname, version, data_hex):
    """Runs in a process without stubs."""
    sys.path.insert(0, repo)
    from kmip.core import enums, utils
    mod, _, name = clsname.rpartition('.')
    cls = getattr(importlib.import_module(mod), name)
    v = getattr(enums.KMIPVersion, version)
    data = bytes.fromhex(data_hex)
    res = {"class": clsname, "version": version, "input_len": len(data)}
    try:
        parse_ttlv(data)
        res["input_wellformed"] = True
    except ValueError as e:
        res["input_wellformed"] = False
        res["input_error"] = str(e)
    try:
        x = cls()
        s = utils.BytearrayStream(data)
        x.read(s, kmip_version=v)
        res["decode"] = "ok"
        res["decode_leftover"] = len(s.buffer)
    except Exception as e:
        res["decode"] = "%s: %s" % (type(e).__name__, str(e)[:160])
        return res
    try:
        o = utils.BytearrayStream()
        x.write(o, kmip_version=v)
        e1 = bytes(o.buffer)
        res["encode"] = "ok"
        res["canonical"] = (e1 == data)
    except Exception as e:
        res["encode"] = "%s: %s" % (type(e).__name__, str(e)[:160])
        return res
    try:
        parse_ttlv(e1)
        res["wf"] = True
    except ValueError as e:
        res["wf"] = False
        res["wf_error"] = str(e)
    try:
        x1 = cls()
        x1.read(utils.BytearrayStream(data), kmip_version=v)     # reference decode (never written)
        x2 = cls()
        s2 = utils.BytearrayStream(e1)
        x2.read(s2, kmip_version=v)
        res["decode2"] = "ok"
        res["decode2_leftover"] = len(s2.buffer)
    except Exception as e:
        res["decode2"] = "%s: %s" % (type(e).__name__, str(e)[:160])
        return res
    try:
        res["deep_eq"] = deep_equal(x1, x2)
    except Exception as e:
        res["deep_eq"] = None
    try:
        eq = (x1 == x2)
        res["eq"] = (eq is True) or (eq is NotImplemented and None)
        if eq is NotImplemented or type(x1).__eq__ is object.__eq__:
            res["eq"] = None
    except Exception as e:
        res["eq"] = "%s: %s" % (type(e).__name__, str(e)[:120])
    try:
        o2 = utils.BytearrayStream()
        x2.write(o2, kmip_version=v)
        res["reencode_same"] = (bytes(o2.buffer) == e1)
    except Exception as e:
        res["reencode_same"] = "%s: %s" % (type(e).__name__, str(e)[:120])
    return res


def deep_equal(a, b, depth=0):
    """Field-wise comparison of two decoded objects (for classes without __eq__)."""
    import enum as _enum
    if depth > 30:
        return True
    if type(a) is not type(b):
        return False
    if a is None or isinstance(a, (bool, int, float, str, bytes, _enum.Enum)):
        return a == b
    if isinstance(a, (list, tuple)):
        return len(a) == len(b) and all(deep_equal(x, y, depth + 1) for x, y in zip(a, b))
    if isinstance(a, dict):
        return set(a) == set(b) and all(deep_equal(a[k], b[k], depth + 1) for k in a)
    if type(a).__name__.endswith('Factory') or 'factories' in (type(a).__module__ or ''):
        return True
    if hasattr(a, 'buffer') and type(a).__name__ == 'BytearrayStream':
        return bytes(a.buffer) == bytes(b.buffer)
    if hasattr(a, '__dict__'):
        da, db = vars(a), vars(b)
        for k in set(da) | set(db):
            if k in ('length', 'padding_length', 'logger', 'pack_string', 'tag'):
                continue
            if not deep_equal(da.get(k), db.get(k), depth + 1):
                return False
        return True
    return a == b


def run_native(repo, clsname, version, data):
    """Spawn a clean interpreter for native_check."""
    arg = json.dumps({"repo": repo, "cls": clsname, "version": version, "hex": data.hex()})
    p = subprocess.run([sys.executable, "-W", "ignore", "-m", "vf.ttlvreplay", arg], cwd=VERIF,
                       capture_output=True, text=True, timeout=120)
    for line in p.stdout.splitlines():
        if line.startswith("{"):
            return json.loads(line)
    return {"error": (p.stderr or p.stdout)[-400:]}


if __name__ == "__main__":
    a = json.loads(sys.stdin.read() if sys.argv[1] == "-" else sys.argv[1])
    if isinstance(a, list):
        outs = []
        for x in a:
            outs.append(native_check(x["repo"], x["cls"], x["version"], x["hex"]))
        print(json.dumps(outs))
    else:
        print(json.dumps(native_check(a["repo"], a["cls"], a["version"], a["hex"])))
