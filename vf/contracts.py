"""Sidecar contract language.

A contract is attached to the qualified name of a real function.  All clauses
are *source text of Python expressions*; they are never executed natively during
a proof: pyvc parses them with `ast` and evaluates them with the same symbolic
evaluator it uses for the repository code.  The replay harness evaluates the
same text on concrete values with the same evaluator.

Spec built-ins available inside clauses (see vf/models.py, SPEC_BUILTINS):
  old(e)            value of e in the pre-state
  implies(a, b)     ite(c, a, b)
  be(n, v)          n-byte big-endian encoding of 0 <= v < 256**n   (bytes)
  be_int(b)         big-endian value of a byte string of known length
  zeros(n)          n zero bytes
  forall_elems(s, lo, hi)   every element e of sequence s has lo <= e <= hi
  text_bytes(s)     the code points of str s as bytes (defined for s < 128)
  is_member(cls, v) integer v is the value of a member of enum cls
  raised            (in raises-ensures) the exception value
Spec functions defined in contracts/spec_*.py are ordinary Python functions in
the fragment; they are inlined by the evaluator and run natively in replays.
"""
import ast


class LoopSpec(object):
    def __init__(self, inv, modifies=(), index=None, done=None, rest=None,
                 havoc=None, ghost_init=None, ghost_step=None, decreases=None):
        self.inv = [inv] if isinstance(inv, str) else list(inv)
        self.modifies = list(modifies)
        self.index = index          # name under which the iteration count is visible
        self.done = done            # name of the ghost prefix (for-in-sequence loops)
        self.rest = rest
        self.havoc = dict(havoc or {})      # local name -> kind, when kind cannot be inferred
        self.ghost_init = dict(ghost_init or {})   # ghost name -> expr (evaluated at loop entry)
        self.ghost_step = dict(ghost_step or {})   # ghost name -> expr (evaluated after the body)
        self.decreases = decreases


class Contract(object):
    def __init__(self, qualname, variant=None):
        self.qualname = qualname
        self.variant = variant
        self.key = qualname + ('#' + variant if variant else '')
        self.arg_kinds = {}
        self.requires_ = []
        self.ensures_ = []
        self.raises_ = []        # (exc_class_name|None, when_src|None, ensures_src|None, name)
        self.no_other_raises = True
        self.modifies_ = []
        self.result_kind = None
        self.loops = {}
        self.inline = False
        self.trusted = False
        self.pure = False
        self.properties = set()
        self.cases_ = None
        self.notes = []
        self.lets = []           # ghost definitions (name, expr) evaluated in pre-state
        self.callee_variant = None

    # ---- declaration API
    def args(c, **kinds):
        c.arg_kinds.update(kinds)
        return c

    def let(self, name, src):
        self.lets.append((name, src))
        return self

    def requires(self, src, name=None):
        self.requires_.append((name or "pre%d" % len(self.requires_), src))
        return self

    def ensures(self, src, name=None, assume=True):
        """assume=False: proved against the body but not assumed at call sites (callers do not
        need it; skipping it only weakens what callers may rely on)."""
        n = name or "post%d" % len(self.ensures_)
        self.ensures_.append((n, src))
        if not assume:
            if not hasattr(self, 'not_assumed_'):
                self.not_assumed_ = set()
            self.not_assumed_.add(n)
        return self

    def raises(self, exc, when=None, ensures=None, name=None, fields=None, emits=None):
        """exc: exception class name (dotted or bare) or None for 'never raises'.
        when: condition over the pre-state under which it is raised.  A clause
        with `when` is exact (raised iff when); without it, the function *may*
        raise exc."""
        if exc is None:
            self.raises_ = []
            self.no_other_raises = True
            return self
        rn = name or "raises%d" % len(self.raises_)
        self.raises_.append((exc, when, ensures, rn))
        if emits:
            # events the callee is known (by its own trace obligations) to have produced when it
            # raises this exception; replayed into the caller's trace at call sites
            if not hasattr(self, 'raise_emits_'):
                self.raise_emits_ = {}
            self.raise_emits_[rn] = list(emits)
        if fields:
            if not hasattr(self, 'raise_fields_'):
                self.raise_fields_ = {}
            self.raise_fields_[rn] = dict(fields)     # attribute -> kind of the raised exception
        return self

    def may_raise_anything(self):
        self.no_other_raises = False
        return self

    def modifies(self, *paths):
        self.modifies_.extend(paths)
        return self

    def returns(self, kind):
        self.result_kind = kind
        return self

    def loop(self, k, inv, **kw):
        self.loops[k] = LoopSpec(inv, **kw)
        return self

    def inlined(self):
        self.inline = True
        return self

    def trust(self, note):
        self.trusted = True
        self.notes.append(note)
        return self

    def trace(self, name, fn):
        """fn(events, outcome, exc) -> True or a message; checked on every path.  Events are
        tuples recorded by the executor: ('call', qualname), ('return', qualname),
        ('raise', class name), ('external', name), ('send', taint), ('recv', kind),
        ('log', level, taint, function), ('field.write', id, name), ('db', op, ...)."""
        if not hasattr(self, 'traces_'):
            self.traces_ = []
        self.traces_.append((name, fn))
        return self

    def closure(self, **kinds):
        """Kinds of the free variables of a nested function (decorator wrapper) under contract."""
        self.closure_kinds_ = dict(kinds)
        return self

    def externals(self, **kinds):
        """Assumed contracts of third-party callees while proving this contract:
        name (dots written as __) -> (kind of the result, may it raise)."""
        if not hasattr(self, 'external_kinds_') or self.external_kinds_ is None:
            self.external_kinds_ = {}
        for k, v in kinds.items():
            self.external_kinds_[k.replace('__', '.')] = v
        return self

    def allow_external(self):
        """External (third-party) calls inside this function are modelled as uninterpreted
        results that may raise any Exception (each listed as an assumption)."""
        self.allow_external_ = True
        return self

    def opaque_outside(self, *modules):
        """Only code of the given modules is interpreted while proving this contract; calls into
        any other module (request construction helpers, factories) are uninterpreted and may raise."""
        self.opaque_outside_ = list(modules)
        self.allow_external_ = True
        return self

    def native_check(self, fn):
        """fn(pre_inputs, post_inputs, raised) -> True | message.  Extra check used only by
        the replay harness for obligations whose witness is not an execution (invariants)."""
        if not hasattr(self, 'native_checks_'):
            self.native_checks_ = []
        self.native_checks_.append(fn)
        return self

    def native_replay(self, fn):
        """fn(obligation, counterexample) -> dict(confirmed: bool|None, ...).  Replaces the generic
        replay for contracts whose inputs are abstract (a store, a session): the function builds
        the real environment the counterexample describes and runs the real code in it."""
        self.native_replay_ = fn
        return self

    def effect(self, fn):
        """fn(path, locals): native hook run when this contract is applied at a call site (before
        any outcome is chosen); used to record ghost events such as ('access', op, uid)."""
        if not hasattr(self, 'effects_'):
            self.effects_ = []
        self.effects_.append(fn)
        return self

    def use_variant(self, name):
        """While proving this contract, callees that have a variant of this name are
        used through that variant (whose preconditions are then proved at the call)."""
        self.callee_variant = name
        return self

    def props(self, *ids):
        self.properties.update(ids)
        return self

    def scope(self, obligation_prefix, *props):
        """Obligations of this contract whose name (after the '/') starts with the prefix are
        reported only under the given properties (a contract shared by several properties may
        carry clauses that belong to one of them)."""
        if not hasattr(self, 'scopes_'):
            self.scopes_ = {}
        self.scopes_[obligation_prefix] = set(props)
        return self

    def columns(self, **kinds):
        """Kinds of the columns of every stored object met while proving this contract (e.g.
        bounded concrete-spine lists for the multivalued attribute collections)."""
        self.column_kinds = dict(kinds)
        return self


REGISTRY = {}


def in_scope(obligation, prop):
    key, _, rest = obligation.partition('/')
    c = REGISTRY.get(key)
    if c is None:
        return True
    for pre, props in getattr(c, 'scopes_', {}).items():
        if rest.startswith(pre) and prop not in props:
            return False
    return True


def contract(qualname, variant=None):
    """variant=None is the contract used at call sites; named variants are extra
    specifications of the same function proved separately (e.g. 'accepts')."""
    key = qualname + ('#' + variant if variant else '')
    c = REGISTRY.get(key)
    if c is None:
        c = Contract(qualname, variant)
        REGISTRY[key] = c
    return c


def lookup(qualname):
    return REGISTRY.get(qualname)


_expr_cache = {}


def parse_expr(src):
    node = _expr_cache.get(src)
    if node is None:
        node = ast.parse(src.strip(), mode="eval").body
        _expr_cache[src] = node
    return node


SPEC_NAMES = {}


def spec_module(mod):
    """Make the public functions/constants of a spec module visible in clauses."""
    for k, v in vars(mod).items():
        if not k.startswith('_'):
            SPEC_NAMES[k] = v
