"""./check <property> [--tier quick|thorough] [--repo DIR] [--replay FILE]
            [--update-baseline] [--only SUBSTR ...]"""
import argparse
import json
import os
import sys

VERIF = os.path.dirname(os.path.dirname(os.path.abspath(__file__)))


def main(argv=None):
    ap = argparse.ArgumentParser()
    ap.add_argument("prop")
    ap.add_argument("--tier", default=os.environ.get("VERIF_TIER", "quick"), choices=["quick", "thorough"])
    ap.add_argument("--repo", default=os.environ.get("VERIF_REPO", "/repo"))
    ap.add_argument("--replay")
    ap.add_argument("--update-baseline", action="store_true")
    ap.add_argument("--only", nargs="*")
    a = ap.parse_args(argv)
    os.chdir(VERIF)
    sys.path.insert(0, VERIF)
    seed = int(os.environ.get("VERIF_SEED", "0") or 0)
    if a.replay:
        return replay_file(a.replay, a.repo)
    from vf import driver
    return driver.run_property(a.prop, a.tier, a.repo, seed, a.update_baseline, a.only)


def replay_file(path, repo):
    from vf import extract, replay, contracts as VC
    extract.set_repo(repo)
    with open(path) as f:
        rec = json.load(f)
    import importlib
    mod = importlib.import_module("props." + rec["property"])
    units = mod.units({"tier": rec.get("tier", "quick"), "seed": 0, "repo": repo, "prop": rec["property"],
                       "known": []})
    u = next((x for x in units if x.name == rec["unit"]), None)
    cex = replay.unjson(rec["counterexample"])
    if u is not None and u.contract is not None:
        out = replay.replay_contract(u.contract, rec["obligation"], cex)
    elif u is not None and getattr(u, "replayer", None):
        out = u.replayer(rec["obligation"], cex)
    else:
        print("no replayer for unit", rec.get("unit"))
        return 3
    print(json.dumps(out, indent=1, default=str))
    return 1 if out.get("confirmed") else 0


if __name__ == "__main__":
    sys.exit(main())
