"""Decoder-driven exploration of one structure class under one KMIP version,
and the obligations checked on every accepting path (see vf/ttlvsym.py)."""
import enum
import importlib
import inspect
import pkgutil
import struct
import traceback

from kmip.core import enums, exceptions, primitives, utils

from . import ttlvsym as T
from .ttlvsym import Inspect, OutOfFragmentT, State, ST, Body, Item, sym_id, is_pseudo, leaf_sig

SKIP_FIELDS = ('length', 'padding_length', 'logger', 'pack_string')


def all_structure_classes():
    """Every subclass of primitives.Struct defined in kmip.core (recomputed from
    the live package on every run)."""
    import kmip.core
    import kmip.core.messages.payloads as payloads
    for pkg in (kmip.core, ):
        for m in pkgutil.walk_packages(pkg.__path__, pkg.__name__ + '.'):
            try:
                importlib.import_module(m.name)
            except Exception:
                pass
    seen, out = set(), []

    def walk(c):
        for s in c.__subclasses__():
            if s not in seen:
                seen.add(s)
                if (s.__module__ or '').startswith('kmip.core'):
                    out.append(s)
                walk(s)
    walk(primitives.Struct)
    return sorted(out, key=lambda c: (c.__module__, c.__qualname__))


def own_codec(cls):
    return 'read' in cls.__dict__ or 'write' in cls.__dict__


def make_default(cls):
    return cls()


# ------------------------------------------------------------------ comparison

def _is_factory(v):
    n = type(v).__name__
    return n.endswith('Factory') or 'factories' in (type(v).__module__ or '')


def equal_values(a, b, path="", diffs=None, depth=0):
    """Structural equality with leaf identity.  Appends human-readable
    differences to diffs."""
    if diffs is None:
        diffs = []
    if depth > 40:
        return True
    if a is None or b is None:
        if a is not b:
            diffs.append("%s: %r vs %r" % (path, a, b))
            return False
        return True
    sa, sb = sym_id(a), sym_id(b)
    if sa is not None or sb is not None:
        if sa != sb:
            diffs.append("%s: leaf %r vs %r" % (path, a, b))
            return False
        return True
    if isinstance(a, enum.Enum) or isinstance(b, enum.Enum):
        if a is not b:
            diffs.append("%s: %r vs %r" % (path, a, b))
            return False
        return True
    if isinstance(a, (list, tuple)) and isinstance(b, (list, tuple)):
        if len(a) != len(b):
            diffs.append("%s: list lengths %d vs %d" % (path, len(a), len(b)))
            return False
        ok = True
        for i, (x, y) in enumerate(zip(a, b)):
            ok = equal_values(x, y, "%s[%d]" % (path, i), diffs, depth + 1) and ok
        return ok
    if isinstance(a, dict) and isinstance(b, dict):
        ok = True
        for k in set(a) | set(b):
            ok = equal_values(a.get(k), b.get(k), "%s[%r]" % (path, k), diffs, depth + 1) and ok
        return ok
    if isinstance(a, utils.BytearrayStream) and isinstance(b, utils.BytearrayStream):
        if [i.signature() for i in a._items] != [i.signature() for i in b._items]:
            diffs.append("%s: stream contents differ" % path)
            return False
        return True
    if _is_factory(a) and _is_factory(b):
        return True
    if isinstance(a, primitives.Base) or hasattr(a, '__dict__'):
        if type(a) is not type(b):
            diffs.append("%s: class %s vs %s" % (path, type(a).__name__, type(b).__name__))
            return False
        ok = True
        da, db = vars(a), vars(b)
        for k in sorted(set(da) | set(db)):
            if k in SKIP_FIELDS or k.startswith('_ttlvsym'):
                continue
            ok = equal_values(da.get(k), db.get(k), "%s.%s" % (path, k), diffs, depth + 1) and ok
        return ok
    try:
        if a == b:
            return True
    except Inspect:
        pass
    diffs.append("%s: %r vs %r" % (path, a, b))
    return False


def sig_items(items):
    return [i.signature() for i in items]


def describe(items, depth=0):
    out = []
    for i in items:
        if i.kind == 'struct':
            out.append("%s{%s}" % (getattr(i.tag, 'name', i.tag), ",".join(describe(i.children, depth + 1))))
        else:
            v = i.sym
            sv = "*" if sym_id(v) is not None else (v.name if isinstance(v, enum.Enum) else repr(v))
            out.append("%s:%s=%s" % (getattr(i.tag, 'name', i.tag), i.kind, sv))
    return out


# ------------------------------------------------------------------ one path

REJECT = (exceptions.KmipError, ValueError, TypeError, struct.error, exceptions.ReadValueError,
          exceptions.StreamNotEmptyError, exceptions.InvalidKmipEncoding, AttributeError, KeyError,
          IndexError, exceptions.InvalidPrimitiveLength, exceptions.InvalidPaddingBytes,
          NotImplementedError)


class PathResult(object):
    def __init__(self):
        self.status = None          # 'accepted' | 'rejected' | 'inspect' | 'oof'
        self.detail = None
        self.failures = []          # (obligation, detail)
        self.shape = None
        self.alternatives = []
        self.exc = None
        self.domains = []
        self.nsyms = 0
        self.tree = None
        self.list_bounded = False
        self.notes = []


def run_path(cls, version, decisions, concretize, list_bound, make=None):
    S = State(decisions, concretize)
    S.list_bound = list_bound
    ST[0] = S
    R = PathResult()
    try:
        obj = (make or make_default)(cls)
    except Exception as e:
        R.status = 'oof'
        R.detail = "cannot construct %s(): %s: %s" % (cls.__name__, type(e).__name__, e)
        return R
    S.top_obj = obj
    src = utils.BytearrayStream()
    src._open = True
    try:
        try:
            obj.read(src, kmip_version=version)
        finally:
            R.alternatives = S.alternatives
            S.alternatives = []
    except Inspect as e:
        return _inspected(R, S, e)
    except OutOfFragmentT as e:
        R.status = 'oof'
        R.detail = "read: %s" % e
        return R
    except Exception as e:
        R.status = 'rejected'
        R.exc = type(e).__name__
        R.detail = str(e)[:200]
        return R
    if not T.finish_inplace(src):
        R.status = 'rejected'
        R.exc = 'leftover'
        return R
    if src._cur < len(src._items):
        R.status = 'rejected'
        R.exc = 'leftover'
        return R
    n_alt = len(R.alternatives)
    R.status = 'accepted'
    R.shape = describe(src._items)
    R.tree = [i.tree() for i in src._items]
    R.list_bounded = S.list_bounded
    R.domains = list(S.domains_used)
    R.nsyms = S.next_sid
    in_sig = sig_items(src._items)
    # reference copy of x: a second decode of the same accepted input (write() may mutate x)
    ref = (make or make_default)(cls)
    S.top_obj = ref
    try:
        rsrc = utils.BytearrayStream(Body(list(src._items)))
        ref.read(rsrc, kmip_version=version)
        T.finish_inplace(rsrc)
        dd = []
        if not equal_values(obj, ref, cls.__name__, dd):
            R.failures.append(("dec.deterministic", "two decodes of the same input differ: " + "; ".join(dd[:3])))
    except Inspect as e:
        return _inspected(R, S, e)
    except OutOfFragmentT as e:
        R.status = 'oof'
        R.detail = "reference read: %s" % e
        return R
    except Exception as e:
        R.failures.append(("dec.deterministic", "decoding the accepted input again raised %s: %s"
                           % (type(e).__name__, str(e)[:120])))
        ref = obj
    S.top_obj = obj
    # ---- write(x)
    out = utils.BytearrayStream()
    try:
        obj.write(out, kmip_version=version)
        if out._hdr:
            if len(out._hdr) == 3:
                T._flush_header(out, [])
            else:
                S.wf_errors.append("incomplete header written")
    except Inspect as e:
        return _inspected(R, S, e)
    except OutOfFragmentT as e:
        R.status = 'oof'
        R.detail = "write: %s" % e
        return R
    except Exception as e:
        R.failures.append(("enc.ok", "write of the decoded object raised %s: %s" % (type(e).__name__, str(e)[:160])))
        return R
    if S.wf_errors:
        R.failures.append(("wf", "; ".join(S.wf_errors[:3])))
    out_sig = sig_items(out._items)
    if out_sig != in_sig:
        # informational only: C01 does not require encode(decode(b)) == b for arbitrary accepted b
        R.notes.append("non-canonical input accepted: re-encoding differs")
    # ---- read(write(x))
    obj2 = (make or make_default)(cls)
    S.top_obj = obj2
    src2 = utils.BytearrayStream(Body(list(out._items)))
    try:
        obj2.read(src2, kmip_version=version)
    except Inspect as e:
        return _inspected(R, S, e)
    except OutOfFragmentT as e:
        R.status = 'oof'
        R.detail = "second read: %s" % e
        return R
    except Exception as e:
        R.failures.append(("dec2.ok", "decoding the re-encoded bytes raised %s: %s"
                           % (type(e).__name__, str(e)[:160])))
        return R
    if not T.finish_inplace(src2) or src2._cur < len(src2._items):
        R.failures.append(("dec2.ok", "decoder left items of the re-encoded message unread"))
    diffs = []
    if not equal_values(ref, obj2, cls.__name__, diffs):
        R.failures.append(("rt.eq", "; ".join(diffs[:4])))
    else:
        eqm = None
        for k in type(obj).__mro__:
            if '__eq__' in k.__dict__ and k is not object:
                eqm = k.__dict__['__eq__']
                break
        if eqm is not None:
            try:
                r = eqm(ref, obj2)
                if r is not True and r is not NotImplemented:
                    R.failures.append(("rt.eq", "class __eq__ returned %r for field-wise identical objects" % (r,)))
            except Inspect:
                pass
            except Exception as e:
                R.failures.append(("rt.eq", "class __eq__ raised %s" % type(e).__name__))
    # ---- write(read(write(x)))
    out2 = utils.BytearrayStream()
    try:
        obj2.write(out2, kmip_version=version)
        if len(out2._hdr) == 3:
            T._flush_header(out2, [])
        if sig_items(out2._items) != out_sig:
            R.failures.append(("reenc.same", "second encoding differs from the first"))
    except Inspect as e:
        return _inspected(R, S, e)
    except OutOfFragmentT as e:
        R.status = 'oof'
        R.detail = "second write: %s" % e
        return R
    except Exception as e:
        R.failures.append(("reenc.same", "second write raised %s" % type(e).__name__))
    if len(S.alternatives) or S.pos < len(S.decisions):
        # decisions after the first read would mean write/second read consulted the oracle
        if S.alternatives:
            R.status = 'oof'
            R.detail = "oracle consulted outside the first read"
    return R


def _inspected(R, S, e):
    sym = e.sym
    sid = getattr(sym, 'sid', getattr(sym, '_sid', None))
    key = S.sym_origin.get(sid)
    R.status = 'inspect'
    R.detail = (key, str(e))
    return R


# ------------------------------------------------------------------ all paths of (class, version)

def explore(cls, version, list_bound=2, max_paths=20000, make=None, discrepancy=None, first_accept=False):
    """-> dict(accepted=[PathResult], rejected={exc: count}, oof=[...], paths=n,
               discriminators=[(tag, kind)])
    Leaves that the structure code inspects are *discriminators*: the exploration
    is restarted with every leaf of that (tag, kind) enumerated over its domain."""
    T.install()
    conc = frozenset()
    total = 0
    pruned = [0]
    while True:
        stack = [[]]
        accepted, rejected, oof = [], {}, []
        newdisc = set()
        n = 0
        while stack:
            decisions = stack.pop(0) if first_accept else stack.pop()
            n += 1
            if total + n > max_paths:
                oof.append("path budget exceeded")
                break
            R = run_path(cls, version, decisions, conc, list_bound, make)
            if R.status == 'inspect':
                key, why = R.detail
                if key is None or key in conc:
                    oof.append("inspected a value that cannot be enumerated: %s" % why)
                else:
                    newdisc.add(key)
                continue
            for alt in R.alternatives:
                if discrepancy is not None:
                    # presence decisions: 0 = present/first option, >0 = absent/other.  Keep paths
                    # within Hamming distance `discrepancy` of all-first or all-last choices.
                    nz = sum(1 for d in alt if d != 0)
                    if min(nz, len(alt) - nz) > discrepancy:
                        pruned[0] += 1
                        continue
                stack.append(alt)
            if R.status == 'accepted':
                accepted.append(R)
                if first_accept and (first_accept != 'clean' or not R.failures):
                    return {"accepted": accepted, "rejected": rejected, "oof": oof, "paths": total + n,
                            "pruned": pruned[0], "discriminators": []}
            elif R.status == 'rejected':
                rejected[R.exc] = rejected.get(R.exc, 0) + 1
            else:
                oof.append(R.detail)
        total += n
        if newdisc and total <= max_paths:
            conc = conc | newdisc
            continue
        return {"accepted": accepted, "rejected": rejected, "oof": oof, "paths": total, "pruned": pruned[0],
                "discriminators": sorted((getattr(t, 'name', str(t)), k) for t, k in conc)}


# ------------------------------------------------------------------ modular use of nested structures

class OpaqueSym(object):
    """Stands for 'some value of structure class cls accepted under this version'."""

    def __init__(self, sid, cls):
        self.sid = sid
        self.cls = cls

    def __repr__(self):
        return "<%s#%d>" % (self.cls.__name__, self.sid)


_POISON = {}
_ALLOWED = frozenset(['tag', 'type', 'length', '__class__', '__dict__', 'write', 'read', '_ttlvsym_sid',
                      '__eq__', '__ne__', '__repr__', '__hash__', '_ttlvsym_opaque', '__init__', '__reduce_ex__'])


def poisoned(cls):
    p = _POISON.get(cls)
    if p is None:
        def guard(self, name):
            if name in _ALLOWED:
                return object.__getattribute__(self, name)
            raise Inspect(object.__getattribute__(self, '_ttlvsym_opaque'), "field %s of nested structure" % name)
        p = type('Sym' + cls.__name__, (cls,), {'__getattribute__': guard})
        _POISON[cls] = p
    return p


REGISTRY = {}        # cls -> {version: True | exception class}
_REAL = {}


def _nested_read(self, istream, kmip_version=enums.KMIPVersion.KMIP_1_0):
    cls = _base_of(type(self))
    real = _REAL[cls][0]
    S = T.st()
    summ = REGISTRY.get(cls)
    if summ is None or S is None or getattr(S, 'top_obj', None) is self:
        return real(self, istream, kmip_version=kmip_version)
    verdict = summ.get(kmip_version)
    if verdict is None:
        return real(self, istream, kmip_version=kmip_version)
    key = (self.tag, 'struct:' + cls.__name__)
    if key in S.concretize:
        return real(self, istream, kmip_version=kmip_version)
    if verdict is not True:
        raise verdict("%s is not decodable under %s" % (cls.__name__, kmip_version))
    if istream._stage not in (0, 3):
        raise OutOfFragmentT("nested read at header stage %d" % istream._stage)
    it = T._front(istream, self.tag)
    if it is not None and it.tag is None and it.pending:
        it.tag = self.tag
    if it is None:
        if not istream._open and istream._cur >= len(istream._items):
            raise struct.error("unpack requires a buffer of 4 bytes")
        raise exceptions.ReadValueError(primitives.Base.__name__, 'tag', hex(self.tag.value), 'excluded')
    if it.tag is not self.tag:
        raise exceptions.ReadValueError(primitives.Base.__name__, 'tag', hex(self.tag.value), hex(it.tag.value))
    if it.pending:
        if it.type is not None and it.type is not enums.Types.STRUCTURE:
            raise exceptions.ReadValueError(primitives.Base.__name__, 'type', 1, it.type.value)
        it.pending = False
        it.type = enums.Types.STRUCTURE
        it.kind = 'opaque'
        sid = S.fresh_sid()
        it.sym = OpaqueSym(sid, cls)
        S.sym_origin[sid] = key
    if it.kind != 'opaque':
        # written by the real code (not an opaque value): decode it for real
        return real(self, istream, kmip_version=kmip_version)
    if it.sym.cls is not cls:
        raise OutOfFragmentT("opaque %s read as %s" % (it.sym.cls.__name__, cls.__name__))
    object.__setattr__(self, '_ttlvsym_opaque', it.sym)
    try:
        it.sym.read_version = kmip_version
    except Exception:
        pass
    self.__class__ = poisoned(type(self))
    istream._cur += 1


def _nested_write(self, ostream, kmip_version=enums.KMIPVersion.KMIP_1_0):
    cls = _base_of(type(self))
    real = _REAL[cls][1]
    d = object.__getattribute__(self, '__dict__')
    sym = d.get('_ttlvsym_opaque')
    if sym is None:
        return real(self, ostream, kmip_version=kmip_version)
    summ = REGISTRY.get(cls, {})
    verdict = summ.get(kmip_version)
    if verdict is not True and verdict is not None:
        raise verdict("%s is not encodable under %s" % (cls.__name__, kmip_version))
    T._settle(ostream)
    if ostream._hdr:
        raise OutOfFragmentT("nested structure written while a header is pending")
    it = Item(self.tag, enums.Types.STRUCTURE, None, 'opaque', sym, None)
    ostream._items.append(it)


def _base_of(k):
    for b in k.__mro__:
        if b in _REAL:
            return b
    raise OutOfFragmentT("no registered base for %s" % k.__name__)


def register_modular(cls, summary):
    """From now on `cls` nested inside another structure is an opaque value."""
    if 'read' not in cls.__dict__ or 'write' not in cls.__dict__:
        return
    if cls not in _REAL:
        _REAL[cls] = (cls.__dict__['read'], cls.__dict__['write'])
        cls.read = _nested_read
        cls.write = _nested_write
    REGISTRY[cls] = summary


def unregister_all():
    for cls, (r, w) in _REAL.items():
        cls.read = r
        cls.write = w
    _REAL.clear()
    REGISTRY.clear()


def acceptance_summary(classes, versions, limit=1500):
    """For every class and version: True if some input is accepted, else the
    exception class the decoder raises (majority).  Computed before any class is
    registered as modular (nested structures are decoded for real here)."""
    import builtins
    out = {}
    for c in classes:
        summ = {}
        for v in versions:
            r = explore(c, v, list_bound=1, max_paths=limit, first_accept=True)
            if r['accepted']:
                summ[v] = True
            elif r['rejected']:
                name = max(r['rejected'], key=r['rejected'].get)
                summ[v] = getattr(exceptions, name, None) or getattr(builtins, name, None) or ValueError
                if not isinstance(summ[v], type) or not issubclass(summ[v], BaseException):
                    summ[v] = ValueError
            else:
                summ[v] = None
        out[c] = summ
    return out
